#!/bin/bash
# usage: tools/seedsweep.sh "11 12 13" [tier]   -> runs every registered check at the given seeds, prints exit codes
cd "$(dirname "$0")/.."
TIER=${2:-quick}
for s in $1; do
  for p in C01 C02 C03 C04 C05 C06 C07 C08 C09 C10 C11 C12 C13 C14 C15 C16 C17 C18 C19 C20; do
    out=$(VERIF_SEED=$s /venv/bin/python -m vf.run $p --tier $TIER --no-evidence 2>&1)
    rc=$?
    echo "seed=$s $p exit=$rc $(echo "$out" | grep -v '^KNOWN\|^   ' | grep "$p $TIER" | cut -c1-110)"
    if [ $rc -ne 0 ]; then echo "$out" | grep -v '^KNOWN' | tail -12; fi
  done
done
