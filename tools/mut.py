#!/venv/bin/python
"""Sensitivity helper: apply a textual mutation (or a patch file) to a scratch copy of /repo's package and
run checks against it.  Never touches /repo.  Usage:

  tools/mut.py --file strawberryfields/program_utils.py --old 'X' --new 'Y' --props C04[,C03] [--only SUB]
  tools/mut.py --patch some.diff --props C04

Exit code 0 iff every listed check reported a VIOLATION (i.e. the mutation was caught).
"""
import argparse
import os
import shutil
import subprocess
import sys
import tempfile

ROOT = os.path.dirname(os.path.dirname(os.path.abspath(__file__)))


def main():
    ap = argparse.ArgumentParser()
    ap.add_argument("--file")
    ap.add_argument("--old")
    ap.add_argument("--new")
    ap.add_argument("--count", type=int, default=1, help="expected number of occurrences of --old (all replaced)")
    ap.add_argument("--patch")
    ap.add_argument("--props", required=True)
    ap.add_argument("--only", default=None)
    ap.add_argument("--tier", default="quick")
    ap.add_argument("--seed", default="1")
    ap.add_argument("--keep", action="store_true")
    a = ap.parse_args()
    tmp = tempfile.mkdtemp(prefix="sfmut-", dir="/tmp")
    try:
        subprocess.check_call(["rsync", "-a", "--exclude", "__pycache__", "/repo/strawberryfields", tmp + "/"])
        if a.patch:
            subprocess.check_call(["patch", "-p1", "-s", "-d", tmp, "-i", os.path.abspath(a.patch)])
        else:
            p = os.path.join(tmp, a.file)
            s = open(p, newline="").read()
            if s.count(a.old) != a.count:
                print("mutation site occurs %d times, expected %d" % (s.count(a.old), a.count))
                return 3
            open(p, "w", newline="").write(s.replace(a.old, a.new))
        env = dict(os.environ)
        env.update(VF_REPO=tmp, PYTHONPATH=tmp + os.pathsep + ROOT, VERIF_SEED=a.seed)
        allcaught = True
        for prop in a.props.split(","):
            cmd = ["/venv/bin/python", "-m", "vf.run", prop, "--tier", a.tier, "--no-evidence"]
            if a.only:
                cmd += ["--only", a.only]
            r = subprocess.run(cmd, cwd=ROOT, env=env, capture_output=True, text=True)
            lines = [l for l in r.stdout.splitlines() if l.startswith(("VIOLATION", "  failing", "  detail", "HARNESS", "KNOWN", prop))]
            print("== %s exit=%d" % (prop, r.returncode))
            print("\n".join(lines[:12]))
            if r.returncode == 2:
                print(r.stdout[-1500:], r.stderr[-1500:])
            allcaught &= r.returncode == 1
        return 0 if allcaught else 1
    finally:
        if not a.keep:
            shutil.rmtree(tmp, ignore_errors=True)


if __name__ == "__main__":
    sys.exit(main())
