#!/venv/bin/python
"""Summarise /verif/seeded/*/meta.json as a markdown table (seeded/RESULTS.md; the same table is pasted into DESIGN.md 8.2)."""
import glob
import json
import os
import re
import sys

ROOT = os.path.dirname(os.path.dirname(os.path.abspath(__file__)))


def first_line(notes):
    for l in notes.splitlines():
        l = l.strip().lstrip("#").strip()
        if l:
            return re.sub(r"^C\d\d\s*/\s*[AB]\s*[-:]\s*", "", l)
    return ""


def main():
    rows = []
    for mp in sorted(glob.glob(os.path.join(ROOT, "seeded", "C*", "meta.json"))):
        m = json.load(open(mp))
        first = m.get("caught_by") or []
        rer = m.get("rerun", {})
        now = sorted({k.split("@")[0] for k, v in rer.items() if v.get("caught")})
        seeds = {}
        for k, v in rer.items():
            p, s = k.split("@")
            seeds.setdefault(p, []).append((s, v.get("caught")))
        sig = ""
        for k, v in rer.items():
            if v.get("caught") and v.get("first"):
                sig = re.sub(r".*signature=", "", v["first"][0])
                break
        if not sig:
            for p, v in m.get("quick_tier_results", {}).items():
                if v.get("caught") and v.get("first_signatures"):
                    sig = re.sub(r".*signature=", "", v["first_signatures"][0])
        own = m["breaks_property"]
        frac = ""
        if own in seeds:
            frac = "%d/%d" % (sum(1 for _, c in seeds[own] if c), len(seeds[own]))
        rows.append((m["id"], first_line(m.get("needs_to_manifest", "")), ", ".join(m.get("files_changed", [])).replace("strawberryfields/", ""),
                     "yes" if m.get("confirmed") else "NO", "yes" if own in first else "no", ", ".join(now) or ("-" if not rer else "none"), frac, sig))
    out = ["| id | change (independent agent, given only the property text) | file | confirmed | caught at first evaluation | caught now by | own check, seeds caught | first signature |",
           "|---|---|---|---|---|---|---|---|"]
    for r in rows:
        out.append("| " + " | ".join(str(x).replace("|", "/") for x in r) + " |")
    n = len(rows)
    nfirst = sum(1 for r in rows if r[4] == "yes")
    nnow = sum(1 for r in rows if r[5] not in ("-", "none") or r[4] == "yes")
    nown = sum(1 for r in rows if r[0].split("-")[0] in [x.strip() for x in r[5].split(",")] or (r[5] in ("-", "none") and r[4] == "yes"))
    out.append("")
    out.append("%d confirmed changes; %d caught by the property's own quick tier as first evaluated (seed 1); after strengthening %d are caught by the "
               "property's own check and %d by some registered check (the difference: changes whose own property delegates that code to a neighbouring check)." % (n, nfirst, nown, nnow))
    txt = "\n".join(out) + "\n"
    open(os.path.join(ROOT, "seeded", "RESULTS.md"), "w").write(
        "# Seeded changes\n\nEach directory holds `patch.diff`, the agent's `demo.py` (exit 0 on the unchanged tree, non-zero with the change), its `notes.md`\n"
        "and `meta.json` (what was run to confirm it and which checks catch it).  Produced by fresh sub-agents that saw only the property text and a scratch\n"
        "worktree; confirmed with tools/seedeval.py (scratch copy of /repo, demo before/after, related existing tests with the change applied), re-run with\n"
        "tools/seedrun.py after checks were strengthened.  Ids ending in -A/-B are the first wave, -C/-D the second (those agents were told which ideas had been used),\n"
        "-E/-F the third (run after the generator audit, DESIGN.md 8.3; told the ideas of both earlier waves).\n"
        "One proposed change (C12-B, Xcov Amat without hbar) was rejected: two existing tests fail with it.\n\n" + txt)
    sys.stdout.write(txt)


if __name__ == "__main__":
    main()
