#!/venv/bin/python
"""Confirm and evaluate one independently seeded change.

  tools/seedeval.py /tmp/seeded/C03/A --id C03-A --props C03[,C04] [--skip-tests]

1. confirms it: in a scratch copy of /repo's working tree (rsync, outside /repo and /verif) the demo passes on the unchanged code,
   the patch applies, the demo fails with it, and the related existing repo tests still pass with it;
2. runs the quick tier of the listed checks against the patched copy (VF_REPO / PYTHONPATH) and records which catch it;
3. writes /verif/seeded/<id>/{patch.diff, demo.py, notes.md, meta.json}.  Nothing in /repo is touched; the scratch copy is removed.
"""
import argparse
import json
import os
import re
import shutil
import subprocess
import sys
import tempfile

ROOT = os.path.dirname(os.path.dirname(os.path.abspath(__file__)))
PY = "/venv/bin/python"

TESTMAP = [
    (r"strawberryfields/apps/qchem", ["tests/apps/qchem"]),
    (r"strawberryfields/apps/train", ["tests/apps/train"]),
    (r"strawberryfields/apps/(similarity|clique|subgraph|sample)", ["tests/apps/test_similarity.py", "tests/apps/test_clique.py", "tests/apps/test_subgraph.py", "tests/apps/test_sample.py"]),
    (r"strawberryfields/compilers", ["tests/frontend/compilers", "tests/api/test_devicespec.py"]),
    (r"strawberryfields/io", ["tests/frontend/io", "tests/api"]),
    (r"strawberryfields/tdm", ["tests/frontend/test_tdmprogram.py", "tests/frontend/test_space_unroll.py", "tests/frontend/test_tdm_utils.py", "tests/frontend/compilers/test_tdm.py"]),
    (r"strawberryfields/decompositions", ["tests/frontend/test_decompositions.py", "tests/frontend/test_ops_decompositions.py", "tests/integration/test_decompositions_integration.py"]),
    (r"strawberryfields/backends/states", ["tests/backend/test_states.py", "tests/backend/test_states_wigner.py", "tests/backend/test_states_probabilities.py", "tests/backend/test_states_polyquad.py", "tests/backend/test_bosonic_backend.py", "tests/integration/test_utils_integration.py"]),
    (r"strawberryfields/backends/bosonicbackend", ["tests/bosonic_files", "tests/backend/test_bosonic_backend.py", "tests/integration/test_measurement_integration.py"]),
    (r"strawberryfields/backends", ["tests/backend"]),
    (r"strawberryfields/utils", ["tests/frontend/test_utils.py", "tests/frontend/test_post_processing.py", "tests/integration/test_utils_integration.py"]),
    (r"strawberryfields/(ops|program|program_utils|engine|parameters|result|device)\.py", ["tests/frontend", "tests/integration/test_ops_integration.py", "tests/integration/test_engine_integration.py",
                                                                                         "tests/integration/test_parameters_integration.py", "tests/integration/test_measurement_integration.py"]),
]
FLAKY = ("cluster", "g2", "hong_ou_mandel", "test_average_fidelity", "test_default_sf_logger", "test_parameters_with_operations", "Nullifier",
         # order-dependent under xdist (F7: symbols cached by name across tests) or statistical; each was re-run on its own when it showed up
         "test_measured_parameter", "test_gate_measured_par", "test_intermediate_cost", "test_two_mode_squeezed_measurements")


def sh(cmd, **kw):
    return subprocess.run(cmd, capture_output=True, text=True, **kw)


def main():
    ap = argparse.ArgumentParser()
    ap.add_argument("src")
    ap.add_argument("--id", required=True)
    ap.add_argument("--props", required=True)
    ap.add_argument("--skip-tests", action="store_true")
    ap.add_argument("--seed", default="1")
    a = ap.parse_args()
    patch = os.path.join(a.src, "patch.diff")
    demo = os.path.join(a.src, "demo.py")
    meta = {"id": a.id, "breaks_property": a.props.split(",")[0], "checked_against": a.props.split(","), "source": "independent sub-agent given only the property text and a scratch worktree"}
    tmp = tempfile.mkdtemp(prefix="sfseed-", dir="/tmp")
    try:
        subprocess.check_call(["rsync", "-a", "--exclude", ".git", "--exclude", "__pycache__", "/repo/", tmp + "/"])
        env = dict(os.environ, PYTHONPATH=tmp, PYTHONHASHSEED="0")
        r0 = sh([PY, demo], env=env, cwd=tmp, timeout=1800)
        meta["demo_on_unchanged_tree"] = "pass" if r0.returncode == 0 else "FAIL(%d)" % r0.returncode
        rp = sh(["patch", "-p1", "-s", "--no-backup-if-mismatch", "-d", tmp, "-i", os.path.abspath(patch)])
        meta["patch_applies"] = rp.returncode == 0
        if rp.returncode != 0:
            meta["patch_error"] = (rp.stdout + rp.stderr)[-400:]
        files = re.findall(r"^\+\+\+ b/(\S+)", open(patch).read(), re.M)
        meta["files_changed"] = files
        r1 = sh([PY, demo], env=env, cwd=tmp, timeout=1800)
        meta["demo_with_change"] = "fail" if r1.returncode != 0 else "PASSES"
        meta["demo_output_with_change"] = (r1.stdout + r1.stderr).strip()[-600:]
        tests = []
        for pat, ts in TESTMAP:
            if any(re.search(pat, f) for f in files):
                for t in ts:
                    if t not in tests and os.path.exists(os.path.join(tmp, t)):
                        tests.append(t)
        if not a.skip_tests and tests:
            rt = sh([PY, "-m", "pytest", "-q", "-p", "no:cacheprovider", "-n", "8", "--timeout=900"] + tests, env=env, cwd=tmp, timeout=7200)
            tail = [l for l in rt.stdout.splitlines() if re.search(r"passed|failed|error", l)][-1:] or [rt.stdout[-200:]]
            failed = [l for l in rt.stdout.splitlines() if l.startswith("FAILED") or l.startswith("ERROR")]
            real = [l for l in failed if not any(f in l for f in FLAKY)]
            meta["existing_tests"] = {"files": tests, "summary": tail[0].strip(), "failures_not_in_baseline_flaky_set": real}
        confirmed = meta["demo_on_unchanged_tree"] == "pass" and meta["patch_applies"] and meta["demo_with_change"] == "fail" and not (meta.get("existing_tests", {}).get("failures_not_in_baseline_flaky_set"))
        meta["confirmed"] = bool(confirmed)
        # checks against the patched copy
        env2 = dict(os.environ, VF_REPO=tmp, PYTHONPATH=tmp + os.pathsep + ROOT, VERIF_SEED=a.seed)
        res = {}
        for prop in a.props.split(","):
            rc = sh([PY, "-m", "vf.run", prop, "--tier", "quick", "--no-evidence"], env=env2, cwd=ROOT, timeout=3600)
            viol = [l for l in rc.stdout.splitlines() if l.startswith("  failing sub-check") or l.startswith("  replay ")][:3]
            res[prop] = {"exit": rc.returncode, "caught": rc.returncode == 1, "first_signatures": [v.strip()[:200] for v in viol]}
        meta["quick_tier_results"] = res
        meta["caught_by"] = [p for p, v in res.items() if v["caught"]]
    finally:
        shutil.rmtree(tmp, ignore_errors=True)
    out = os.path.join(ROOT, "seeded", a.id)
    os.makedirs(out, exist_ok=True)
    for f in ("patch.diff", "demo.py", "notes.md"):
        if os.path.exists(os.path.join(a.src, f)):
            shutil.copy(os.path.join(a.src, f), os.path.join(out, f))
    notes = open(os.path.join(a.src, "notes.md")).read() if os.path.exists(os.path.join(a.src, "notes.md")) else ""
    meta["needs_to_manifest"] = notes.strip()[:1500]
    meta["what_was_run"] = "tools/seedeval.py %s --id %s --props %s (scratch copy of /repo via rsync; demo before/after; related repo tests with the change; quick tier of the listed checks with VF_REPO pointing at the patched copy)" % (a.src, a.id, a.props)
    json.dump(meta, open(os.path.join(out, "meta.json"), "w"), indent=1)
    print(a.id, "confirmed=%s" % meta.get("confirmed"), "caught_by=%s" % meta.get("caught_by"), meta.get("existing_tests", {}).get("summary", ""))
    return 0


if __name__ == "__main__":
    sys.exit(main())
