#!/venv/bin/python
"""Re-run checks against a stored seeded change (after a check was strengthened).

  tools/seedrun.py C01-A --props C01[,C02] [--seeds 1,2,3] [--only sub] [--tier quick] [--record]

Applies /verif/seeded/<id>/patch.diff to a scratch copy of /repo's working tree (rsync, under /tmp, removed afterwards), runs the
listed checks against it (VF_REPO / PYTHONPATH) at each seed and prints which (check, seed) pairs report a violation.  With
--record the outcome is stored in meta.json under "rerun" (the first evaluation by tools/seedeval.py is never overwritten).
"""
import argparse
import json
import os
import shutil
import subprocess
import sys
import tempfile

ROOT = os.path.dirname(os.path.dirname(os.path.abspath(__file__)))
PY = "/venv/bin/python"


def in_repo(a):
    d = os.path.join(ROOT, "seeded", a.id)
    dirty = subprocess.run(["git", "-C", "/repo", "status", "--porcelain"], capture_output=True, text=True).stdout.strip()
    if dirty:
        print("refusing: /repo has uncommitted changes")
        return 2
    out = {}
    patch = os.path.join(d, "patch.diff")
    if subprocess.call(["git", "-C", "/repo", "apply", patch]) != 0:
        # the patch was written against an earlier HEAD (later fix: commits moved the context): apply with fuzz instead
        subprocess.check_call(["patch", "-p1", "-s", "--no-backup-if-mismatch", "-d", "/repo", "-i", patch])
    try:
        for prop in a.props.split(","):
            for seed in a.seeds.split(","):
                env = dict(os.environ, VERIF_SEED=seed)
                env.pop("VF_REPO", None)
                cmd = [PY, "-m", "vf.run", prop, "--tier", a.tier, "--no-evidence"] + (["--only", a.only] if a.only else [])
                rc = subprocess.run(cmd, env=env, cwd=ROOT, capture_output=True, text=True, timeout=14400)
                sig = [l.strip()[:160] for l in rc.stdout.splitlines() if l.startswith("  failing sub-check")][:1]
                out["%s@%s" % (prop, seed)] = {"exit": rc.returncode, "caught": rc.returncode == 1, "first": sig}
                print(a.id, "[in /repo]", prop, "seed", seed, "exit", rc.returncode, sig)
    finally:
        subprocess.check_call(["git", "-C", "/repo", "checkout", "--", "."])
    if a.record:
        mp = os.path.join(d, "meta.json")
        meta = json.load(open(mp))
        meta.setdefault("rerun_in_repo", {}).update(out)
        json.dump(meta, open(mp, "w"), indent=1)
    return 0


def main():
    ap = argparse.ArgumentParser()
    ap.add_argument("id")
    ap.add_argument("--props", required=True)
    ap.add_argument("--seeds", default="1,2,3")
    ap.add_argument("--only", default=None)
    ap.add_argument("--tier", default="quick")
    ap.add_argument("--record", action="store_true")
    ap.add_argument("--in-repo", action="store_true", help="literal procedure: git -C /repo apply <patch>, run, git -C /repo checkout -- . (only when nothing else uses /repo)")
    a = ap.parse_args()
    if a.in_repo:
        return in_repo(a)
    d = os.path.join(ROOT, "seeded", a.id)
    tmp = tempfile.mkdtemp(prefix="sfseed-", dir="/tmp")
    out = {}
    try:
        subprocess.check_call(["rsync", "-a", "--exclude", ".git", "--exclude", "__pycache__", "/repo/", tmp + "/"])
        subprocess.check_call(["patch", "-p1", "-s", "--no-backup-if-mismatch", "-d", tmp, "-i", os.path.join(d, "patch.diff")])
        for prop in a.props.split(","):
            for seed in a.seeds.split(","):
                env = dict(os.environ, VF_REPO=tmp, PYTHONPATH=tmp + os.pathsep + ROOT, VERIF_SEED=seed)
                cmd = [PY, "-m", "vf.run", prop, "--tier", a.tier, "--no-evidence"] + (["--only", a.only] if a.only else [])
                rc = subprocess.run(cmd, env=env, cwd=ROOT, capture_output=True, text=True, timeout=14400)
                sig = [l.strip()[:160] for l in rc.stdout.splitlines() if l.startswith("  failing sub-check") or l.startswith("  signature=")][:2]
                out["%s@%s" % (prop, seed)] = {"exit": rc.returncode, "caught": rc.returncode == 1, "first": sig}
                print(a.id, prop, "seed", seed, "exit", rc.returncode, sig[:1])
    finally:
        shutil.rmtree(tmp, ignore_errors=True)
    if a.record:
        mp = os.path.join(d, "meta.json")
        meta = json.load(open(mp))
        meta.setdefault("rerun", {}).update(out)
        meta["caught_by_after_strengthening"] = sorted({k.split("@")[0] for k, v in meta["rerun"].items() if v["caught"]})
        json.dump(meta, open(mp, "w"), indent=1)
    return 0


if __name__ == "__main__":
    sys.exit(main())
