#!/venv/bin/python
"""Regenerate the generated tables of DESIGN.md in place: 5.1 (fix: commits), 5.2 (open findings), 8.2 (seeded changes).
The tables sit between `<!-- BEGIN name -->` / `<!-- END name -->` markers."""
import json
import os
import re
import subprocess

ROOT = os.path.dirname(os.path.dirname(os.path.abspath(__file__)))


def between(text, name, body):
    a, b = "<!-- BEGIN %s -->" % name, "<!-- END %s -->" % name
    i, j = text.index(a) + len(a), text.index(b)
    return text[:i] + "\n" + body.rstrip("\n") + "\n" + text[j:]


def main():
    kf = json.load(open(os.path.join(ROOT, "known_findings.json")))["findings"]
    log = subprocess.check_output(["git", "-C", "/repo", "log", "--reverse", "--format=%h\t%s"], text=True).splitlines()
    fixes = [l.split("\t", 1) for l in log if l.split("\t", 1)[1].startswith("fix:")]
    rows = ["| commit | finding | seen by | repair |", "|---|---|---|---|"]
    for h, subj in fixes:
        ents = [f for f in kf if f.get("status") == "fixed" and (f.get("commit", "")[:7] == h[:7] or h[:7] in f.get("what", ""))]
        ids = sorted({f["id"] for f in ents}) or ["-"]
        props = sorted({f["property"] for f in ents}) or ["-"]
        rows.append("| %s | %s | %s | %s |" % (h, ", ".join(ids), ", ".join(props), subj[4:].strip().replace("|", "/")))
    t51 = "%d `fix:` commits, in commit order.\n\n" % len(fixes) + "\n".join(rows)
    rows = ["| id | property | signature | what stays wrong |", "|---|---|---|---|"]
    c14 = []
    for f in kf:
        if f.get("status") == "fixed":
            continue
        if f["property"] == "C14":
            c14.append("`%s`" % f["signature"])
            continue
        w = f["what"].replace("|", "/").replace("\n", " ")
        rows.append("| %s | %s | `%s` | %s |" % (f["id"], f["property"], f["signature"], w if len(w) < 340 else w[:337] + "..."))
    t52 = "\n".join(rows) + "\n\nC14 open signatures (%d): %s\n" % (len(c14), ", ".join(c14))
    t82 = open(os.path.join(ROOT, "seeded", "RESULTS.md")).read().split("\n\n", 2)[-1] if os.path.exists(os.path.join(ROOT, "seeded", "RESULTS.md")) else ""
    t82 = t82[t82.index("| id |"):] if "| id |" in t82 else t82
    p = os.path.join(ROOT, "DESIGN.md")
    text = open(p).read()
    text = between(text, "fixes", t51)
    text = between(text, "open", t52)
    text = between(text, "seeded", t82)
    open(p, "w").write(text)
    print("5.1: %d fixes; 5.2: %d open (+%d C14); 8.2: %d rows" % (len(fixes), len(rows) - 2, len(c14), t82.count("\n| C")))


if __name__ == "__main__":
    main()
