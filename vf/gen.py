"""Hypothesis strategies shared by the property modules (parameters, modes, programs, matrices)."""
from __future__ import annotations

import numpy as np
from hypothesis import strategies as st

from vf.spec import enc_matrix

PI = float(np.pi)
ANGLE_SPECIAL = [0.0, PI / 2, -PI / 2, PI, -PI, 2 * PI, PI / 4, 3 * PI / 2, 1e-9, -1e-9]

GATES = {"Dgate", "Xgate", "Zgate", "Sgate", "Pgate", "Vgate", "Kgate", "Rgate", "BSgate", "MZgate", "sMZgate",
         "S2gate", "CXgate", "CZgate", "CKgate", "Fouriergate"}
PREPS = {"Vacuum", "Coherent", "Squeezed", "DisplacedSqueezed", "Thermal", "Fock", "Catstate", "Ket", "DensityMatrix", "Gaussian"}
CHANNELS = {"LossChannel", "ThermalLossChannel", "MSgate", "PassiveChannel"}
TWO_MODE = {"BSgate", "MZgate", "sMZgate", "S2gate", "CXgate", "CZgate", "CKgate"}


def fl(lo, hi):
    """finite floats in [lo, hi]; magnitudes below 1e-12 are mapped to exactly 0 (the harness does not probe
    underflow/overflow of intermediate expressions such as ((1-T)/T)**(n/2); tiny values that matter, +-1e-9,
    are in the explicit special sets)"""
    base = st.floats(min_value=lo, max_value=hi, allow_nan=False, allow_infinity=False, allow_subnormal=False, width=64)
    if lo <= 0.0 <= hi:
        return base.map(lambda x: 0.0 if abs(x) < 1e-12 else x)
    return base


def angle():
    return st.one_of(st.sampled_from(ANGLE_SPECIAL), fl(-2 * PI, 2 * PI))


def real(lo, hi, special=(0.0,)):
    sp = [s for s in special if lo <= s <= hi]
    if not sp:
        return fl(lo, hi)
    return st.one_of(st.sampled_from(sp), fl(lo, hi), fl(lo, hi))


def op_params(name, energy="fock"):
    """strategy of the parameter list of operation `name`; energy 'fock' keeps states inside small cutoffs"""
    big = energy == "ps"
    rD = 1.5 if big else 0.5
    rS = 1.0 if big else 0.35
    r2 = 0.8 if big else 0.3
    sh = 1.0 if big else 0.4
    nb = 2.0 if big else 0.5
    t = {
        "Dgate": [real(0.0, rD), angle()],
        "Xgate": [real(-2 * rD, 2 * rD, (0.0, 1e-9))],
        "Zgate": [real(-2 * rD, 2 * rD, (0.0, 1e-9))],
        "Sgate": [real(-rS, rS, (0.0, 1e-9)), angle()],
        "Pgate": [real(-sh, sh, (0.0, 1e-9, -1e-9))],
        "Rgate": [angle()],
        "Fouriergate": [],
        "BSgate": [angle(), angle()],
        "MZgate": [angle(), angle()],
        "sMZgate": [angle(), angle()],
        "S2gate": [real(-r2, r2, (0.0, 1e-9)), angle()],
        "CXgate": [real(-sh, sh, (0.0, 1e-9))],
        "CZgate": [real(-sh, sh, (0.0, 1e-9))],
        "Kgate": [angle()],
        "CKgate": [angle()],
        "Vgate": [real(-0.05, 0.05, (0.0,))],
        "LossChannel": [st.one_of(st.sampled_from([0.0, 1.0, 0.5]), fl(1e-4, 1.0))],
        "ThermalLossChannel": [st.one_of(st.sampled_from([0.0, 1.0, 0.5]), fl(1e-4, 1.0)), real(0.0, nb, (0.0,))],
        "Vacuum": [],
        "Coherent": [real(0.0, rD), angle()],
        "Squeezed": [real(-rS, rS, (0.0,)), angle()],
        "DisplacedSqueezed": [real(0.0, rD), angle(), real(-rS, rS, (0.0,)), angle()],
        "Thermal": [real(0.0, nb, (0.0,))],
        "Fock": [st.integers(0, 3)],
        "Catstate": [real(0.0, 0.8 if not big else 1.2), angle()],
    }
    return st.tuples(*t[name]).map(list)


def n_modes_of(name):
    return 2 if name in TWO_MODE else 1


@st.composite
def op_spec(draw, n, alphabet, energy="fock", dagger=True, no_mz_dagger=False):
    """one [name, params, modes, flags] over a register of n modes"""
    names = [a for a in alphabet if n_modes_of(a) <= n]
    name = draw(st.sampled_from(names))
    k = n_modes_of(name)
    modes = list(draw(st.permutations(list(range(n))))[:k])
    params = draw(op_params(name, energy))
    flags = {}
    if dagger and name in GATES and draw(st.integers(0, 3)) == 0:
        if not (no_mz_dagger and name == "MZgate"):
            flags["H"] = True
    if no_mz_dagger and name == "MZgate" and params[0] == 0:
        params[0] = 1e-9
    return [name, params, modes, flags]


@st.composite
def op_list(draw, n, alphabet, energy="fock", min_len=1, max_len=8, dagger=True, no_mz_dagger=False):
    L = draw(st.integers(min_len, max_len))
    return [draw(op_spec(n, alphabet, energy, dagger, no_mz_dagger)) for _ in range(L)]


# ----------------------------------------------------------------------------------------------
# classification helpers
# ----------------------------------------------------------------------------------------------
def labels_of(ops_):
    labs = set()
    for spec in ops_:
        name, params, modes = spec[0], spec[1], spec[2]
        flags = spec[3] if len(spec) > 3 else {}
        labs.add("op:" + name)
        if len(modes) == 2:
            if modes[0] > modes[1]:
                labs.add("descending_pair")
            if modes[1] == 0:
                labs.add("second_target_mode0")
            if abs(modes[0] - modes[1]) > 1:
                labs.add("non_adjacent")
        if flags.get("H"):
            labs.add("dagger")
        for p in params:
            if isinstance(p, (int, float)) and not isinstance(p, bool):
                if p == 0:
                    labs.add("param_zero")
                elif abs(p / (PI / 2) - round(p / (PI / 2))) < 1e-12:
                    labs.add("param_pi_multiple")
                if p < 0:
                    labs.add("param_negative")
        if name == "ThermalLossChannel" and modes[0] != 0:
            labs.add("thermal_loss_not_mode0")
    return sorted(labs)


def has_two_mode(ops_):
    return any(len(s[2]) >= 2 for s in ops_)


# ----------------------------------------------------------------------------------------------
# matrices (drawn from Hypothesis floats so that shrinking and replay work)
# ----------------------------------------------------------------------------------------------
@st.composite
def ginibre(draw, n, complex_=True):
    vals = draw(st.lists(fl(-1.0, 1.0), min_size=(2 if complex_ else 1) * n * n, max_size=(2 if complex_ else 1) * n * n))
    a = np.array(vals[: n * n]).reshape(n, n)
    if complex_:
        a = a + 1j * np.array(vals[n * n:]).reshape(n, n)
    return a


def _qr_unitary(a):
    n = a.shape[0]
    if np.linalg.matrix_rank(a) < n:
        a = a + np.eye(n)
    q, r = np.linalg.qr(a)
    d = np.diag(r)
    ph = np.where(np.abs(d) > 0, d / np.where(np.abs(d) > 0, np.abs(d), 1), 1)
    return q * ph


@st.composite
def unitary(draw, n, kinds=None):
    """structured unitaries: haar-like, identity, diagonal phases, permutation, perm*diag, real orthogonal,
    block (U(k)+I), single two-mode mixing, haar with a zeroed rotation (exact zeros)"""
    kinds = kinds or ["haar", "haar", "identity", "diag", "perm", "permdiag", "orth", "block", "single_bs", "bs_product"]
    kind = draw(st.sampled_from(kinds))
    if n == 1 and kind in ("perm", "permdiag", "block", "single_bs", "bs_product", "orth"):
        kind = "diag"
    if kind == "haar":
        U = _qr_unitary(draw(ginibre(n)))
    elif kind == "identity":
        U = np.eye(n, dtype=complex)
    elif kind == "diag":
        U = np.diag(np.exp(1j * np.array(draw(st.lists(angle(), min_size=n, max_size=n))))).astype(complex)
    elif kind == "perm":
        U = np.eye(n)[list(draw(st.permutations(list(range(n)))))].astype(complex)
    elif kind == "permdiag":
        U = np.eye(n)[list(draw(st.permutations(list(range(n)))))].astype(complex) @ np.diag(
            np.exp(1j * np.array(draw(st.lists(angle(), min_size=n, max_size=n)))))
    elif kind == "orth":
        U = _qr_unitary(draw(ginibre(n, complex_=False))).astype(complex)
    elif kind == "block":
        k = draw(st.integers(1, n - 1))
        off = draw(st.integers(0, n - k))
        U = np.eye(n, dtype=complex)
        U[off:off + k, off:off + k] = _qr_unitary(draw(ginibre(k)))
    elif kind == "single_bs":
        i, j = draw(st.permutations(list(range(n))))[:2]
        th, ph = draw(angle()), draw(angle())
        U = np.eye(n, dtype=complex)
        U[i, i] = np.cos(th)
        U[j, j] = np.cos(th)
        U[i, j] = -np.exp(-1j * ph) * np.sin(th)
        U[j, i] = np.exp(1j * ph) * np.sin(th)
    else:  # bs_product: few beamsplitters -> many exact zeros
        U = np.eye(n, dtype=complex)
        for _ in range(draw(st.integers(1, 3))):
            i, j = draw(st.permutations(list(range(n))))[:2]
            th, ph = draw(angle()), draw(angle())
            B = np.eye(n, dtype=complex)
            B[i, i] = np.cos(th)
            B[j, j] = np.cos(th)
            B[i, j] = -np.exp(-1j * ph) * np.sin(th)
            B[j, i] = np.exp(1j * ph) * np.sin(th)
            U = B @ U
    return kind, U


def orth_symplectic(U):
    return np.block([[U.real, -U.imag], [U.imag, U.real]])


@st.composite
def squeezing_list(draw, n, rmax=0.8):
    """squeezing values with explicitly drawn multiplicities, including several zeros"""
    vals = []
    while len(vals) < n:
        v = draw(st.one_of(st.just(0.0), fl(0.05, rmax), fl(-rmax, -0.05)))
        mult = draw(st.integers(1, 3))
        vals += [v] * mult
    vals = vals[:n]
    return list(draw(st.permutations(vals)))


@st.composite
def symplectic(draw, n, rmax=0.8, kinds=None):
    kinds = kinds or ["generic", "generic", "passive", "diag", "O1Z", "ZO2"]
    kind = draw(st.sampled_from(kinds))
    r = np.abs(np.array(draw(squeezing_list(n, rmax)))) if kind != "passive" else np.zeros(n)
    Z = np.diag(np.concatenate([np.exp(-r), np.exp(r)]))
    O1 = orth_symplectic(draw(unitary(n))[1])
    O2 = orth_symplectic(draw(unitary(n))[1])
    if kind in ("generic", "passive"):
        S = O1 @ Z @ O2
    elif kind == "diag":
        S = Z
    elif kind == "O1Z":
        S = O1 @ Z
    else:
        S = Z @ O2
    return kind, [float(x) for x in r], S


@st.composite
def thermal_list(draw, n, nmax=1.5):
    vals = []
    while len(vals) < n:
        v = draw(st.one_of(st.just(0.0), fl(0.05, nmax)))
        vals += [v] * draw(st.integers(1, 3))
    return list(draw(st.permutations(vals[:n])))


@st.composite
def covariance(draw, n, hbar=2.0, kinds=None):
    """valid covariance matrices V = S D S^T (hbar units): pure, thermal, mixed, diagonal, block-diagonal"""
    kinds = kinds or ["pure_generic", "mixed_generic", "thermal", "pure_diag", "pure_blockdiag", "vacuum", "mixed_diag"]
    kind = draw(st.sampled_from(kinds))
    nb = np.zeros(n)
    if kind in ("mixed_generic", "thermal", "mixed_diag"):
        nb = np.array(draw(thermal_list(n)))
    D = np.diag(np.concatenate([2 * nb + 1, 2 * nb + 1]))
    if kind in ("pure_generic", "mixed_generic"):
        S = draw(symplectic(n, 0.6, ["generic"]))[2]
    elif kind in ("thermal", "vacuum"):
        S = np.eye(2 * n)
    elif kind in ("pure_diag", "mixed_diag"):
        r = np.array(draw(squeezing_list(n, 0.6)))
        S = np.diag(np.concatenate([np.exp(-r), np.exp(r)]))
    else:  # pure_blockdiag: independently rotated single-mode squeezers
        r = np.array(draw(squeezing_list(n, 0.6)))
        th = np.array(draw(st.lists(angle(), min_size=n, max_size=n)))
        S = orth_symplectic(np.diag(np.exp(1j * th))) @ np.diag(np.concatenate([np.exp(-r), np.exp(r)]))
    V = S @ D @ S.T
    V = (V + V.T) / 2 * hbar / 2
    return kind, V


def mat_param(M):
    return enc_matrix(M)
