"""Regenerates /verif/MANIFEST.json from the property modules (python -m vf.manifest).

Each vf/props/cNN.py may define MANIFEST = {"text":..., "note":..., "technique":..., "design_ref":...}.
Properties without a module are listed under not_applicable with the reason given in PENDING.
"""
import importlib
import json
import os
import subprocess

ROOT = os.path.dirname(os.path.dirname(os.path.abspath(__file__)))
PY = "/venv/bin/python"

PENDING = {}
# modules vetted by the lead (quiet at 5 seeds on the repaired tree, sensitivity-tested); others stay pending
READY = {"C01", "C02", "C03", "C04", "C05", "C06", "C07", "C08", "C09", "C10", "C11", "C12", "C13", "C14", "C15", "C16", "C17", "C18", "C19", "C20"}

DEFAULT_NOTE = ("Trusted base: numpy/scipy/networkx/thewalrus/Hypothesis; the harness oracle of this property "
                "(vf/props module, with its start-up self-test); docstrings of strawberryfields.ops as the "
                "specification of each operation. Evidence = what the generated search covered, never absence.")


def main():
    props = [json.loads(l) for l in open(os.path.join(ROOT, "properties.jsonl"))]
    checks, na = [], []
    served = {"hypothesis": [], "enumeration": []}
    for p in props:
        pid = p["id"]
        try:
            if pid not in READY:
                raise ModuleNotFoundError(pid)
            mod = importlib.import_module("vf.props." + pid.lower())
        except ModuleNotFoundError:
            na.append({"property_id": pid, "reason": PENDING.get(pid, "check not built yet (planned in DESIGN.md section 3); nothing is claimed for this property at this commit")})
            continue
        m = getattr(mod, "MANIFEST", {})
        kinds = {s.kind for s in mod.SUBS}
        tech = m.get("technique") or "Hypothesis property-based differential/metamorphic testing against an independent oracle"
        served["hypothesis"].append(pid)
        if "enum" in kinds:
            served["enumeration"].append(pid)
        checks.append({
            "property_id": pid,
            "quick_cmd": "%s -m vf.run %s --tier quick" % (PY, pid),
            "thorough_cmd": "%s -m vf.run %s --tier thorough" % (PY, pid),
            "evidence_file": "/verif/evidence/%s.json" % pid,
            "replay_cmd_template": "%s -m vf.run %s --replay {path}" % (PY, pid),
            "engine": "hypothesis",
            "level_claimed": {
                "category": "exploration",
                "text": m.get("text", "generated-input search against an explicit oracle; see DESIGN.md"),
                "design_ref": m.get("design_ref", "DESIGN.md section 3, %s" % pid),
            },
            "level_note": m.get("note", DEFAULT_NOTE),
            "technique": tech,
        })
    hooks_commits = []
    man = {
        "version": 1,
        "setup_cmd": "/venv/bin/python -c 'import hypothesis' 2>/dev/null || /venv/bin/pip install --no-index --find-links /opt/veriftools/wheels hypothesis; mkdir -p /verif/evidence /verif/out",
        "hooks": {
            "guard": "SF_VERIF",
            "enable": "no hooks exist: checks import /repo/strawberryfields (editable install) as it is on disk; randomness is observed by patching numpy.random from the harness",
            "baseline_off_cmd": "cd /repo && /venv/bin/python -m pytest -ra -q -p no:cacheprovider --timeout=900 --continue-on-collection-errors",
            "source_commits": hooks_commits,
            "add_only": True,
        },
        "engines": [
            {"name": "hypothesis", "path": "/venv/lib/python3.12/site-packages/hypothesis", "serves_properties": served["hypothesis"],
             "kind_free_text": "Hypothesis 6.168 strategies / rule-based state machines driven by vf/core.py; seeded from VERIF_SEED; shrunk failures become JSON replay files"},
            {"name": "enumeration", "path": "/verif/vf/props", "serves_properties": served["enumeration"],
             "kind_free_text": "bounded exhaustive enumeration of finite sub-spaces (itertools), sharded over processes, same oracles"},
        ],
        "checks": checks,
        "notes": "All checks: python -m vf.run <ID> --tier quick|thorough [--replay FILE]. Known findings: /verif/known_findings.json. Design: /verif/DESIGN.md.",
        "not_applicable": na,
    }
    with open(os.path.join(ROOT, "MANIFEST.json"), "w") as f:
        json.dump(man, f, indent=1)
    # validate
    try:
        import jsonschema

        jsonschema.validate(man, json.load(open("/root/.vp/MANIFEST.schema.json")))
        print("MANIFEST.json valid: %d checks, %d not_applicable" % (len(checks), len(na)))
    except ImportError:
        r = subprocess.run(["python3-vt", "-c", "import json,jsonschema;jsonschema.validate(json.load(open('%s/MANIFEST.json')),json.load(open('/root/.vp/MANIFEST.schema.json')));print('valid')" % ROOT], capture_output=True, text=True)
        print("MANIFEST.json: %d checks, %d not_applicable; validation: %s %s" % (len(checks), len(na), r.stdout.strip(), r.stderr.strip()[-300:]))


if __name__ == "__main__":
    main()
