"""Verification harness for XanaduAI/strawberryfields (property-based testing / fuzzing).

Nothing in here is imported by /repo.  See /verif/DESIGN.md.
"""
