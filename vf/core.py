"""Shared machinery: contexts, sub-check drivers, violation / known-finding plumbing, evidence.

Vocabulary
----------
case        a JSON-able value produced by a Hypothesis strategy (or an enumeration); the unit that is
            checked, counted, sampled into the evidence, shrunk and written as replay file.
sub-check   one (strategy, oracle) pair of a property module (``Sub``).
signature   short string naming the *root cause class* of a failure, computed by the oracle from the
            failing case and observable.  ``known_findings.json`` lists signatures of open findings.
"""
from __future__ import annotations

import collections
import hashlib
import json
import os
import sys
import time
import traceback

ROOT = os.path.dirname(os.path.dirname(os.path.abspath(__file__)))
REPO = os.environ.get("VF_REPO", "/repo")
KNOWN_FILE = os.path.join(ROOT, "known_findings.json")


# ----------------------------------------------------------------------------------------------
# exceptions
# ----------------------------------------------------------------------------------------------
class Violation(Exception):
    """The property failed on a case (raised by oracles through ``Ctx.fail``)."""

    def __init__(self, sig, detail):
        super().__init__("%s: %s" % (sig, detail))
        self.sig = sig
        self.detail = detail


class Budget(BaseException):
    """Wall-clock budget of a task ran out (BaseException: passes through Hypothesis untouched)."""


class HarnessError(Exception):
    """Something is wrong with the harness itself (exit code 2)."""


# ----------------------------------------------------------------------------------------------
# helpers
# ----------------------------------------------------------------------------------------------
def jdump(x):
    return json.dumps(x, sort_keys=True, default=_jdefault)


def _jdefault(o):
    import numpy as np

    if isinstance(o, (np.integer,)):
        return int(o)
    if isinstance(o, (np.floating,)):
        return float(o)
    if isinstance(o, (np.complexfloating, complex)):
        return {"re": float(o.real), "im": float(o.imag)}
    if isinstance(o, np.ndarray):
        return o.tolist()
    if isinstance(o, (set, frozenset)):
        return sorted(o)
    if isinstance(o, tuple):
        return list(o)
    return repr(o)


def chash(case):
    return hashlib.sha1(jdump(case).encode()).hexdigest()[:14]


def shorten(x, limit=1800):
    """JSON-able, bounded-size rendering of a case for the evidence file."""
    s = jdump(x)
    if len(s) <= limit:
        return json.loads(s)
    return {"truncated_json": s[:limit] + "...", "sha1": chash(x)}


def crash_signature(exc):
    """(kind, where): innermost frame under /repo or under /verif, whichever is deeper."""
    tb = traceback.extract_tb(exc.__traceback__)
    where = None
    owner = None
    for fr in tb:
        fn = fr.filename
        if fn.startswith(REPO + "/strawberryfields"):
            owner, where = "repo", "%s:%s" % (os.path.relpath(fn, REPO + "/strawberryfields"), fr.name)
        elif fn.startswith(ROOT + "/vf"):
            owner, where = "vf", "%s:%s" % (os.path.relpath(fn, ROOT), fr.name)
    return owner, where


def load_known(prop):
    if not os.path.exists(KNOWN_FILE):
        return []
    with open(KNOWN_FILE) as f:
        data = json.load(f)
    return [e for e in data.get("findings", []) if e.get("property") == prop]


# ----------------------------------------------------------------------------------------------
# sub-check description
# ----------------------------------------------------------------------------------------------
class Sub:
    """One sub-check of a property.

    kind="hyp":   ``strategy(ctx)`` returns a Hypothesis strategy of cases, ``check(ctx, case)`` is
                  the oracle (calls ctx.note / ctx.fail).
    kind="enum":  ``enumerate(ctx)`` yields cases of a finite space (sharded by the driver).
    kind="machine": ``machine(ctx)`` returns a RuleBasedStateMachine class; its rules record the
                  history as JSON and ``check(ctx, case)`` replays such a JSON history.
    kind="custom": ``run(ctx)`` does everything itself.
    """

    def __init__(self, name, check=None, strategy=None, enumerate=None, machine=None, run=None,
                 kind=None, examples=None, shards=None, budget=None, rule="", steps=None,
                 exhaustive=False):
        self.name = name
        self.check = check
        self.strategy = strategy
        self.enumerate = enumerate
        self.machine = machine
        self.run = run
        self.kind = kind or ("hyp" if strategy else "enum" if enumerate else "machine" if machine else "custom")
        self.examples = examples or {"quick": 200, "thorough": 2000}
        self.shards = shards or {"quick": 1, "thorough": 16}
        self.budget = budget or {"quick": 150, "thorough": 1500}
        self.steps = steps or {"quick": 20, "thorough": 30}
        self.rule = rule
        self.exhaustive = exhaustive


# ----------------------------------------------------------------------------------------------
# per-task context
# ----------------------------------------------------------------------------------------------
class Ctx:
    def __init__(self, prop, tier, seed, sub_name="", shard=0, nshards=1, budget_s=None):
        self.prop = prop
        self.tier = tier
        self.seed = seed
        self.sub_name = sub_name
        self.shard = shard
        self.nshards = nshards
        self.t0 = time.time()
        self.deadline = None if budget_s is None else self.t0 + budget_s
        self.evals = 0
        self.nontrivial = set()
        self.labels = collections.Counter()
        self.samples = []
        self.excluded = collections.Counter()
        self.failures = []  # (sig, case, detail) in the order met; the last one is the smallest
        self.known = {e["signature"]: e for e in load_known(prop) if e.get("status") == "open"}
        self.budget_hit = False
        self.shrink_t0 = None
        self.info = {}
        self._cur = None

    # -- identity of randomness -------------------------------------------------------------
    def hseed(self):
        h = hashlib.sha1(("%s|%s|%s|%d" % (self.prop, self.sub_name, self.seed, self.shard)).encode())
        return int(h.hexdigest()[:12], 16)

    # -- bookkeeping ------------------------------------------------------------------------
    def begin_case(self, case):
        if self.deadline is not None and time.time() > self.deadline and not self.failures:
            self.budget_hit = True
            raise Budget()
        self.evals += 1
        self._cur = case

    def note(self, case=None, nontrivial=False, labels=()):
        case = self._cur if case is None else case
        for lab in labels:
            self.labels[lab] += 1
        if nontrivial:
            h = chash(case)
            if h not in self.nontrivial:
                self.nontrivial.add(h)
                k = len(self.nontrivial)
                if k <= 2 or (k in (10, 100, 1000) and len(self.samples) < 5):
                    self.samples.append(shorten(case))

    def label(self, *labs):
        for lab in labs:
            self.labels[lab] += 1

    def fail(self, sig, detail, case=None):
        """Report a failed oracle.  Returns normally iff the signature is an open known finding."""
        case = self._cur if case is None else case
        if sig in self.known:
            self.excluded[sig] += 1
            return
        self.failures.append((sig, case, detail))
        raise Violation(sig, detail)

    def crash(self, exc, what="", case=None):
        """An unexpected exception escaped from repo code: report it as a violation."""
        owner, where = crash_signature(exc)
        sig = "crash.%s.%s@%s" % (what or "call", type(exc).__name__, where)
        self.fail(sig, "%s: %s" % (type(exc).__name__, str(exc)[:300]), case)

    def result(self):
        return {
            "sub": self.sub_name,
            "shard": self.shard,
            "evals": self.evals,
            "nontrivial": sorted(self.nontrivial),
            "labels": dict(self.labels),
            "samples": self.samples,
            "excluded": dict(self.excluded),
            "failure": None if not self.failures else
            {"sig": self.failures[-1][0], "case": json.loads(jdump(self.failures[-1][1])),
             "detail": str(self.failures[-1][2])[:2000], "first_case": json.loads(jdump(self.failures[0][1]))},
            "budget_hit": self.budget_hit,
            "wall_s": time.time() - self.t0,
            "info": self.info,
            "error": None,
        }


# ----------------------------------------------------------------------------------------------
# drivers
# ----------------------------------------------------------------------------------------------
SHRINK_CAP_S = {"quick": 45, "thorough": 120}


def run_case(ctx, sub, case):
    """Run the oracle on one case; classify stray exceptions."""
    ctx.begin_case(case)
    if ctx.failures and ctx.shrink_t0 is not None and time.time() - ctx.shrink_t0 > SHRINK_CAP_S[ctx.tier]:
        return  # shrinking budget used up: let Hypothesis finish quickly (see drive_hyp)
    try:
        sub.check(ctx, case)
    except Violation:
        if ctx.shrink_t0 is None:
            ctx.shrink_t0 = time.time()
        raise
    except Budget:
        raise
    except Exception as exc:  # pylint: disable=broad-except
        owner, where = crash_signature(exc)
        if owner == "repo":
            try:
                ctx.crash(exc, "uncaught")
            except Violation:
                if ctx.shrink_t0 is None:
                    ctx.shrink_t0 = time.time()
                raise
            return
        raise HarnessError("harness exception in %s: %s\n%s" % (sub.name, exc, traceback.format_exc())) from exc


def drive_hyp(ctx, sub):
    import hypothesis
    from hypothesis import HealthCheck, Phase, given, settings

    n = int(sub.examples[ctx.tier])
    if n <= 0:
        return
    strat = sub.strategy(ctx)

    @hypothesis.seed(ctx.hseed())
    @settings(max_examples=n, database=None, deadline=None, report_multiple_bugs=False,
              suppress_health_check=list(HealthCheck), phases=[Phase.generate, Phase.shrink],
              derandomize=False, print_blob=False, verbosity=hypothesis.Verbosity.quiet)
    @given(strat)
    def test(case):
        run_case(ctx, sub, case)

    try:
        test()
    except Budget:
        pass
    except HarnessError:
        raise
    except BaseException:  # Violation, Flaky (shrink cap), ...  # pylint: disable=broad-except
        if not ctx.failures:
            raise


def drive_machine(ctx, sub):
    import hypothesis
    from hypothesis import HealthCheck, Phase, settings
    from hypothesis.stateful import run_state_machine_as_test

    n = int(sub.examples[ctx.tier])
    if n <= 0:
        return
    machine = sub.machine(ctx)
    sett = settings(max_examples=n, stateful_step_count=int(sub.steps[ctx.tier]), database=None, deadline=None,
                    report_multiple_bugs=False, suppress_health_check=list(HealthCheck),
                    phases=[Phase.generate, Phase.shrink], derandomize=False, print_blob=False,
                    verbosity=hypothesis.Verbosity.quiet)
    try:
        run_state_machine_as_test(hypothesis.seed(ctx.hseed())(machine), settings=sett)
    except Budget:
        pass
    except HarnessError:
        raise
    except BaseException:  # pylint: disable=broad-except
        if not ctx.failures:
            raise


def drive_enum(ctx, sub):
    """Enumerate a finite space; shard k takes every nshards-th case."""
    for i, case in enumerate(sub.enumerate(ctx)):
        if i % ctx.nshards != ctx.shard:
            continue
        try:
            run_case(ctx, sub, case)
        except Violation:
            return  # first failure of an enumeration is reported as is (cases are already minimal-ish)
        except Budget:
            ctx.info["enum_incomplete"] = True
            return


def run_task(prop, sub_name, tier, seed, shard, nshards):
    """Entry point of a worker process.  Returns a plain dict."""
    import importlib
    import warnings

    warnings.filterwarnings("ignore")
    mod = importlib.import_module("vf.props." + prop.lower())
    sub = next(s for s in mod.SUBS if s.name == sub_name)
    ctx = Ctx(prop, tier, seed, sub_name, shard, nshards, budget_s=sub.budget[tier])
    try:
        check_repo_import()
        if hasattr(mod, "selftest") and shard == 0:
            mod.selftest()
        if sub.kind == "hyp":
            drive_hyp(ctx, sub)
        elif sub.kind == "enum":
            drive_enum(ctx, sub)
        elif sub.kind == "machine":
            drive_machine(ctx, sub)
        else:
            try:
                sub.run(ctx)
            except (Violation, Budget):
                pass
        res = ctx.result()
    except BaseException as exc:  # pylint: disable=broad-except
        res = ctx.result()
        res["error"] = "%s: %s\n%s" % (type(exc).__name__, exc, traceback.format_exc()[-3000:])
    return res


def check_repo_import():
    import strawberryfields as sf

    path = os.path.realpath(sf.__file__)
    if not path.startswith(os.path.realpath(REPO) + os.sep):
        raise HarnessError("strawberryfields imported from %s, not from %s" % (path, REPO))
