"""CLI:  python -m vf.run <ID> --tier quick|thorough [--replay FILE] [--only SUB] [--workers N]

exit 0  property held on everything explored (KNOWN-FINDING lines may have been printed)
exit 1  after printing  VIOLATION property=<id> replay=<path>
exit 2  harness error
"""
from __future__ import annotations

import argparse
import collections
import concurrent.futures as cf
import glob
import importlib
import json
import multiprocessing
import os
import sys
import time
import warnings

ROOT = os.path.dirname(os.path.dirname(os.path.abspath(__file__)))


def _reexec_if_needed():
    want = {"PYTHONHASHSEED": "0", "PYTHONDONTWRITEBYTECODE": "1", "OMP_NUM_THREADS": "1",
            "OPENBLAS_NUM_THREADS": "1", "MKL_NUM_THREADS": "1", "NUMBA_NUM_THREADS": "1",
            "TF_CPP_MIN_LOG_LEVEL": "3"}
    if any(os.environ.get(k) != v for k, v in want.items()):
        env = dict(os.environ)
        env.update(want)
        env["PYTHONPATH"] = ROOT + os.pathsep + env.get("PYTHONPATH", "")
        os.execve(sys.executable, [sys.executable, "-m", "vf.run"] + sys.argv[1:], env)


def main(argv=None):
    _reexec_if_needed()
    warnings.filterwarnings("ignore")
    from vf import core

    ap = argparse.ArgumentParser()
    ap.add_argument("prop")
    ap.add_argument("--tier", default=os.environ.get("VERIF_TIER", "quick"), choices=["quick", "thorough"])
    ap.add_argument("--replay", default=None)
    ap.add_argument("--only", default=None, help="comma separated sub-check names")
    ap.add_argument("--workers", type=int, default=None)
    ap.add_argument("--no-evidence", action="store_true")
    args = ap.parse_args(argv)

    prop = args.prop.upper()
    tier = args.tier
    try:
        seed = int(os.environ.get("VERIF_SEED", "1"))
    except ValueError:
        seed = 1
    t0 = time.time()
    try:
        core.check_repo_import()
        mod = importlib.import_module("vf.props." + prop.lower())
    except Exception as exc:  # pylint: disable=broad-except
        print("HARNESS-ERROR property=%s cannot import: %r" % (prop, exc))
        import traceback

        traceback.print_exc()
        return 2
    subs = {s.name: s for s in mod.SUBS}
    known_all = core.load_known(prop)
    known_open = {e["signature"]: e for e in known_all if e.get("status") == "open"}
    printed_known = set()
    harness_errors = []
    violations = []  # (sig, case, detail, sub)
    outdir = os.path.join(ROOT, "out", prop)

    def report_known(sig, extra=""):
        if sig not in printed_known:
            printed_known.add(sig)
            e = known_open[sig]
            print("KNOWN-FINDING: property=%s %s [%s] %s%s" % (prop, e.get("id", ""), sig, e.get("what", ""), extra))

    def report_violation(sub_name, sig, case, detail):
        os.makedirs(outdir, exist_ok=True)
        path = os.path.join(outdir, "found-%s.json" % core.chash([sub_name, case]))
        with open(path, "w") as f:
            json.dump({"property": prop, "sub": sub_name, "signature": sig, "detail": str(detail)[:4000],
                       "case": json.loads(core.jdump(case)), "seed": seed, "tier": tier}, f, indent=1)
        violations.append((sig, case, detail, sub_name))
        print("  failing sub-check=%s signature=%s\n  detail: %s" % (sub_name, sig, str(detail)[:600]))
        print("VIOLATION property=%s replay=%s" % (prop, path))

    # ---------------------------------------------------------------- replay of one file
    def replay_file(path, quiet=False):
        """returns (status, sig, detail); status in pass/fail/known/error"""
        with open(path) as f:
            rec = json.load(f)
        sub = subs.get(rec.get("sub"))
        if sub is None or sub.check is None:
            return "error", None, "unknown sub-check %r in %s" % (rec.get("sub"), path)
        ctx = core.Ctx(prop, tier, seed, sub.name)
        ctx.known = {}  # replays never hide anything; classification happens here
        try:
            core.run_case(ctx, sub, rec["case"])
        except core.Violation as v:
            return "fail", v.sig, v.detail
        except Exception as exc:  # pylint: disable=broad-except
            import traceback

            return "error", None, "%r\n%s" % (exc, traceback.format_exc())
        return "pass", None, None

    if args.replay:
        if hasattr(mod, "selftest"):
            mod.selftest()
        status, sig, detail = replay_file(args.replay)
        if status == "error":
            print("HARNESS-ERROR %s" % detail)
            return 2
        if status == "pass":
            print("replay %s: property held" % args.replay)
            return 0
        if sig in known_open:
            report_known(sig)
            return 0
        print("  signature=%s\n  detail: %s" % (sig, str(detail)[:1500]))
        print("VIOLATION property=%s replay=%s" % (prop, args.replay))
        return 1

    # ---------------------------------------------------------------- self-test of oracles
    if hasattr(mod, "selftest"):
        try:
            mod.selftest()
        except Exception as exc:  # pylint: disable=broad-except
            import traceback

            traceback.print_exc()
            print("HARNESS-ERROR property=%s oracle self-test failed: %r" % (prop, exc))
            return 2

    # ---------------------------------------------------------------- replay tier
    replay_stats = collections.Counter()
    replay_dir = os.path.join(ROOT, "replays", prop)
    only = set(args.only.split(",")) if args.only else None
    for path in sorted(glob.glob(os.path.join(replay_dir, "*.json"))):
        with open(path) as f:
            rec = json.load(f)
        if only and rec.get("sub") not in only:
            continue
        status, sig, detail = replay_file(path)
        expect = rec.get("expect", "pass")  # "pass" | "known:<signature>"
        replay_stats[status] += 1
        rel = os.path.relpath(path, ROOT)
        if status == "error":
            harness_errors.append("replay %s: %s" % (rel, detail))
        elif status == "fail":
            if sig in known_open:
                report_known(sig, " (replay %s)" % rel)
            else:
                print("  replay %s fails: signature=%s\n  detail: %s" % (rel, sig, str(detail)[:600]))
                violations.append((sig, rec["case"], detail, rec.get("sub")))
                print("VIOLATION property=%s replay=%s" % (prop, path))
        else:
            if expect.startswith("known:") and expect[6:] in known_open:
                print("note: open finding %s no longer reproduces on %s" % (expect[6:], rel))

    # ---------------------------------------------------------------- generated search
    tasks = []
    for s in mod.SUBS:
        if only and s.name not in only:
            continue
        ns = int(s.shards[tier])
        for k in range(ns):
            tasks.append((prop, s.name, tier, seed, k, ns))
    workers = args.workers or (int(os.environ.get("VF_WORKERS_QUICK", "6")) if tier == "quick" else 16)
    workers = max(1, min(workers, len(tasks) or 1))
    results = []
    if tasks:
        if workers == 1:
            for t in tasks:
                results.append(core.run_task(*t))
        else:
            ctxmp = multiprocessing.get_context("spawn")
            with cf.ProcessPoolExecutor(max_workers=workers, mp_context=ctxmp) as ex:
                futs = [ex.submit(core.run_task, *t) for t in tasks]
                for fu, t in zip(futs, tasks):
                    try:
                        results.append(fu.result())
                    except Exception as exc:  # pylint: disable=broad-except
                        harness_errors.append("task %s shard %d died: %r" % (t[1], t[4], exc))

    # ---------------------------------------------------------------- merge
    evals = 0
    nontrivial = set()
    labels = collections.Counter()
    excluded = collections.Counter()
    samples = []
    per_sub = {}
    budget_hits = []
    seen_fail_sigs = set()
    for r in results:
        if r.get("error"):
            harness_errors.append("%s shard %s: %s" % (r["sub"], r["shard"], r["error"]))
        evals += r["evals"]
        nontrivial.update("%s:%s" % (r["sub"], h) for h in r["nontrivial"])
        labels.update(r["labels"])
        excluded.update(r["excluded"])
        ps = per_sub.setdefault(r["sub"], {"evaluations": 0, "distinct_nontrivial": set(), "wall_s": 0.0, "shards": 0,
                                           "budget_hit": 0, "rule": subs[r["sub"]].rule, "kind": subs[r["sub"]].kind})
        ps["evaluations"] += r["evals"]
        ps["distinct_nontrivial"].update(r["nontrivial"])
        ps["wall_s"] = max(ps["wall_s"], r["wall_s"])
        ps["shards"] += 1
        ps["budget_hit"] += int(bool(r["budget_hit"]))
        if r.get("info"):
            ps.setdefault("info", {}).update(r["info"])
        if r["budget_hit"]:
            budget_hits.append(r["sub"])
        for smp in r["samples"][:3]:
            if len([1 for x in samples if x["sub"] == r["sub"]]) < 2:
                samples.append({"sub": r["sub"], "case": smp})
        if r["failure"] and not r.get("error"):
            fl = r["failure"]
            key = (r["sub"], fl["sig"])
            if key not in seen_fail_sigs:
                seen_fail_sigs.add(key)
                report_violation(r["sub"], fl["sig"], fl["case"], fl["detail"])
    for sig, cnt in excluded.items():
        if sig in known_open:
            report_known(sig, " (met %d times in generated search, excluded)" % cnt)
    for ps in per_sub.values():
        ps["distinct_nontrivial"] = len(ps["distinct_nontrivial"])
        ps["wall_s"] = round(ps["wall_s"], 2)

    # required labels: refuse to say "held" if the generator did not reach the shape that matters
    missing = []
    if not only and not violations:
        for lab in getattr(mod, "REQUIRED_LABELS", {}).get(tier, getattr(mod, "REQUIRED_LABELS", {}).get("all", [])):
            if labels.get(lab, 0) == 0:
                missing.append(lab)
        if missing:
            harness_errors.append("required labels never generated: %s" % missing)

    wall = time.time() - t0
    exhaustive = bool(per_sub) and all(subs[n].exhaustive for n in per_sub) and not budget_hits
    coverage = {
        "evaluations": int(evals),
        "distinct_nontrivial": int(len(nontrivial)),
        "rule": getattr(mod, "RULE", ""),
        "samples": samples if samples else [{"note": "no non-trivial case generated"}],
        "labels": dict(sorted(labels.items())),
        "sub_checks": per_sub,
        "excluded_known_findings": dict(excluded),
        "known_findings_reported": sorted(printed_known),
        "replay_tier": dict(replay_stats),
        "exhaustive": exhaustive,
        "exhaustive_subspaces": sorted(n for n in per_sub if subs[n].exhaustive and not per_sub[n]["budget_hit"]),
        "inconclusive_budget": sorted(set(budget_hits)),
        "workers": workers,
    }
    ev = {
        "property_id": prop,
        "tier": tier,
        "seed": seed,
        "level": "exploration",
        "coverage": coverage,
        "assumptions": list(getattr(mod, "ASSUMPTIONS", [])),
        "wall_s": round(wall, 2),
        "violations": len(violations),
    }
    if not args.no_evidence and not only:
        os.makedirs(os.path.join(ROOT, "evidence"), exist_ok=True)
        with open(os.path.join(ROOT, "evidence", prop + ".json"), "w") as f:
            json.dump(ev, f, indent=1, sort_keys=True)

    print("%s %s seed=%d: %d cases, %d distinct non-trivial, %d sub-checks, replay tier %s, %.1fs%s" % (
        prop, tier, seed, evals, len(nontrivial), len(per_sub), dict(replay_stats), wall,
        (" [budget exhausted in: %s]" % ",".join(sorted(set(budget_hits)))) if budget_hits else ""))
    for n, ps in per_sub.items():
        print("   %-34s cases=%-7d nontrivial=%-7d wall=%.1fs" % (n, ps["evaluations"], ps["distinct_nontrivial"], ps["wall_s"]))
    if violations:
        return 1
    if harness_errors:
        for h in harness_errors:
            print("HARNESS-ERROR property=%s %s" % (prop, h))
        return 2
    return 0


if __name__ == "__main__":
    sys.exit(main())
