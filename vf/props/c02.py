"""C02 - decomposed operations implement exactly the documented transformation.

For one decomposable operation the *documented* map (refsim, from the docstring definition) is compared with
refsim run on the command list produced by ``Program.compile(compiler=...)``.  Both are affine maps
(X, Y, d) on phase space, so equality is checked for all input states at once.
"""
from __future__ import annotations

import numpy as np
from hypothesis import strategies as st

from vf import gen, refsim, sfrun, spec
from vf.core import Sub

RULE = ("one decomposable operation (scalar gates with .H, Interferometer under all 7 meshes, GaussianTransform, Gaussian(V, r), "
        "GraphEmbed, BipartiteGraphEmbed) on an ordered target tuple inside a register with spectators, compiled for "
        "fock/gaussian/bosonic or decomposed directly with op.decompose(reg) (the only way to reach DisplacedSqueezed._decompose), "
        "optionally the same operation object applied twice and compiled twice; unitaries of size 1..7 incl. ones known to 9 "
        "decimals only; symplectics with squeezing 1e-4 .. 2; graph matrices of size 1..4 incl. complex non-symmetric edge "
        "matrices, exactly degenerate complex / real symmetric matrices, integer adjacency matrices, drop_identity=False; "
        "non-trivial = the compiled sequence differs from the source and the documented map is not the identity; "
        "distinct = distinct JSON")
ASSUMPTIONS = [
    "documented maps are those of the ops.py docstrings as encoded in vf/refsim.py (self-tested); sMZgate has no documented "
    "matrix and is only checked where a second implementation exists (C11)",
    "map comparison tolerance 1e-8 absolute on X, Y, d (hbar units), 1e-7 for matrix decompositions of size > 4",
    "GraphEmbed oracle: thewalrus.quantum.Amat of the prepared covariance is proportional (positive factor) to conj(A) and "
    "the total mean photon number equals n * mean_photon_per_mode",
    "GaussianTransform(vacuum=True) is only compared on vacuum input (documented)",
    "a unitary rounded to 9 decimals (|U U^dag - 1| ~ 1e-9 < tol = 1e-6) is a valid Interferometer argument; the documented map is "
    "the rounded matrix itself, the decomposition must match it to the same 1e-7 (observed <= 1.4e-9); not generated for "
    "mesh='sun_compact', which refuses such matrices (audit finding, out/audit/C02-sun-compact-rejects-unitary-accurate-to-1e-9.json)",
    "exactly degenerate complex symmetric graph matrices for which numpy's SVD shows one of the two takagi instabilities "
    "(13-decimal rounding boundary inside the degenerate cluster; overlap matrix with a double eigenvalue -1) are skipped "
    "(< 1.5 % of that class; audit findings out/audit/C02-takagi-*.json); edge matrices are exactly symmetric or asymmetric by >= 1e-3",
    "thewalrus.quantum.adj_scaling is trusted (used to recompute the matrix that the embedding hands to takagi)",
]
REQUIRED_LABELS = {"all": ["dagger", "targets_not_sorted", "mesh:rectangular", "mesh:triangular", "mesh:rectangular_symmetric",
                           "matrix:perm", "matrix:identity", "matrix:perm_realdtype", "op:CXgate", "op:Pgate", "op:GaussianTransform", "op:Gaussian", "op:GraphEmbed",
                           "direct_decompose", "same_object_twice", "mesh:sun_compact", "size>=6", "unitary_to_9_decimals",
                           "embed_target:fock", "drop_identity_false"]}

# Hypothesis draws the two ends of a sampled_from list far more often than the middle: the composite two-mode gates sit there
SCALAR = ["CXgate", "Xgate", "Zgate", "Pgate", "Fouriergate", "DisplacedSqueezed", "MZgate", "S2gate", "CZgate"]
TARGETS = ["gaussian", "fock", "bosonic"]
MESHES = ["rectangular", "rectangular_phase_end", "rectangular_symmetric", "triangular", "rectangular_compact",
          "triangular_compact", "sun_compact"]


def selftest():
    refsim.selftest()


def compile_specs(n, oplist, target, hbar):
    """compile a fresh program for `target`; returns (specs of compiled circuit, compiled program)"""
    with sfrun.HbarCtx(hbar):
        prog = spec.build_program(n, oplist)
        comp = prog.compile(compiler=target)
        return spec.circuit_to_specs(comp.circuit), comp


def map_diff(a, b):
    return max(float(np.max(np.abs(a.X - b.X))), float(np.max(np.abs(a.Y - b.Y))), float(np.max(np.abs(a.d - b.d))))


# ---------------------------------------------------------------------------------------------
# scalar operations
# ---------------------------------------------------------------------------------------------
@st.composite
def scalar_case(draw):
    n = draw(st.integers(1, 4))
    hbar = draw(st.sampled_from([2.0, 2.0, 1.0, 0.5, 3.3]))
    op = draw(gen.op_spec(n, SCALAR, "ps"))
    target = draw(st.sampled_from(TARGETS))
    # direct: one level of op.decompose(reg) instead of Program.compile.  DisplacedSqueezed is a primitive of all three
    # compilers, so its _decompose is only reachable this way (compiling it compares the oracle with itself)
    direct = op[0] == "DisplacedSqueezed" or draw(st.integers(0, 4)) == 0
    # again: the SAME operation object is applied a second time, to another ordered choice of targets
    again = None
    if draw(st.integers(0, 3)) == 0:
        again = list(draw(st.permutations(list(range(n))))[:len(op[2])])
    return {"n": n, "hbar": hbar, "op": op, "target": target, "direct": direct, "again": again}


def check_scalar(ctx, case):
    import strawberryfields as sf
    from strawberryfields import ops
    from strawberryfields.program_utils import CircuitError

    n, hbar, op, target = case["n"], case["hbar"], case["op"], case["target"]
    direct, again = bool(case.get("direct")), case.get("again")
    applied = [op] + ([[op[0], op[1], again, op[3]]] if again else [])
    doc = spec.ref_run(n, applied, hbar)
    runs = []
    try:
        with sfrun.HbarCtx(hbar):
            prog = sf.Program(n)
            obj = spec.make_op(ops, op[0], op[1], op[3])
            with prog.context as q:
                for _, _, modes, _ in applied:
                    obj | tuple(q[m] for m in modes)
            if direct:
                cmds = []
                for cmd in prog.circuit:
                    cmds += cmd.op.decompose(cmd.reg)
                runs.append(spec.circuit_to_specs(cmds))
            else:
                runs.append(spec.circuit_to_specs(prog.compile(compiler=target).circuit))
                if again:  # compiling a second time must not be affected by the first compilation
                    runs.append(spec.circuit_to_specs(prog.compile(compiler=target).circuit))
    except CircuitError:
        ctx.note(case, False, ["rejected:" + target])
        return None
    except Exception as exc:  # pylint: disable=broad-except
        return ctx.crash(exc, "compile." + op[0])
    specs = runs[0]
    changed = [s[0] for s in specs] != [op[0]] * len(applied)
    labels = ["op:" + op[0], "target:" + target] + gen.labels_of([op])
    if len(op[2]) == 2 and op[2][0] > op[2][1]:
        labels.append("targets_not_sorted")
    if direct:
        labels += ["direct_decompose", "direct:" + op[0]]
    if again:
        labels.append("same_object_twice")
    ident = map_diff(doc, refsim.Ref(n, hbar)) < 1e-12
    ctx.note(case, nontrivial=changed and not ident, labels=labels + (["decomposed"] if changed else ["native"]))
    for k, sp in enumerate(runs):
        try:
            got = spec.ref_run(n, sp, hbar)
        except refsim.RefError as exc:
            return ctx.fail("compiled_unknown_op.%s" % op[0], str(exc))
        d = map_diff(doc, got)
        if d > 1e-8 * hbar:
            how = "decompose()" if direct else "compiled for %s%s" % (target, " (second compilation)" if k else "")
            return ctx.fail("decomposition_wrong.%s%s" % (op[0], ".H" if op[3].get("H") else ""), "%s: %s differs from the documented map by %.3g" % (how, [s[0] for s in sp], d))
    return None


# ---------------------------------------------------------------------------------------------
# symbolic sweep of scalar decompositions over a dense parameter grid
# ---------------------------------------------------------------------------------------------
SWEEP_OPS = ["Pgate", "CXgate", "CZgate", "Xgate", "Zgate", "S2gate"]


def sweep_cases(ctx):
    for name in SWEEP_OPS:
        for dag in (False, True):
            for order in ((0, 1), (1, 0)):
                if name in ("Pgate", "Xgate", "Zgate") and order == (1, 0):
                    continue
                yield {"op": name, "H": dag, "order": list(order), "npts": 401 if ctx.tier == "quick" else 2001}


def check_sweep(ctx, case):
    import sympy
    import strawberryfields as sf
    from strawberryfields import ops
    from strawberryfields.parameters import par_evaluate

    name, dag, order = case["op"], case["H"], case["order"]
    x = sympy.Symbol("x_sweep", real=True)
    prog = sf.Program(2)
    cls = getattr(ops, name)
    two = cls.ns == 2
    second = 0.37
    op = cls(x, second) if name == "S2gate" else cls(x)
    if dag:
        op = op.H
    regs = [prog.register[m] for m in (order if two else order[:1])]
    cmds = op.decompose(regs)
    # collect symbolic parameters of the products
    prods = []
    exprs = []
    for c in cmds:
        ps = []
        for p in c.op.p:
            if isinstance(p, sympy.Expr) and p.free_symbols:
                exprs.append(p)
                ps.append(("e", len(exprs) - 1))
            else:
                ps.append(("v", float(par_evaluate(p))))
        prods.append((c.op.__class__.__name__, ps, [r.ind for r in c.reg], bool(getattr(c.op, "dagger", False))))
    f = sympy.lambdify(x, exprs, modules=["numpy", {"sign": np.sign}]) if exprs else None
    grid = np.concatenate([np.linspace(-8, 8, case["npts"]), [0.0, 1e-9, -1e-9, np.pi, -np.pi, 2 * np.pi, 1e-6, -1e-6]])
    worst = 0.0
    worst_x = None
    for xv in grid:
        vals = [float(v) for v in f(xv)] if f else []
        got = refsim.Ref(2, 2.0)
        for nm, ps, modes, dg in prods:
            got.apply(nm, [vals[k] if t == "e" else k for t, k in ps], modes, dg)
        doc = refsim.Ref(2, 2.0)
        doc.apply(name, [xv, second] if name == "S2gate" else [xv], order if two else order[:1], dag)
        d = map_diff(doc, got)
        if d > worst:
            worst, worst_x = d, float(xv)
    ctx.note(case, nontrivial=True, labels=["sweep:" + name, "dagger" if dag else "plain"])
    ctx.info["sweep_points"] = ctx.info.get("sweep_points", 0) + len(grid)
    if worst > 1e-8 * (1 + 64):
        return ctx.fail("decomposition_wrong.sweep.%s" % name, "symbolic decomposition of %s%s differs from the documented map by %.3g at x=%r" % (name, ".H" if dag else "", worst, worst_x))
    return None


# ---------------------------------------------------------------------------------------------
# Interferometer
# ---------------------------------------------------------------------------------------------
@st.composite
def interf_case(draw):
    # sun_compact needs k >= 3 and recurses once per extra mode: it gets two shares of the meshes and its own sizes
    mesh = (MESHES + ["sun_compact"])[draw(st.integers(0, len(MESHES)))]
    if mesh == "sun_compact":
        k = draw(st.sampled_from([5, 3, 4, 6, 7, 2, 4]))
    else:
        k = draw(st.integers(1, 5))
        if draw(st.integers(0, 6)) == 3:
            k = draw(st.sampled_from([6, 7]))
    extra = draw(st.integers(0, 2))
    n = k + extra
    modes = list(draw(st.permutations(list(range(n))))[:k])
    kind, U = draw(gen.unitary(k))
    if kind in ("identity", "perm", "orth") and draw(st.booleans()):
        U = U.real.copy()  # real dtype input (orthogonal matrices are valid unitaries)
        if draw(st.booleans()):
            U = U * np.array(draw(st.lists(st.sampled_from([1.0, -1.0]), min_size=k, max_size=k)))
        kind = kind + "_realdtype"
    if kind in ("perm", "permdiag", "block", "single_bs", "bs_product", "diag") and k >= 2 and draw(st.integers(0, 3)) == 0:
        # the same sparse unitary as the product of two dense ones (merged interferometers, U2 @ U1): its zeros are rounding noise
        # (1e-17) instead of exact zeros, so nullT / nullZ return a negligible angle together with an arbitrary phase (seeded change C02-F)
        W = draw(gen.unitary(k, ["haar"]))[1]
        U = W @ (W.conj().T @ U)
        kind = kind + "_noisy_zeros"
    rounded = False
    # a unitary known to 9 decimals only (read from a text file, say): |U U^dag - 1| ~ 1e-9, far inside the documented
    # acceptance tolerance tol = 1e-6 of Interferometer but outside the defaults (1e-11, 1e-12) of decompositions.py
    # AUDIT-FINDING sun-compact-rejects-unitary-accurate-to-1e-9: mesh='sun_compact' refuses these (fixed 1e-10 in _su2_parameters)
    if mesh != "sun_compact" and kind in ("haar", "orth", "block", "bs_product", "permdiag", "orth_realdtype") and draw(st.integers(0, 3)) == 0:
        U = np.round(U, 9)
        rounded = True
    return {"n": n, "modes": modes, "U": spec.enc_matrix(U), "kind": kind, "mesh": mesh, "rounded": rounded,
            "drop_identity": draw(st.booleans()), "target": draw(st.sampled_from(["gaussian", "fock"]))}


def _vanishing_tail(U):
    """F15 trigger: some staircase step of sun_compact meets a column whose tail vanishes"""
    U = np.asarray(U)
    n = len(U)
    return any(np.sum(np.abs(U[i + 1:, 0]) ** 2) < 1e-12 or abs(1 - np.sum(np.abs(U[:i, 0]) ** 2)) < 1e-12 for i in range(1, n))


def _n8_trigger(U):
    """C17 finding N8: Interferometer calls sun_compact with rtol = atol = 1e-6 (its unitarity tolerance) and the routine reuses
    them for 'is this entry 0 / 1' special cases while the SU(2) factors are tested with a fixed 1e-10: unitaries with an
    element, or a phase (deviation of a unit-modulus element from +-1, +-i), of size 1e-11..1e-5 are affected."""
    a = np.abs(np.asarray(U)).ravel()
    small = np.any((a > 1e-11) & (a < 1e-5))
    # the phase of ANY sizeable element (not only of unit-modulus ones): after a staircase step the element becomes a
    # unit-modulus entry of the remaining block, e.g. the beamsplitter [[c, -s e^{-1e-9 i}], [s e^{1e-9 i}, c]] embedded in 5x5
    z = np.asarray(U).ravel()
    z = z[np.abs(z) >= 1e-5]
    ph = np.abs(np.angle(z ** 4)) / 4 if len(z) else np.array([])
    # sun_compact first divides out det(U)^(1/n): a single phase phi leaves phases ~ phi / n, which np.isclose(., 1, 1e-6, 1e-6)
    # takes for 1 up to phi ~ 2e-6 n (= the catalogued 1e-5 for n = 5; sizes 6 and 7 reach further)
    hi = max(1e-5, 2.5e-6 * len(np.asarray(U)))
    # ... and the same test on what the routine actually works with, U / det(U)^(1/n): a determinant phase of 1e-7 (a block unitary typed
    # in with 7 digits) turns the exact ones of the identity part into phases of 1e-7 / n (thorough-tier smoke run, replays/C02/N8-*)
    n = len(np.asarray(U))
    z2 = (np.asarray(U, complex) * np.exp(-1j * np.angle(np.linalg.det(np.asarray(U, complex))) / n)).ravel()
    z2 = z2[np.abs(z2) >= 1e-5]
    ph2 = np.abs(np.angle(z2 ** 4)) / 4 if len(z2) else np.array([])
    return bool(small or np.any((ph > 1e-11) & (ph < hi)) or np.any((ph2 > 1e-11) & (ph2 < hi)))


def check_interf(ctx, case):
    from strawberryfields import ops
    import strawberryfields as sf
    from strawberryfields.program_utils import CircuitError

    n, modes, mesh = case["n"], case["modes"], case["mesh"]
    U = spec.dec_param(case["U"])
    k = len(modes)
    labels = ["op:Interferometer", "mesh:" + mesh, "matrix:" + case["kind"], "target:" + case["target"]] + (["matrix:noisy_zeros"] if case["kind"].endswith("_noisy_zeros") else [])
    if modes != sorted(modes):
        labels.append("targets_not_sorted")
    if np.any(np.abs(U) == 0):
        labels.append("matrix_has_exact_zero")
    if case.get("rounded"):
        labels.append("unitary_to_9_decimals")
    if k >= 6:
        labels.append("size>=6")
    doc = refsim.Ref(n, 2.0)
    doc.Interferometer(U, modes)
    prog = sf.Program(n)
    try:
        with prog.context as q:
            ops.Interferometer(U, mesh=mesh, drop_identity=case["drop_identity"]) | tuple(q[m] for m in modes)
        comp = prog.compile(compiler=case["target"])
    except (CircuitError, NotImplementedError):
        ctx.note(case, False, ["rejected"])
        return None
    except ValueError as exc:
        msg = str(exc)
        if mesh == "sun_compact" and k < 3:
            ctx.note(case, False, ["sun_compact_small_rejected"])
            return None
        ctx.note(case, True, labels)
        if mesh == "sun_compact" and ("SU(2)" in msg or "determinant" in msg) and _n8_trigger(U):
            return ctx.fail("sun_compact.tolerance_reused_for_special_cases", "sun_compact raised %r on a valid %dx%d unitary of kind %s" % (msg[:80], k, k, case["kind"]))
        return ctx.fail("interferometer.rejects_valid_unitary.%s" % mesh, "ValueError %r on a valid unitary" % msg[:120])
    except Exception as exc:  # pylint: disable=broad-except
        ctx.note(case, True, labels)
        return ctx.crash(exc, "interferometer." + mesh)
    specs = spec.circuit_to_specs(comp.circuit)
    ident = np.allclose(U, np.eye(k), atol=1e-12)
    ctx.note(case, nontrivial=not ident and k >= 2, labels=labels)
    try:
        got = spec.ref_run(n, specs, 2.0)
    except refsim.RefError as exc:
        return ctx.fail("compiled_unknown_op.Interferometer", str(exc))
    d = map_diff(doc, got)
    if d > 1e-7:
        if mesh == "sun_compact" and d < 5e-6 and _n8_trigger(U):
            return ctx.fail("sun_compact.tolerance_reused_for_special_cases", "sun_compact reconstructs a unitary that is off by %.3g (unitarity tolerance 1e-6 reused for its special cases)" % d)
        return ctx.fail("interferometer.wrong_unitary.%s" % mesh, "mesh %s (%s, drop_identity=%s, %d gates) implements a unitary that differs from U by %.3g" % (mesh, case["kind"], case["drop_identity"], len(specs), d))
    return None


# ---------------------------------------------------------------------------------------------
# GaussianTransform
# ---------------------------------------------------------------------------------------------
# squeezing values the shared generator (0 or 0.05..0.7) never produces: weak squeezers that the "is this squeezer the
# identity" / "is S passive" thresholds (1e-13) must keep, and strong ones.  Weak values stay >= 1e-4 and differ by >= 9e-5
# so that they are outside the window of the open finding N3 (values closer than 1e-5)
GT_EXTREME_R = [1e-3, 1e-4, 1.5, 2.0, 0.0, 0.3]


@st.composite
def gt_case(draw):
    k = draw(st.integers(1, 4))
    n = k + draw(st.integers(0, 2))
    modes = list(draw(st.permutations(list(range(n))))[:k])
    if draw(st.integers(0, 3)) == 0:
        kind = "weak_or_strong"
        r = [draw(st.sampled_from(GT_EXTREME_R)) for _ in range(k)]
        if not any(r):
            r[0] = 1e-3
        Z = np.diag(np.concatenate([np.exp(-np.array(r)), np.exp(np.array(r))]))
        S = gen.orth_symplectic(draw(gen.unitary(k))[1]) @ Z @ gen.orth_symplectic(draw(gen.unitary(k))[1])
    else:
        kind, r, S = draw(gen.symplectic(k, 0.7))
    return {"n": n, "modes": modes, "S": spec.enc_matrix(S), "kind": kind, "r": r, "vacuum": draw(st.booleans()),
            "target": draw(st.sampled_from(["gaussian", "fock"]))}


def _f38_trigger(r):
    r = np.abs(np.asarray(r))
    return int(np.sum(r < 1e-9)) >= 2 and int(np.sum(r >= 1e-9)) >= 1


def _bm_near_degenerate(r):
    """C17 finding N3: two squeezing values (or one and 0) closer than 1e-5 but not equal"""
    r = np.sort(np.abs(np.asarray(list(r) + [0.0])))
    g = np.diff(r)
    return bool(np.any((g > 1e-13) & (g < 1e-5)))


def _bm_nonsymplectic(S, thr=1e-6):
    """does the repo's bloch_messiah return non-symplectic orthogonal factors for S (the F38 prediction)?"""
    from strawberryfields import decompositions as dec

    try:
        O1, _, O2 = dec.bloch_messiah(S)
    except Exception:  # pylint: disable=broad-except
        return False
    k = len(S) // 2
    Om = refsim.omega(k)
    return max(float(np.max(np.abs(O1 @ Om @ O1.T - Om))), float(np.max(np.abs(O2 @ Om @ O2.T - Om)))) > thr


def check_gt(ctx, case):
    from strawberryfields import ops
    import strawberryfields as sf
    from strawberryfields.program_utils import CircuitError

    n, modes = case["n"], case["modes"]
    S = spec.dec_param(case["S"])
    k = len(modes)
    labels = ["op:GaussianTransform", "symp:" + case["kind"], "vacuum" if case["vacuum"] else "general", "target:" + case["target"]]
    if modes != sorted(modes):
        labels.append("targets_not_sorted")
    rr = np.abs(np.asarray(case["r"]))
    if len(set(np.round(rr, 12))) < len(rr):
        labels.append("degenerate_spectrum")
    if np.any((rr > 0) & (rr < 0.01)):
        labels.append("weak_squeezer")
    if np.any(rr > 1.0):
        labels.append("strong_squeezer")
    prog = sf.Program(n)
    try:
        with prog.context as q:
            ops.GaussianTransform(S, vacuum=case["vacuum"]) | tuple(q[m] for m in modes)
        comp = prog.compile(compiler=case["target"])
    except CircuitError:
        ctx.note(case, False, ["rejected"])
        return None
    except ValueError as exc:
        ctx.note(case, True, labels)
        if "not unitary" in str(exc) and _f38_trigger(case["r"]) and _bm_nonsymplectic(S):
            return ctx.fail("F38.bloch_messiah_nonsymplectic", "GaussianTransform of a valid symplectic with squeezing %s cannot be decomposed: %s" % (case["r"], str(exc)[:80]))
        return ctx.fail("gaussian_transform.rejects_valid_symplectic", "ValueError %r" % str(exc)[:160])
    except Exception as exc:  # pylint: disable=broad-except
        ctx.note(case, True, labels)
        return ctx.crash(exc, "gaussian_transform")
    specs = spec.circuit_to_specs(comp.circuit)
    ctx.note(case, nontrivial=not np.allclose(S, np.eye(2 * k), atol=1e-12), labels=labels)
    doc = refsim.Ref(n, 2.0)
    doc.GaussianTransform(S, modes)
    try:
        got = spec.ref_run(n, specs, 2.0)
    except refsim.RefError as exc:
        return ctx.fail("compiled_unknown_op.GaussianTransform", str(exc))
    if case["vacuum"]:
        d = max(float(np.max(np.abs(doc.V - got.V))), float(np.max(np.abs(doc.mu - got.mu))))
    else:
        d = map_diff(doc, got)
    if d > 1e-7:
        if _f38_trigger(case["r"]) and _bm_nonsymplectic(S):
            return ctx.fail("F38.bloch_messiah_nonsymplectic", "GaussianTransform decomposition differs from S by %.3g (bloch_messiah factors are not symplectic)" % d)
        if _bm_near_degenerate(case["r"]) and _bm_nonsymplectic(S, 1e-9):
            return ctx.fail("bloch_messiah.near_degenerate_cluster_split_by_rounding", "squeezing values %s nearly equal: bloch_messiah factors are not symplectic (error %.3g)" % (case["r"], d))
        return ctx.fail("gaussian_transform.wrong_map.%s" % ("vacuum" if case["vacuum"] else "general"), "decomposition (%d gates) differs from S by %.3g, kind=%s r=%s" % (len(specs), d, case["kind"], case["r"]))
    return None


# ---------------------------------------------------------------------------------------------
# Gaussian(V, r) preparation
# ---------------------------------------------------------------------------------------------
@st.composite
def gp_case(draw):
    k = draw(st.integers(1, 3))
    n = k + draw(st.integers(0, 2))
    modes = list(draw(st.permutations(list(range(n))))[:k])
    hbar = draw(st.sampled_from([2.0, 2.0, 1.0, 3.3]))
    kind, V = draw(gen.covariance(k, hbar))
    # entries that are exactly 0 are frequent: the decomposition emits an Xgate/Zgate only for the non-zero entries, so the
    # mode a displacement lands on must not depend on how many entries before it vanish
    r = [draw(st.one_of(st.just(0.0), gen.fl(-1.0, 1.0), gen.fl(-1.0, 1.0))) * np.sqrt(hbar / 2) for _ in range(2 * k)] if draw(st.booleans()) else None
    return {"n": n, "modes": modes, "hbar": hbar, "V": spec.enc_matrix(V), "kind": kind, "r": r, "decomp": draw(st.sampled_from([True, True, False])),
            "backend": draw(st.sampled_from(["gaussian", "bosonic"]))}


def _gp_f38(V, hbar):
    from strawberryfields import decompositions as dec

    try:
        _, S = dec.williamson(V / (hbar / 2))
    except Exception:  # pylint: disable=broad-except
        return False
    sv = np.linalg.svd(S, compute_uv=False)
    return int(np.sum(np.abs(sv - 1) < 1e-9)) >= 4 and int(np.sum(np.abs(sv - 1) >= 1e-9)) >= 2 and _bm_nonsymplectic(S)


def check_gp(ctx, case):
    from strawberryfields import ops
    import strawberryfields as sf

    n, modes, hbar = case["n"], case["modes"], case["hbar"]
    V = spec.dec_param(case["V"])
    k = len(modes)
    r = None if case["r"] is None else np.array(case["r"])
    labels = ["op:Gaussian", "cov:" + case["kind"], "decomp" if case["decomp"] else "native", "backend:" + case["backend"]]
    if modes != sorted(modes):
        labels.append("targets_not_sorted")
    if r is not None and np.any(r != 0):
        nz = np.flatnonzero(r[:k] != 0), np.flatnonzero(r[k:] != 0)
        if any(len(z) and z[-1] >= len(z) for z in nz):
            labels.append("mean_zero_before_nonzero")
    # correlated prior so that "cuts the correlations" is tested as well
    prior = [["Sgate", [0.3, 0.4], [0], {}]] + ([["BSgate", [0.7, 0.3], [0, n - 1], {}]] if n > 1 else [])
    with sfrun.HbarCtx(hbar):
        prog = spec.build_program(n, prior)
        try:
            with prog.context as q:
                ops.Gaussian(V.copy(), r=None if r is None else r.copy(), decomp=case["decomp"]) | tuple(q[m] for m in modes)
            np.random.seed(1)
            state = sf.Engine(case["backend"]).run(prog).state
        except (NotImplementedError,) as exc:
            ctx.note(case, False, ["rejected"])
            return None
        except ValueError as exc:
            ctx.note(case, True, labels)
            if "not unitary" in str(exc) and _gp_f38(V, hbar):
                return ctx.fail("F38.bloch_messiah_nonsymplectic", "Gaussian(V) of kind %s cannot be decomposed: %s" % (case["kind"], str(exc)[:80]))
            return ctx.fail("gaussian_prep.rejects_valid_state", "ValueError %r for a valid covariance of kind %s" % (str(exc)[:120], case["kind"]))
        except Exception as exc:  # pylint: disable=broad-except
            ctx.note(case, True, labels)
            return ctx.crash(exc, "gaussian_prep")
    mu, cov, _ = sfrun.moments_of(state, case["backend"], hbar)
    ctx.note(case, nontrivial=case["kind"] != "vacuum", labels=labels)
    it = modes + [m + n for m in modes]
    rest = [m for m in range(n) if m not in modes]
    isp = rest + [m + n for m in rest]
    want_mu = np.zeros(2 * k) if r is None else r
    dV = float(np.max(np.abs(cov[np.ix_(it, it)] - V))) / (hbar / 2)
    dm = float(np.max(np.abs(mu[it] - want_mu))) / np.sqrt(hbar / 2)
    cross = float(np.max(np.abs(cov[np.ix_(it, isp)]))) if rest else 0.0
    if dV > 1e-7 * (1 + np.max(np.abs(V))) or dm > 1e-7:
        return ctx.fail("gaussian_prep.wrong_state.%s.%s" % ("decomp" if case["decomp"] else "native", case["kind"]), "prepared covariance differs from V by %.3g, means by %.3g" % (dV, dm))
    if cross > 1e-9:
        return ctx.fail("gaussian_prep.still_correlated", "prepared modes remain correlated with the rest (%.3g)" % cross)
    return None


# ---------------------------------------------------------------------------------------------
# graph embeddings
# ---------------------------------------------------------------------------------------------
@st.composite
def _multiplicity_list(draw, k, signed=False):
    """k values from {0} + [0.2, 1] (optionally with signs) with explicitly drawn multiplicities 1..3"""
    vals = []
    while len(vals) < k:
        v = draw(st.one_of(gen.fl(0.2, 1.0), gen.fl(0.2, 1.0), st.just(0.0)))
        grp = [v] * draw(st.integers(1, 3))
        if signed:
            grp = [x * draw(st.sampled_from([1.0, -1.0])) for x in grp]
        vals += grp
    vals = vals[:k]
    if not any(vals):
        vals[0] = 0.5
    return list(draw(st.permutations(vals)))


GE_KINDS_SYM = ["complex_degenerate", "real_sym", "adjacency", "complex_sym", "complex_degenerate", "rank1", "diag", "identity",
                "scaled_identity", "real_degenerate"]
GE_KINDS_BIP = ["complex_general", "real_general", "perm", "complex_general"]  # not symmetric: edge matrices of BipartiteGraphEmbed only


@st.composite
def ge_case(draw):
    which = draw(st.sampled_from(["GraphEmbed", "GraphEmbed", "Bipartite_edges", "Bipartite_full"]))
    k = draw(st.sampled_from([2, 3, 4, 1]))
    kind = draw(st.sampled_from(GE_KINDS_SYM if which == "GraphEmbed" else GE_KINDS_BIP[:1] + GE_KINDS_SYM + GE_KINDS_BIP[1:]))
    if k == 1 and kind in ("adjacency", "rank1", "perm", "complex_degenerate", "real_degenerate"):
        kind = "complex_sym"
    threshold = True
    if kind == "adjacency":
        bits = draw(st.lists(st.integers(0, 1), min_size=k * k, max_size=k * k))
        A = np.triu(np.array(bits, float).reshape(k, k), 1)
        A = A + A.T
        if not A.any():
            A[0, 1] = A[1, 0] = 1.0
    elif kind == "rank1":
        v = np.array(draw(st.lists(gen.fl(0.2, 1.0), min_size=k, max_size=k)))
        A = np.outer(v, v)
    elif kind == "diag":
        A = np.diag(draw(st.lists(gen.fl(0.2, 1.0), min_size=k, max_size=k)))
    elif kind == "identity":
        A = np.eye(k)
    elif kind == "scaled_identity":
        A = np.eye(k) * draw(st.sampled_from([0.5, 0.999, 2.0]))
    elif kind == "perm":
        A = np.eye(k)[list(draw(st.permutations(list(range(k)))))]
    elif kind == "complex_degenerate":
        # A = W D W^T, W unitary, D >= 0 with repeated (and vanishing) entries: the Takagi values of A are the entries of D, so
        # the complex branch of decompositions.takagi has to treat whole degenerate subspaces (D = 1: A = W W^T unitary)
        W = draw(gen.unitary(k, ["haar", "haar", "diag", "permdiag", "block", "bs_product"]))[1]
        D = np.ones(k) if draw(st.integers(0, 3)) == 0 else np.array(draw(_multiplicity_list(k)))
        A = W @ np.diag(D) @ W.T
        A = (A + A.T) / 2
        threshold = False
    elif kind == "real_degenerate":
        # real symmetric with repeated eigenvalues, also +a and -a (equal Takagi values from eigenvalues of opposite sign)
        O = draw(gen.unitary(k, ["orth", "orth", "perm", "identity"]))[1].real
        A = O @ np.diag(np.array(draw(_multiplicity_list(k, signed=True)))) @ O.T
        A = (A + A.T) / 2
        threshold = False
    else:
        G = draw(gen.ginibre(k, complex_=kind in ("complex_sym", "complex_general")))
        A = (G + G.T) / 2 if kind not in ("real_general", "complex_general") else G
        if np.max(np.abs(A)) < 0.05:
            A = A + np.eye(k)
    # entries below 1e-3 are set to exactly 0: the operations treat matrices within `tol` (1e-6) of symmetric as symmetric
    # (documented), so sub-tolerance asymmetries are not reproduced; boundary-of-tolerance behaviour belongs to C17
    if threshold:
        A = np.where(np.abs(A) < 1e-3, 0.0, A)
        if np.iscomplexobj(A):  # ... also for the real and the imaginary parts separately ([[0, 1j], [1e-6 + 1j, 0]] is within tol of symmetric)
            A = np.where(np.abs(A.real) < 1e-3, 0.0, A.real) + 1j * np.where(np.abs(A.imag) < 1e-3, 0.0, A.imag)
    if not A.any():
        A = A + np.eye(k)
    if k > 1 and 0 < float(np.max(np.abs(A - A.T))) < 1e-3:
        # an edge matrix is either exactly symmetric or clearly (>= 1e-3) not: inside `tol` of symmetric is C17's subject
        A = A.copy()
        A[0, k - 1] += 0.01
    nmodes = k if which == "GraphEmbed" else 2 * k
    n = nmodes + draw(st.integers(0, 1))
    modes = list(draw(st.permutations(list(range(n))))[:nmodes])
    return {"which": which, "kind": kind, "A": spec.enc_matrix(A), "n": n, "modes": modes,
            "mean_photon": draw(st.one_of(gen.fl(0.05, 1.0), gen.fl(0.05, 1.0), st.sampled_from([2.5, 0.01]))),
            "make_traceless": which == "GraphEmbed" and kind not in ("identity", "scaled_identity") and draw(st.integers(0, 2)) == 0,
            # documented option of BipartiteGraphEmbed (default True): False keeps the trivial S2gates / interferometers
            "drop_identity": which == "GraphEmbed" or draw(st.booleans()),
            # 0/1 adjacency matrices handed over as integer arrays
            "int_dtype": kind == "adjacency" and draw(st.booleans()),
            "target": draw(st.sampled_from(["gaussian", "fock"]))}


def _scaled_for_takagi(A, which, mp):
    """the matrix the embedding hands to decompositions.takagi (None if it takes the SVD route): scale * A with the
    thewalrus.quantum.adj_scaling factor for the requested mean photon number"""
    from thewalrus.quantum import adj_scaling

    A = np.asarray(A)
    k = len(A)
    if which == "GraphEmbed":
        return adj_scaling(A, k * mp) * A
    if not np.allclose(A, A.T, rtol=0, atol=1e-6):
        return None
    B = np.block([[np.zeros((k, k)), A], [A.T, np.zeros((k, k))]])
    return adj_scaling(B, 2 * k * mp) * A


def _takagi_exact_degenerate_unstable(A, which, mp):
    """AUDIT-FINDING takagi-exact-degenerate-split, AUDIT-FINDING takagi-degenerate-sqrtm-branch-cut.
    For a complex symmetric matrix decompositions.takagi finds degenerate subspaces by np.round(singular values, 13) and takes
    scipy.linalg.sqrtm of the overlap Q = v^T w of each subspace.  For an EXACTLY degenerate matrix (the class
    'complex_degenerate' of ge_case) two things go wrong, each for about 1 in 700 such matrices:
      'split'       the computed singular values differ by rounding noise (~1e-16) and a 13-decimal rounding boundary happens to
                    fall between them: the subspace is split and the returned W is not unitary at all (error 0.1 .. 0.8).  Same
                    root cause as the open finding N1 but below its catalogued window (relative gap 1e-15 .. 1e-6), larger effect.
      'branch_cut'  Q has two (numerically equal) eigenvalues at -1, the branch cut of the principal square root: sqrtm returns a
                    non-normal root ([[-i, x], [0, i]]) and W is not unitary (error ~0.1).
    Either way the embedding raises 'The input matrix is not unitary' (or prepares a wrong state).  Both situations are
    recognised here from numpy's SVD of the matrix the embedding decomposes (no repo code involved) and such inputs are skipped.
    Returns the reason or None."""
    try:
        M = _scaled_for_takagi(A, which, mp)
    except Exception:  # pylint: disable=broad-except
        return None
    if M is None or np.isrealobj(np.real_if_close(M)):
        return None
    v, sv, wh = np.linalg.svd(np.real_if_close(M))
    w = wh.conj().T
    for a, b in zip(sv[:-1], sv[1:]):
        if a - b <= 3e-15 * sv[0] and np.floor((a + 4e-16) * 1e13 + 0.5) != np.floor((b - 4e-16) * 1e13 + 0.5):
            return "split"
    rl = np.round(sv, 13)
    i = 0
    while i < len(rl):
        j = i
        while j + 1 < len(rl) and rl[j + 1] == rl[i]:
            j += 1
        if j > i:
            g = list(range(i, j + 1))
            ev = np.linalg.eigvals(v[:, g].T @ w[:, g])
            if int(np.sum(np.abs(ev + 1) < 1e-6)) >= 2:
                return "branch_cut"
        i = j + 1
    return None


def _takagi_near_degenerate(A, which, mp):
    """C17 finding N1: two singular values with a relative gap in (1e-15, 1e-6) AND the repo's takagi, applied to the
    scaled matrix the embedding routine uses, does not reproduce it (or returns a non-unitary factor)"""
    from strawberryfields import decompositions as dec

    A = np.asarray(A)
    sv = np.sort(np.linalg.svd(A, compute_uv=False))
    if len(sv) < 2 or sv[-1] == 0:
        return False
    gaps = np.diff(sv) / sv[-1]
    if not np.any((gaps > 1e-15) & (gaps < 1e-6)):
        return False
    try:
        k = len(A)
        if which == "GraphEmbed":
            M = dec.adj_scaling(A, k * mp) * A
        else:
            B = np.block([[np.zeros((k, k)), A], [A.T, np.zeros((k, k))]])
            M = dec.adj_scaling(B, 2 * k * mp) * A
        bad = False
        for X in ([M] if which == "GraphEmbed" else [M, M @ M.conj().T, M.T @ M.conj()]):
            if not np.allclose(X, X.T):
                continue
            rl, W = dec.takagi(X)
            bad |= float(np.max(np.abs(W @ np.diag(rl) @ W.T - X))) > 1e-9 * (1 + float(np.max(np.abs(X))))
            bad |= float(np.max(np.abs(W @ W.conj().T - np.eye(len(W))))) > 1e-9
        return bool(bad)
    except Exception:  # pylint: disable=broad-except
        return False


def check_ge(ctx, case):
    from strawberryfields import ops
    import strawberryfields as sf
    from thewalrus.quantum import Amat

    A = spec.dec_param(case["A"])
    n, modes, which, mp = case["n"], case["modes"], case["which"], case["mean_photon"]
    k = len(A)
    labels = ["op:" + ("GraphEmbed" if which == "GraphEmbed" else "BipartiteGraphEmbed"), "graph:" + case["kind"]]
    if which == "Bipartite_full":
        full = np.block([[np.zeros((k, k)), A], [A.T, np.zeros((k, k))]])
        arg, kw = full, {"edges": False}
    elif which == "Bipartite_edges":
        full = np.block([[np.zeros((k, k)), A], [A.T, np.zeros((k, k))]])
        arg, kw = A, {"edges": True}
    else:
        full = A
        arg, kw = A, {}
    mt = bool(case.get("make_traceless"))
    if mt:
        # documented: the embedded matrix is A - tr(A)/k * 1, rescaled to the requested mean photon number
        labels.append("make_traceless")
        full = A - np.trace(A) / k * np.eye(k)
        kw = {"make_traceless": True}
        if float(np.max(np.abs(full))) < 1e-6:
            ctx.note(case, False, labels + ["traceless_part_vanishes"])
            return None
    target = case.get("target", "gaussian")
    labels.append("embed_target:" + target)
    if k == 1:
        labels.append("graph_1x1")
    if not case.get("drop_identity", True):
        labels.append("drop_identity_false")
        kw["drop_identity"] = False
    if case.get("int_dtype"):
        labels.append("int_dtype")
        arg = np.asarray(arg).astype(int)
    if not 0.05 <= mp <= 1.0:
        labels.append("mean_photon_extreme")
    unstable = _takagi_exact_degenerate_unstable(full if mt else A, which, mp)
    if unstable:
        ctx.note(case, False, labels + ["excluded:takagi_exact_degenerate_" + unstable])
        return None
    prog = sf.Program(n)
    try:
        with prog.context as q:
            regs = tuple(q[m] for m in modes)
            if which == "GraphEmbed":
                ops.GraphEmbed(arg, mean_photon_per_mode=mp, **kw) | regs
            else:
                ops.BipartiteGraphEmbed(arg, mean_photon_per_mode=mp, **kw) | regs
        comp = prog.compile(compiler=target)
    except Exception as exc:  # pylint: disable=broad-except
        ctx.note(case, True, labels)
        return ctx.crash(exc, which)
    specs = spec.circuit_to_specs(comp.circuit)
    ctx.note(case, nontrivial=True, labels=labels)
    try:
        got = spec.ref_run(n, specs, 2.0)
    except refsim.RefError as exc:
        return ctx.fail("compiled_unknown_op.%s" % which, str(exc))
    nm = len(modes)
    _, cov = got.reduced(modes)
    nbar = sum(got.mean_photon(m) for m in modes)
    Am = Amat(cov, hbar=2.0)[:nm, :nm]
    ref_mat = np.conj(full)
    c = np.vdot(ref_mat, Am) / np.vdot(ref_mat, ref_mat)
    bad_prop = abs(c.imag) > 1e-7 or c.real <= 0 or float(np.max(np.abs(Am - c * ref_mat))) > 1e-7
    bad_n = abs(nbar - nm * mp) > 1e-6 * (1 + nm * mp)
    if bad_prop or bad_n:
        if _takagi_near_degenerate(full if mt else A, which, mp):
            return ctx.fail("takagi.near_degenerate_cluster_split_by_rounding", "graph embedding of a matrix with nearly (not exactly) equal singular values: takagi returns a non-unitary W")
        is_identity = np.allclose(arg, np.eye(len(arg)), atol=1e-13)
        # F40 is about the default drop_identity=True; with drop_identity=False nothing may be dropped
        if is_identity and len(specs) == 0 and case.get("drop_identity", True):
            return ctx.fail("F40.graph_embed_identity_matrix", "%s(identity matrix) decomposes to nothing: mean photon number %.3g instead of %.3g" % (which, nbar, nm * mp))
        return ctx.fail("graph_embed.wrong_state.%s" % which, "kind=%s: adjacency block proportional to conj(A): %s (c=%s), mean photons %.6g vs %.6g" % (case["kind"], not bad_prop, c, nbar, nm * mp))
    other = [m for m in range(n) if m not in modes]
    if other and abs(got.mean_photon(other[0])) > 1e-10:
        return ctx.fail("graph_embed.touched_other_mode", "spectator mode got photons")
    return None


SUBS = [
    Sub("scalar_decomp", check=check_scalar, strategy=lambda ctx: scalar_case(), examples={"quick": 800, "thorough": 8000},
        shards={"quick": 1, "thorough": 16}, rule="scalar decomposable gates/preparations with .H on ordered targets, 3 compile targets or op.decompose() directly, 4 hbar values, same object applied / compiled twice"),
    Sub("symbolic_sweep", check=check_sweep, enumerate=sweep_cases, shards={"quick": 2, "thorough": 8}, exhaustive=False,
        rule="_decompose called with a sympy symbol; product parameters lambdified and evaluated on a dense grid over [-8, 8] + special values"),
    Sub("interferometer", check=check_interf, strategy=lambda ctx: interf_case(), examples={"quick": 500, "thorough": 5000},
        shards={"quick": 2, "thorough": 16}, rule="Interferometer(U) for structured unitaries of size 1..7 (also rounded to 9 decimals) under each of the 7 meshes, both drop_identity values"),
    Sub("gaussian_transform", check=check_gt, strategy=lambda ctx: gt_case(), examples={"quick": 300, "thorough": 3000},
        shards={"quick": 1, "thorough": 16}, rule="GaussianTransform(S) active/passive/degenerate, squeezing 1e-4..2, vacuum both ways"),
    Sub("gaussian_prep", check=check_gp, strategy=lambda ctx: gp_case(), examples={"quick": 300, "thorough": 3000},
        shards={"quick": 1, "thorough": 16}, rule="Gaussian(V, r) decomposed and native on unsorted target subsets with a correlated prior; means with exact zeros"),
    Sub("graph_embed", check=check_ge, strategy=lambda ctx: ge_case(), examples={"quick": 500, "thorough": 5000},
        shards={"quick": 1, "thorough": 16}, rule="GraphEmbed / BipartiteGraphEmbed (edges both ways, drop_identity both ways, fock and gaussian) on structured matrices incl. exactly degenerate and complex non-symmetric ones"),
]

MANIFEST = {
    "technique": "Hypothesis differential testing of compiled decompositions against the documented phase-space map (refsim), plus symbolic dense-grid sweep",
    "text": ("For each decomposable operation the command list produced by Program.compile is interpreted by refsim and compared, as a full "
             "affine phase-space map (all input states at once), with the documented transformation; matrix-valued operations use "
             "structured inputs (identity, permutations, exact zeros, degenerate spectra); the scalar decompositions are additionally "
             "evaluated symbolically on a dense grid."),
}
