"""C19 - GBS application helpers are combinatorially exact and structurally sound.

Oracles (none of them shares code with strawberryfields.apps):

* similarity: a recursive partition generator, exact integer multinomials (``math.factorial``), the
  inclusion-exclusion closed form for bounded compositions (``math.comb``) and brute-force counting with
  ``itertools.product``; the three counting oracles are cross-checked against each other in ``selftest``.
* clique / subgraph: an adjacency-set graph written here (clique-ness = all pairs adjacent, C0 / C1 by
  definition, density = 2E/(n(n-1))) and *reachability* predicates: the node set a routine returns must be
  reachable from its input by some sequence of single steps each of which picks a node from the documented
  candidate set (grow: C0, then max graph degree / max weight; swap: C1 likewise; shrink: min degree inside
  the subgraph, then min weight; resize: max degree towards the subgraph then max weight when growing, min
  degree then min weight when shrinking).  No knowledge of the random tie-break is needed.  In addition the
  number of alternatives handed to ``np.random.choice`` at every step (observed through a pass-through
  wrapper) must equal the size of the documented candidate set of that step ("ties are settled uniformly").
* sample: list comprehensions.
* "selected uniformly at random" (event_to_sample / orbit_to_sample): (a) the probability vector handed to
  ``np.random.choice(n, p=...)`` when the orbit of the sample is drawn (observed through the same pass-through
  wrapper) must be the exact orbit cardinalities divided by the event cardinality; (b) for events / orbits of
  2..12 samples, 400 consecutive draws must produce every sample of the event / orbit (a sample that can never be
  drawn is a violation; a uniform sampler misses one with probability < 1e-13).

Randomness of the code under test is fixed with ``np.random.seed(<int of the case>)`` before every call.
"""
from __future__ import annotations

import itertools
import math
from collections import Counter

import networkx as nx
import numpy as np
from hypothesis import strategies as st

from vf.core import Sub

RULE = ("similarity: every photon number 1..30 (orbits) and every orbit of <= 10 (quick) / 16 (thorough) photons on "
        "every mode count up to 60 plus {64,100,170,171,172,200,256,300} exhaustively; Hypothesis: orbits of up to 96 "
        "photons on up to 300 modes, events (k <= 22 / 32, max_count 0..k+1, modes 1..300), random samples; a quarter of the "
        "similarity cases takes its event and its orbit from the tables of all events (k <= 8, modes <= 6) / orbits (<= 6 photons) "
        "with 2..12 samples and draws 400 more samples from each (support of the sampler). A "
        "cardinality case is non-trivial when the count exceeds 1; an event case when the event holds >= 2 samples. "
        "graphs: every labelled graph on <= 5 nodes x every non-empty node subset x "
        "{no weights, every weight vector in {1,2}^n (quick: only two vectors for n = 5)} exhaustively; Hypothesis: 2..9 nodes, contiguous or non-contiguous "
        "unsorted integer labels, three edge densities, weight vectors with ties (ints / floats / numpy array), seed "
        "cliques built greedily from a drawn permutation, arbitrary subsets as subgraphs, size windows, lists of start "
        "subgraphs; a third of the graphs has edges with a 'weight' attribute, a fifth of the weight vectors has zero / negative "
        "entries, one clique seed / subgraph in ten is empty, a fifth of the cases repeats the calls with a node list naming "
        "a node that is not in the graph (max label + 1, -1 or 37, at a drawn position). sample helpers: 1..8 or 11..16 modes. "
        "A graph case is non-trivial when at least one step explored by the oracle has >= 2 base candidates "
        "(a choice exists); labels count how often the rule excludes a candidate, leaves a tie, and whether the "
        "weights break or keep a tie of the primary criterion. distinct = distinct JSON of the case")
ASSUMPTIONS = [
    "densities are compared with 2E/(n(n-1)) to 1e-12 absolute (float rounding of one division); all other "
    "comparisons are exact (integers, lists)",
    "a float returned by orbit_cardinality / event_cardinality is accepted when its value is exactly the true integer",
    "node weights are given in the order of graph.nodes (what every routine documents as 'node weights of the graph')",
    "clique.search: one iteration = one growth phase followed by one swap; it stops after `iterations` rounds or when "
    "no swap is possible (module docstring 'Stopping')",
    "orbit_cardinality called directly with fewer modes than orbit entries may return 0 or raise ValueError",
    "event_to_sample is observed to draw the orbit of its sample with one call np.random.choice(n, p=...): the non-zero entries "
    "of p must equal (samples in the orbit)/(samples in the event) to 1e-9 (both sides are one correctly rounded division); "
    "when no such call is observed this sub-oracle is skipped",
    "support of event_to_sample / orbit_to_sample: for events / orbits of 2..12 samples, 401 seeded consecutive draws must produce "
    "every sample; a uniform sampler fails this with probability < 12*(11/12)^401 < 1e-14 per case",
    "an empty node list is a clique by the formula of is_clique's docstring (0 nodes, 0 edges) and is what to_subgraphs returns "
    "for a sample without clicks: shrink([]) must return []; grow/swap/search/c_0/c_1 may refuse it with ValueError",
    "a node list naming a node that is not in the graph is invalid input: any exception is accepted; only a *returned* node "
    "set that is not a subset of the graph's nodes (or not a clique, for the clique routines) is a failure",
    "an edge attribute 'weight' does not change adjacency, degree (number of neighbours) or density 2E/(n(n-1))",
    "python's math.factorial / math.comb and itertools are trusted; numpy's global RNG is only seeded, never read, by the oracle",
]
REQUIRED_LABELS = {"all": ["modes_ge_25", "weights_with_tie", "weights_break_tie", "degree_mode", "shrink_needed",
                           "grow_needed", "rule_excludes", "event_brute_force", "resize_hidden_steps",
                           # generator audit: input classes that must be produced at every seed
                           "event_orbit_weights_ge_2_orbits", "event_support_checked", "orbit_support_checked",
                           "edge_attr_weight", "foreign_node", "weights_zero_or_negative", "clique_seed_size_0",
                           "shrink_empty_subgraph", "sample_click_in_mode_ge_10"]}

_STATE = {}
DENS_TOL = 1e-12
P_TOL = 1e-9


def _env():
    if not _STATE:
        import strawberryfields  # noqa: F401
        from strawberryfields.apps import clique, sample, similarity, subgraph

        _STATE.update(clique=clique, sample=sample, sim=similarity, subgraph=subgraph)
    return _STATE


# =============================================================================================
# similarity oracles
# =============================================================================================
def partitions(k, maxpart=None):
    """all partitions of k as non-increasing tuples"""
    if maxpart is None or maxpart > k:
        maxpart = k
    if k == 0:
        yield ()
        return
    for first in range(maxpart, 0, -1):
        for rest in partitions(k - first, first):
            yield (first,) + rest


def npartitions(k):
    """p(k) by Euler's pentagonal recurrence (independent of `partitions`)"""
    p = [1] + [0] * k
    for n in range(1, k + 1):
        j, s = 1, 0
        while True:
            g1, g2 = j * (3 * j - 1) // 2, j * (3 * j + 1) // 2
            if g1 > n:
                break
            sign = 1 if j % 2 else -1
            s += sign * p[n - g1]
            if g2 <= n:
                s += sign * p[n - g2]
            j += 1
        p[n] = s
    return p[k]


def multinomial(orbit, modes):
    """number of distinct samples on `modes` modes whose non-zero entries are `orbit`"""
    if len(orbit) > modes:
        return 0
    r = math.factorial(modes) // math.factorial(modes - len(orbit))
    for v in Counter(orbit).values():
        r //= math.factorial(v)
    return r


def event_count_closed(k, nmax, m):
    """number of m-tuples over {0..nmax} with sum k (inclusion-exclusion)"""
    tot = 0
    for j in range(0, m + 1):
        r = k - j * (nmax + 1)
        if r < 0:
            break
        tot += (-1) ** j * math.comb(m, j) * math.comb(r + m - 1, m - 1)
    return tot


def event_count_orbits(k, nmax, m):
    return sum(multinomial(o, m) for o in partitions(k) if not o or o[0] <= nmax)


def event_count_bf(k, nmax, m):
    top = min(nmax, k)
    return sum(1 for s in itertools.product(range(top + 1), repeat=m) if sum(s) == k)


def long_orbit_prediction(k, nmax, m):
    """what event_cardinality returns when orbits with more entries than modes are *not* skipped and
    orbit_cardinality pads with ``[0] * negative == []``: floor(m! / prod(multiplicity!)) for those orbits"""
    tot = 0
    for o in partitions(k):
        if o and o[0] > nmax:
            continue
        cnt = Counter(list(o) + [0] * (m - len(o)))
        den = 1
        for v in cnt.values():
            den *= math.factorial(v)
        tot += math.factorial(m) // den
    return tot


def arrangements(items):
    """all distinct orderings of the multiset `items` (tuples), written without itertools.permutations so that the
    cost is the number of results"""
    cnt = Counter(int(x) for x in items)
    keys = sorted(cnt)
    out, cur = [], []

    def rec(left):
        if left == 0:
            out.append(tuple(cur))
            return
        for v in keys:
            if cnt[v]:
                cnt[v] -= 1
                cur.append(v)
                rec(left - 1)
                cur.pop()
                cnt[v] += 1

    rec(len(items))
    return out


SUPPORT_MAX = 12     # largest event / orbit whose support is checked by repeated draws
SUPPORT_DRAWS = 400  # 12 * (11/12)**400 < 1e-14


def as_exact_int(x):
    """exact integer value of a returned number, or None if it is not an integer"""
    if isinstance(x, (bool, np.bool_)):
        return None
    if isinstance(x, (int, np.integer)):
        return int(x)
    if isinstance(x, (float, np.floating)):
        x = float(x)
        if x != x or x in (float("inf"), float("-inf")) or not x.is_integer():
            return None
        return int(x)
    return None


def f21_like(got, exact, modes, nterms=1):
    """is `got` what float factorials predict?  Doubles represent n! exactly up to n = 22, so nothing can go wrong
    below 23 modes; above, each of the `nterms` summed quotients is a rounded float (relative error ~1e-16, allowed
    here: 1e-12) that is truncated by int() (int(299.99999999999994) == 299) or, above 170 modes, returned as float."""
    if modes < 23:
        return False
    try:
        return abs(float(got) - float(exact)) <= nterms * max(1.0, 1e-12 * float(exact))
    except Exception:  # pylint: disable=broad-except
        return False


# ---------------------------------------------------------------------------------------------
# similarity checks
# ---------------------------------------------------------------------------------------------
def check_orbits(ctx, case):
    sim = _env()["sim"]
    k = case["k"]
    labels = ["orbits"]
    if k >= 20:
        labels.append("orbits_k_ge_20")
    ctx.note(case, nontrivial=k >= 2, labels=labels)
    try:
        got = [list(o) for o in sim.orbits(k)]
    except Exception as exc:  # pylint: disable=broad-except
        return ctx.crash(exc, "orbits")
    for o in got:
        if not o or any((not isinstance(x, (int, np.integer))) or x < 1 for x in o) or sum(o) != k:
            return ctx.fail("orbits.not_a_partition", "orbits(%d) yields %s" % (k, o))
        if any(o[i] < o[i + 1] for i in range(len(o) - 1)):
            return ctx.fail("orbits.not_sorted", "orbits(%d) yields %s (not non-increasing)" % (k, o))
    tup = [tuple(int(x) for x in o) for o in got]
    if len(set(tup)) != len(tup):
        dup = [t for t, c in Counter(tup).items() if c > 1][0]
        return ctx.fail("orbits.duplicate", "orbits(%d) yields %s more than once" % (k, list(dup)))
    want = set(partitions(k))
    if set(tup) != want or len(tup) != npartitions(k):
        miss = sorted(want - set(tup))[:3]
        extra = sorted(set(tup) - want)[:3]
        return ctx.fail("orbits.wrong_set", "orbits(%d): %d orbits, true p(k)=%d, missing %s, extra %s" % (k, len(tup), npartitions(k), miss, extra))
    for o in got:
        if sim.sample_to_orbit(list(o)) != o:
            return ctx.fail("sample_to_orbit.not_identity_on_orbit", "sample_to_orbit(%s) = %s" % (o, sim.sample_to_orbit(list(o))))
    return None


def check_cardinality(ctx, case):
    sim = _env()["sim"]
    orbit = [int(x) for x in case["orbit"]]
    modes = int(case["modes"])
    exact = multinomial(orbit, modes)
    labels = ["cardinality"]
    if modes >= 25:
        labels.append("modes_ge_25")
    if modes > 170:
        labels.append("modes_gt_170")
    if exact > 2 ** 53:
        labels.append("count_exceeds_2p53")
    if len(orbit) > modes:
        labels.append("orbit_longer_than_modes")
    ctx.note(case, nontrivial=exact > 1, labels=labels)
    arg = list(orbit)
    try:
        got = sim.orbit_cardinality(arg, modes)
    except ValueError as exc:
        if len(orbit) > modes:
            return None  # rejecting an orbit that does not fit is a legitimate contract
        return ctx.crash(exc, "orbit_cardinality")
    except Exception as exc:  # pylint: disable=broad-except
        return ctx.crash(exc, "orbit_cardinality")
    if arg != orbit:
        return ctx.fail("orbit_cardinality.mutates_input", "orbit argument changed to %s" % arg)
    if as_exact_int(got) == exact:
        return None
    if len(orbit) > modes:
        return ctx.fail("similarity.orbit_longer_than_modes",
                        "orbit_cardinality(%s, %d) = %r; no sample on %d modes has %d non-zero entries (true count 0)" % (orbit, modes, got, modes, len(orbit)))
    if f21_like(got, exact, modes):
        return ctx.fail("F21.orbit_cardinality_float", "orbit_cardinality(%s, %d) = %r, exact integer multinomial = %d" % (orbit, modes, got, exact))
    return ctx.fail("orbit_cardinality.wrong", "orbit_cardinality(%s, %d) = %r, exact integer multinomial = %d" % (orbit, modes, got, exact))


def check_similarity(ctx, case):
    """events (cardinality, sampling) and sample <-> orbit <-> event conversions"""
    sim = _env()["sim"]
    k, nmax, m, seed = int(case["k"]), int(case["nmax"]), int(case["modes"]), int(case["np_seed"])
    exact = event_count_closed(k, nmax, m)
    labels = ["event"]
    if m >= 25:
        labels.append("event_modes_ge_25")
    if m < k:
        labels.append("modes_lt_photons")
    if k == 0:
        labels.append("zero_photons")
    if exact == 0:
        labels.append("empty_event")
    bf = None
    if (min(nmax, k) + 1) ** m <= 60000:
        bf = event_count_bf(k, nmax, m)
        labels.append("event_brute_force")
        if bf != exact:
            raise AssertionError("oracle disagreement: closed form %d vs brute force %d for %s" % (exact, bf, case))
    ctx.note(case, nontrivial=exact >= 2, labels=labels)

    # --- event_cardinality
    try:
        got = sim.event_cardinality(k, nmax, m)
    except Exception as exc:  # pylint: disable=broad-except
        return ctx.crash(exc, "event_cardinality")
    if as_exact_int(got) != exact:
        det = "event_cardinality(%d, %d, %d) = %r, true count = %d%s" % (k, nmax, m, got, exact, "" if bf is None else " (brute force %d)" % bf)
        nterms = npartitions(k)
        lp = long_orbit_prediction(k, nmax, m) if m < k else exact
        gi = as_exact_int(got)
        if lp != exact and gi is not None and 0 <= lp - gi <= nterms:
            ctx.fail("similarity.orbit_longer_than_modes", det + "; equals the sum that also counts orbits with more entries than modes")
        elif f21_like(got, exact, m, nterms):
            ctx.fail("F21.orbit_cardinality_float", det)
        else:
            ctx.fail("event_cardinality.wrong", det)

    # --- event_to_sample / sample_to_event / sample_to_orbit
    np.random.seed(seed)
    smp = None
    draws = int(case.get("draws", 0))
    spy = None
    try:
        with ChoiceSpy() as spy:
            smp = sim.event_to_sample(k, nmax, m)
    except ValueError as exc:
        if nmax * m < k:
            ctx.label("event_rejected_documented")
        elif m < k and "length of orbit" in str(exc):
            ctx.fail("similarity.orbit_longer_than_modes",
                     "event_to_sample(%d, %d, %d) with np seed %d raises ValueError(%s) although the event holds %d samples" % (k, nmax, m, seed, exc, exact))
        else:
            return ctx.crash(exc, "event_to_sample")
    except Exception as exc:  # pylint: disable=broad-except
        return ctx.crash(exc, "event_to_sample")
    if smp is not None:
        if nmax * m < k:
            return ctx.fail("event_to_sample.accepts_empty_event", "event_to_sample(%d, %d, %d) returned %s, documented: ValueError" % (k, nmax, m, smp))
        ok = (isinstance(smp, list) and len(smp) == m and all(isinstance(x, (int, np.integer)) and 0 <= x <= nmax for x in smp)
              and sum(smp) == k)
        if not ok:
            return ctx.fail("event_to_sample.not_in_event", "event_to_sample(%d, %d, %d) = %s" % (k, nmax, m, smp))
        ev = sim.sample_to_event(list(smp), nmax)
        if ev != k or ev is None:
            return ctx.fail("sample_to_event.roundtrip", "sample_to_event(event_to_sample(%d, %d, %d) = %s, %d) = %r" % (k, nmax, m, smp, nmax, ev))
        if max(smp) >= 1 and sim.sample_to_event(list(smp), max(smp) - 1) is not None:
            return ctx.fail("sample_to_event.max_count_ignored", "sample %s, max_count_per_mode %d: event not None" % (smp, max(smp) - 1))
        orb = sim.sample_to_orbit(list(smp))
        if sum(orb) != k or any(x < 1 or x > nmax for x in orb) or any(orb[i] < orb[i + 1] for i in range(len(orb) - 1)):
            return ctx.fail("sample_to_orbit.not_an_orbit", "sample_to_orbit(%s) = %s" % (smp, orb))
        # "selected uniformly at random from the event", (a): when the orbit is drawn with np.random.choice(n, p=..)
        # the probabilities must be (samples in the orbit) / (samples in the event); orbits without samples are ignored
        ps = [q for q in spy.ps if q is not None]
        if len(spy.ps) == 1 and len(ps) == 1 and exact > 0:
            want_p = sorted(c / exact for c in (multinomial(o, m) for o in partitions(k) if not o or o[0] <= nmax) if c)
            got_p = sorted(x for x in ps[0] if x != 0)
            ctx.label("event_orbit_weights_checked")
            if len(want_p) >= 2:
                ctx.label("event_orbit_weights_ge_2_orbits")
            if len(got_p) != len(want_p) or any(abs(a - b) > P_TOL for a, b in zip(got_p, want_p)):
                return ctx.fail("event_to_sample.orbit_weights",
                                "event_to_sample(%d, %d, %d) draws the orbit with probabilities %s; uniform over the %d samples of the event needs %s"
                                % (k, nmax, m, [round(x, 6) for x in got_p][:12], exact, [round(x, 6) for x in want_p][:12]))
        # (b): every sample of a small event must be produced by repeated draws
        if draws >= SUPPORT_DRAWS and 2 <= exact <= SUPPORT_MAX and bf is not None:
            event = set(t for t in itertools.product(range(min(nmax, k) + 1), repeat=m) if sum(t) == k)
            seen = {tuple(int(x) for x in smp)}
            try:
                for _ in range(draws):
                    seen.add(tuple(int(x) for x in sim.event_to_sample(k, nmax, m)))
            except Exception as exc:  # pylint: disable=broad-except
                return ctx.crash(exc, "event_to_sample")
            ctx.label("event_support_checked")
            if not seen <= event:
                return ctx.fail("event_to_sample.not_in_event", "event_to_sample(%d, %d, %d) produced %s" % (k, nmax, m, sorted(seen - event)[:3]))
            if seen != event:
                return ctx.fail("event_to_sample.support", "event_to_sample(%d, %d, %d): %d draws (np seed %d) never produced %s of the %d samples of the event"
                                % (k, nmax, m, draws + 1, seed, [list(t) for t in sorted(event - seen)][:6], exact))

    # --- orbit_to_sample / sample_to_orbit
    orbit = [int(x) for x in case["orbit"]]
    om = int(case["orbit_modes"])
    arg = list(orbit)
    np.random.seed(seed)
    try:
        s2 = sim.orbit_to_sample(arg, om)
    except ValueError as exc:
        if om < len(orbit):
            ctx.label("orbit_rejected_documented")
            s2 = None
        else:
            return ctx.crash(exc, "orbit_to_sample")
    except Exception as exc:  # pylint: disable=broad-except
        return ctx.crash(exc, "orbit_to_sample")
    else:
        if om < len(orbit):
            return ctx.fail("orbit_to_sample.accepts_too_few_modes", "orbit_to_sample(%s, %d) = %s, documented: ValueError" % (orbit, om, s2))
    if s2 is not None:
        if arg != orbit:
            return ctx.fail("orbit_to_sample.mutates_input", "orbit argument changed from %s to %s" % (orbit, arg))
        if not isinstance(s2, list) or len(s2) != om or sorted(int(x) for x in s2) != sorted(orbit + [0] * (om - len(orbit))):
            return ctx.fail("orbit_to_sample.not_in_orbit", "orbit_to_sample(%s, %d) = %s" % (orbit, om, s2))
        back = sim.sample_to_orbit(list(s2))
        if back != orbit:
            return ctx.fail("sample_to_orbit.roundtrip", "sample_to_orbit(orbit_to_sample(%s, %d) = %s) = %s" % (orbit, om, s2, back))
        # "selected uniformly at random from the orbit": every arrangement of a small orbit must be produced
        if draws >= SUPPORT_DRAWS and 2 <= multinomial(orbit, om) <= SUPPORT_MAX:
            allarr = set(arrangements(orbit + [0] * (om - len(orbit))))
            if len(allarr) != multinomial(orbit, om):
                raise AssertionError("oracle disagreement: %d arrangements vs multinomial %d for %s" % (len(allarr), multinomial(orbit, om), case))
            seen = {tuple(int(x) for x in s2)}
            try:
                for _ in range(draws):
                    seen.add(tuple(int(x) for x in sim.orbit_to_sample(list(orbit), om)))
            except Exception as exc:  # pylint: disable=broad-except
                return ctx.crash(exc, "orbit_to_sample")
            ctx.label("orbit_support_checked")
            if seen != allarr:
                return ctx.fail("orbit_to_sample.support", "orbit_to_sample(%s, %d): %d draws (np seed %d) produced %s outside the orbit and never %s"
                                % (orbit, om, draws + 1, seed, [list(t) for t in sorted(seen - allarr)][:3], [list(t) for t in sorted(allarr - seen)][:6]))

    # --- conversions on an arbitrary sample
    smp = [int(x) for x in case["sample"]]
    n2 = int(case["sample_nmax"])
    want_o = sorted([x for x in smp if x != 0], reverse=True)
    if sim.sample_to_orbit(list(smp)) != want_o:
        return ctx.fail("sample_to_orbit.wrong", "sample_to_orbit(%s) = %s, want %s" % (smp, sim.sample_to_orbit(list(smp)), want_o))
    want_e = sum(smp) if max(smp) <= n2 else None
    got_e = sim.sample_to_event(list(smp), n2)
    if got_e != want_e or (want_e is None) != (got_e is None):
        return ctx.fail("sample_to_event.wrong", "sample_to_event(%s, %d) = %r, want %r" % (smp, n2, got_e, want_e))
    return None


# =============================================================================================
# graph oracle
# =============================================================================================
class OG:
    """adjacency-set graph of the oracle; `nodes` is the insertion order (= order of the weight vector)"""

    def __init__(self, nodes, edges, weights=None):
        self.nodes = [int(v) for v in nodes]
        self.adj = {v: set() for v in self.nodes}
        for a, b in edges:
            a, b = int(a), int(b)
            if a == b or a not in self.adj or b not in self.adj:
                raise ValueError("bad edge %s" % ((a, b),))
            self.adj[a].add(b)
            self.adj[b].add(a)
        self.w = None if weights is None else {v: weights[i] for i, v in enumerate(self.nodes)}

    def is_clique(self, S):
        S = sorted(S)
        return all(b in self.adj[a] for i, a in enumerate(S) for b in S[i + 1:])

    def c0(self, S):
        S = set(S)
        return [v for v in self.nodes if v not in S and S <= self.adj[v]]

    def c1(self, S):
        S = set(S)
        out = []
        for v in self.nodes:
            if v in S:
                continue
            missing = S - self.adj[v]
            if len(missing) == 1:
                out.append((next(iter(missing)), v))
        return out

    def deg(self, v):
        return len(self.adj[v])

    def deg_in(self, v, S):
        return len(self.adj[v] & S)

    def nedges(self, S):
        S = set(S)
        return sum(len(self.adj[v] & S) for v in S) // 2


def _best(items, key, pick):
    vals = [key(x) for x in items]
    b = pick(vals)
    return [x for x, v in zip(items, vals) if v == b]


def _stat(stats, base, prim, final, weight_mode):
    if stats is None:
        return
    if len(base) >= 2:
        stats["choice"] = True
    if len(final) < len(base):
        stats["rule_excludes"] = True
    if len(prim) >= 2:
        stats["tie_primary"] = True
    if weight_mode and len(prim) >= 2:
        if len(final) < len(prim):
            stats["weights_break_tie"] = True
        if len(final) >= 2:
            stats["weights_with_tie"] = True


def grow_cands(og, cur, mode, stats=None):
    """clique.grow / clique.search growth step: (candidates, number offered to the RNG)"""
    c0 = og.c0(cur)
    if not c0:
        return [], 0
    if mode == "uniform":
        c = c0
    elif mode == "degree":
        c = _best(c0, og.deg, max)
    else:
        c = _best(c0, lambda v: og.w[v], max)
    _stat(stats, c0, c, c, mode == "weight")
    return c, len(c)


def swap_cands(og, cur, mode, stats=None):
    c1 = og.c1(cur)
    if not c1:
        return [], 0
    if mode == "uniform":
        c = c1
    elif mode == "degree":
        c = _best(c1, lambda p: og.deg(p[1]), max)
    else:
        c = _best(c1, lambda p: og.w[p[1]], max)
    _stat(stats, c1, c, c, mode == "weight")
    return c, len(c)


def shrink_cands(og, order, mode, buggy=False, stats=None):
    """one removal step of clique.shrink / subgraph.resize on the node sequence `order`.
    buggy=True emulates F22: the position inside the min-degree sub-array indexes the full array."""
    cur = set(order)
    degs = [og.deg_in(v, cur) for v in order]
    mn = min(degs)
    P = [i for i, d in enumerate(degs) if d == mn]
    prim = [order[i] for i in P]
    if mode == "uniform":
        _stat(stats, list(order), prim, prim, False)
        return prim, len(prim)
    ws = [og.w[v] for v in prim]
    mw = min(ws)
    J = [j for j, x in enumerate(ws) if x == mw]
    if buggy:
        return [order[j] for j in J], len(J)
    fin = [prim[j] for j in J]
    _stat(stats, list(order), prim, fin, True)
    return fin, len(fin)


def rgrow_cands(og, cur, mode, buggy=False, stats=None):
    """one addition step of subgraph.resize"""
    cur = set(cur)
    if buggy:
        comp = list(set(v for v in og.nodes if v not in cur))  # iteration order of `graph.nodes() - grow_nodes`
    else:
        comp = [v for v in og.nodes if v not in cur]
    degs = [og.deg_in(v, cur) for v in comp]
    mx = max(degs)
    P = [i for i, d in enumerate(degs) if d == mx]
    prim = [comp[i] for i in P]
    if mode == "uniform":
        _stat(stats, comp, prim, prim, False)
        return prim, len(prim)
    ws = [og.w[v] for v in prim]
    mw = max(ws)
    J = [j for j, x in enumerate(ws) if x == mw]
    if buggy:
        return [comp[j] for j in J], len(J)
    fin = [prim[j] for j in J]
    _stat(stats, comp, prim, fin, True)
    return fin, len(fin)


def grow_reach(og, seed, out, mode, sizes=None, stats=None):
    out = frozenset(out)
    dead = set()

    def rec(cur, d):
        cands, nc = grow_cands(og, cur, mode, stats)
        if not cands:
            return cur == out and (sizes is None or d == len(sizes))
        if (cur, d) in dead:
            return False
        if sizes is not None and (d >= len(sizes) or sizes[d] != nc):
            dead.add((cur, d))
            return False
        for v in cands:
            if v in out and rec(cur | {v}, d + 1):
                return True
        dead.add((cur, d))
        return False

    return rec(frozenset(seed), 0)


def swap_reach(og, seed, out, mode, sizes=None, stats=None):
    cur, out = frozenset(seed), frozenset(out)
    cands, nc = swap_cands(og, cur, mode, stats)
    if not cands:
        return cur == out and (sizes is None or len(sizes) == 0)
    if sizes is not None and sizes != [nc]:
        return False
    return any((cur - {u}) | {v} == out for u, v in cands)


def shrink_reach(og, order0, out, mode, sizes=None, buggy=False, stats=None):
    out = frozenset(out)
    dead = set()

    def rec(order, d):
        cur = frozenset(order)
        if og.is_clique(cur):
            return cur == out and (sizes is None or d == len(sizes))
        key = (order if buggy else cur, d)
        if key in dead:
            return False
        cands, nc = shrink_cands(og, order, mode, buggy, stats)
        if sizes is not None and (d >= len(sizes) or sizes[d] != nc):
            dead.add(key)
            return False
        for v in cands:
            if v not in out and rec(tuple(x for x in order if x != v), d + 1):
                return True
        dead.add(key)
        return False

    return rec(tuple(order0), 0)


def search_reach(og, seed, out, iterations, mode, stats=None):
    """clique.search: `iterations` rounds of (grow to a maximal clique, one swap); stops early when no swap exists"""
    out = frozenset(out)
    memo = {}

    def grow_results(cur):
        res, stack, seen = set(), [cur], set()
        while stack:
            c = stack.pop()
            if c in seen:
                continue
            seen.add(c)
            cands, _ = grow_cands(og, c, mode, stats)
            if not cands:
                res.add(c)
            else:
                stack.extend(c | {v} for v in cands)
        return res

    def rec(cur, it):
        key = (cur, it)
        if key in memo:
            return memo[key]
        memo[key] = False
        for G in grow_results(cur):
            pairs, _ = swap_cands(og, G, mode, stats)
            if not pairs:
                if G == out:
                    memo[key] = True
                    return True
                continue
            for u, v in pairs:
                S = (G - {u}) | {v}
                if (S == out) if it == 1 else rec(S, it - 1):
                    memo[key] = True
                    return True
        return False

    return rec(frozenset(seed), int(iterations))


def chain_reach(og, order0, targets, lo, hi, mode, direction, sizes=None, buggy=False, stats=None):
    """subgraph.resize: is there a chain of rule-conforming additions (direction=+1, up to size hi) or removals
    (direction=-1, down to size lo) from the start nodes that passes through targets[k] at every size k in lo..hi
    for which a target is given?"""
    end = hi if direction > 0 else lo
    final = targets[end]
    dead = set()

    def rec(order, d):
        cur = frozenset(order)
        k = len(cur)
        if k in targets and lo <= k <= hi and targets[k] != cur:
            return False
        if k == end:
            return sizes is None or d == len(sizes)
        key = (order if (buggy and direction < 0) else cur, d)
        if key in dead:
            return False
        if direction > 0:
            cands, nc = rgrow_cands(og, cur, mode, buggy, stats)
        else:
            cands, nc = shrink_cands(og, order, mode, buggy, stats)
        if sizes is not None and (d >= len(sizes) or sizes[d] != nc):
            dead.add(key)
            return False
        for v in cands:
            if direction > 0:
                if v in final and rec(order + (v,), d + 1):
                    return True
            else:
                if v not in final and rec(tuple(x for x in order if x != v), d + 1):
                    return True
        dead.add(key)
        return False

    return rec(tuple(order0), 0)


class ChoiceSpy:
    """pass-through wrapper around np.random.choice recording how many alternatives were offered"""

    def __enter__(self):
        self.sizes = []
        self.ps = []  # the `p` argument of every call (None = uniform)
        self.orig = np.random.choice
        spy = self

        def choice(a, *args, **kwargs):
            try:
                spy.sizes.append(int(a) if np.ndim(a) == 0 else len(a))
            except Exception:  # pylint: disable=broad-except
                spy.sizes.append(-1)
            p = kwargs.get("p", args[2] if len(args) > 2 else None)
            spy.ps.append(None if p is None else [float(x) for x in p])
            return spy.orig(a, *args, **kwargs)

        np.random.choice = choice
        return self

    def __exit__(self, *exc):
        np.random.choice = self.orig
        return False


# ---------------------------------------------------------------------------------------------
# graph checks
# ---------------------------------------------------------------------------------------------
def build(case):
    nodes = [int(v) for v in case["nodes"]]
    weights = case.get("weights")
    og = OG(nodes, case["edges"], weights)
    g = nx.Graph()
    g.add_nodes_from(nodes)
    ew = case.get("edge_w")
    if ew:
        # edges carrying a "weight" attribute (what nx.Graph(<weighted adjacency matrix>) produces): the documented
        # quantities (adjacency, degree = number of neighbours, density = 2E/(n(n-1))) do not depend on it
        for (a, b), x in zip(case["edges"], ew):
            g.add_edge(int(a), int(b), weight=x)
    else:
        g.add_edges_from((int(a), int(b)) for a, b in case["edges"])
    return og, g


def with_foreign(case, S):
    """S with the node case['foreign'] (not a node of the graph) inserted at case['foreign_pos']"""
    S = list(S)
    pos = min(int(case.get("foreign_pos", 0)), len(S))
    return S[:pos] + [int(case["foreign"])] + S[pos:]


def foreign_call(ctx, og, what, call, want_clique):
    """a node list naming a node that is not in the graph: the routines reject it with ValueError; whatever a routine does
    instead, it must not *return* node sets that are not subsets of the graph's nodes ("cliques of the input graph",
    "genuine node subsets").  Returns False after a failure."""
    try:
        res = call()
    except ValueError:
        ctx.label("foreign_node_rejected")
        return True
    except Exception:  # pylint: disable=broad-except
        ctx.label("foreign_node_other_exception")  # invalid input: any exception is a refusal
        return True
    sets = []
    if isinstance(res, dict):
        for v in res.values():
            if isinstance(v, list) and v and isinstance(v[0], tuple):
                sets.extend(ints(t[1]) for t in v)
            else:
                sets.append(ints(v))
    else:
        sets.append(ints(res))
    for nodes in sets:
        if not set(nodes) <= set(og.nodes) or (want_clique and not og.is_clique(nodes)):
            ctx.fail("%s.foreign_node_accepted" % what, "%s returned %s for an input naming a node that is not in the graph (nodes %s)" % (what, nodes, og.nodes))
            return False
    return True


def select_arg(case, mode):
    if mode != "weight":
        return mode
    w = list(case["weights"])
    return np.array(w) if case.get("w_array") else w


def ints(x):
    return [int(v) for v in x]


def graph_unchanged(og, g):
    return list(g.nodes) == og.nodes and all(set(g.neighbors(v)) == og.adj[v] for v in og.nodes)


def modes_of(case):
    ms = list(case.get("modes") or ["uniform", "degree", "weight"])
    if case.get("weights") is None:
        ms = [m for m in ms if m != "weight"]
    return ms


def stat_labels(stats):
    return [k for k in ("rule_excludes", "tie_primary", "weights_break_tie", "weights_with_tie") if stats.get(k)]


def do_clique_part(ctx, case, og, g, stats, labels):
    """is_clique, c_0, c_1, grow, swap, search on case['clique']; returns False after a (known) failure"""
    cl = _env()["clique"]
    C = ints(case["clique"])
    seed = int(case["np_seed"])
    iters = int(case.get("iterations", 2))
    # is_clique on the seed and on an arbitrary subset
    for S in (C, ints(case.get("sub", []))):
        if not S:
            continue
        try:
            got = cl.is_clique(g.subgraph(S))
        except Exception as exc:  # pylint: disable=broad-except
            ctx.crash(exc, "is_clique")
            return False
        if bool(got) != og.is_clique(S):
            ctx.fail("is_clique.wrong", "is_clique(subgraph %s) = %r, all-pairs-adjacent = %r" % (S, got, og.is_clique(S)))
            return False
    if not og.is_clique(C):
        # hand-written replay with a non-clique seed: the documented contract is ValueError
        for fn in (cl.grow, cl.swap, cl.c_0, cl.c_1):
            try:
                fn(list(C), g)
            except ValueError:
                continue
            ctx.fail("clique.nonclique_seed_accepted", "%s accepted the non-clique %s" % (fn.__name__, C))
            return False
        return True
    labels.append("clique_seed_size_%d" % min(len(C), 4))
    try:
        got0 = cl.c_0(list(C), g)
        got1 = cl.c_1(list(C), g)
    except ValueError as exc:
        if not C:
            labels.append("empty_seed_rejected")  # an empty seed (to_subgraphs of a sample without clicks) may be refused
            return True
        ctx.crash(exc, "c_0/c_1")
        return False
    except Exception as exc:  # pylint: disable=broad-except
        ctx.crash(exc, "c_0/c_1")
        return False
    if sorted(ints(got0)) != sorted(og.c0(C)) or len(got0) != len(set(ints(got0))):
        ctx.fail("c_0.wrong", "c_0(%s) = %s, definition gives %s" % (C, sorted(ints(got0)), sorted(og.c0(C))))
        return False
    if sorted((int(a), int(b)) for a, b in got1) != sorted(og.c1(C)):
        ctx.fail("c_1.wrong", "c_1(%s) = %s, definition gives %s" % (C, sorted((int(a), int(b)) for a, b in got1), sorted(og.c1(C))))
        return False
    if og.c0(C):
        labels.append("grow_possible")
    if og.c1(C):
        labels.append("swap_possible")

    for mode in modes_of(case):
        if mode == "degree":
            labels.append("degree_mode")
        sel = select_arg(case, mode)
        # ---- grow
        arg = list(C)
        np.random.seed(seed)
        try:
            with ChoiceSpy() as spy:
                out = cl.grow(arg, g, node_select=sel)
        except ValueError as exc:
            if not C:
                labels.append("empty_seed_rejected")
                return True
            ctx.crash(exc, "grow")
            return False
        except Exception as exc:  # pylint: disable=broad-except
            ctx.crash(exc, "grow")
            return False
        out = ints(out)
        if arg != C:
            ctx.fail("grow.mutates_input", "clique argument changed from %s to %s" % (C, arg))
            return False
        if len(set(out)) != len(out) or not set(out) <= set(og.nodes) or not og.is_clique(out):
            ctx.fail("grow.not_a_clique", "grow(%s, %s) = %s is not a clique of the graph" % (C, mode, out))
            return False
        if not set(C) <= set(out):
            ctx.fail("grow.lost_seed", "grow(%s, %s) = %s does not contain the seed" % (C, mode, out))
            return False
        if og.c0(out):
            ctx.fail("grow.not_maximal", "grow(%s, %s) = %s can still be grown by %s" % (C, mode, out, og.c0(out)))
            return False
        if out != sorted(out):
            ctx.fail("grow.unsorted", "grow result %s is not sorted (docstring examples)" % out)
            return False
        if not grow_reach(og, C, out, mode, spy.sizes, stats):
            if grow_reach(og, C, out, mode, None):
                ctx.fail("grow.tiebreak_candidates", "grow(%s, %s) = %s: alternatives offered to the RNG per step %s differ from the documented candidate sets" % (C, mode, out, spy.sizes))
            else:
                ctx.fail("grow.rule_violated", "grow(%s, %s) = %s is not reachable by adding %s nodes of C0 only" % (C, mode, out, {"uniform": "arbitrary", "degree": "max-degree", "weight": "max-weight"}[mode]))
            return False
        # ---- swap
        arg = list(C)
        np.random.seed(seed)
        try:
            with ChoiceSpy() as spy:
                out = cl.swap(arg, g, node_select=sel)
        except Exception as exc:  # pylint: disable=broad-except
            ctx.crash(exc, "swap")
            return False
        out = ints(out)
        if len(set(out)) != len(out) or not set(out) <= set(og.nodes) or not og.is_clique(out):
            ctx.fail("swap.not_a_clique", "swap(%s, %s) = %s is not a clique of the graph" % (C, mode, out))
            return False
        if len(out) != len(C):
            ctx.fail("swap.size_changed", "swap(%s, %s) = %s" % (C, mode, out))
            return False
        if not swap_reach(og, C, out, mode, spy.sizes, stats):
            if swap_reach(og, C, out, mode, None):
                ctx.fail("swap.tiebreak_candidates", "swap(%s, %s) = %s: RNG was offered %s alternatives, documented candidate set has %d" % (C, mode, out, spy.sizes, swap_cands(og, frozenset(C), mode)[1]))
            else:
                ctx.fail("swap.rule_violated", "swap(%s, %s) = %s; rule-conforming swaps: %s" % (C, mode, out, swap_cands(og, frozenset(C), mode)[0]))
            return False
        # ---- search
        np.random.seed(seed)
        try:
            out = cl.search(list(C), g, iters, node_select=sel)
        except Exception as exc:  # pylint: disable=broad-except
            ctx.crash(exc, "clique.search")
            return False
        out = ints(out)
        if len(set(out)) != len(out) or not set(out) <= set(og.nodes) or not og.is_clique(out):
            ctx.fail("clique_search.not_a_clique", "search(%s, iterations=%d, %s) = %s is not a clique of the graph" % (C, iters, mode, out))
            return False
        if len(out) < len(C):
            ctx.fail("clique_search.smaller_than_seed", "search(%s, iterations=%d, %s) = %s" % (C, iters, mode, out))
            return False
        if not search_reach(og, C, out, iters, mode, stats):
            ctx.fail("clique_search.rule_violated", "search(%s, iterations=%d, %s) = %s is not reachable by rule-conforming grow/swap rounds" % (C, iters, mode, out))
            return False
    if case.get("foreign") is not None:
        Cf = with_foreign(case, C)
        labels.append("foreign_node")
        for mode in modes_of(case):
            sel = select_arg(case, mode)
            for what, call in (("grow", lambda: cl.grow(list(Cf), g, node_select=sel)),
                               ("swap", lambda: cl.swap(list(Cf), g, node_select=sel)),
                               ("clique_search", lambda: cl.search(list(Cf), g, iters, node_select=sel))):
                np.random.seed(seed)
                if not foreign_call(ctx, og, what, call, True):
                    return False
    if not graph_unchanged(og, g):
        ctx.fail("clique.mutates_graph", "input graph changed")
        return False
    return True


def do_shrink_part(ctx, case, og, g, stats, labels):
    cl = _env()["clique"]
    S = ints(case["sub"])
    seed = int(case["np_seed"])
    if not og.is_clique(S):
        labels.append("shrink_needed")
    if not S:
        labels.append("shrink_empty_subgraph")
    for mode in modes_of(case):
        if mode == "degree":
            continue  # documented for uniform / weights only
        sel = select_arg(case, mode)
        if case.get("foreign") is not None:
            Sf = with_foreign(case, S)
            np.random.seed(seed)
            if not foreign_call(ctx, og, "shrink", lambda: cl.shrink(list(Sf), g, node_select=sel), True):
                return False
        arg = list(S)
        np.random.seed(seed)
        try:
            with ChoiceSpy() as spy:
                out = cl.shrink(arg, g, node_select=sel)
        except Exception as exc:  # pylint: disable=broad-except
            ctx.crash(exc, "shrink")
            return False
        out = ints(out)
        if arg != S:
            ctx.fail("shrink.mutates_input", "subgraph argument changed from %s to %s" % (S, arg))
            return False
        if len(set(out)) != len(out) or not set(out) <= set(S):
            ctx.fail("shrink.not_a_subset", "shrink(%s, %s) = %s" % (S, mode, out))
            return False
        if not og.is_clique(out) or (S and not out):
            ctx.fail("shrink.not_a_clique", "shrink(%s, %s) = %s is not a clique of the graph" % (S, mode, out))
            return False
        if out != sorted(out):
            ctx.fail("shrink.unsorted", "shrink result %s is not sorted (docstring examples)" % out)
            return False
        order = [v for v in og.nodes if v in set(S)]
        if not shrink_reach(og, order, out, mode, spy.sizes, False, stats):
            det = "shrink(%s, %s%s) = %s" % (S, mode, "" if mode != "weight" else " %s" % dict(og.w), out)
            if mode == "weight" and shrink_reach(og, list(g.subgraph(S).copy().nodes()), out, mode, spy.sizes, True):
                ctx.fail("F22.weight_index.shrink", det + " is not reachable by removing min-degree/min-weight nodes (RNG alternatives per step %s); it is what indexing the full degree array with a position of the min-degree sub-array gives" % spy.sizes)
            elif shrink_reach(og, order, out, mode, None):
                ctx.fail("shrink.tiebreak_candidates", det + ": alternatives offered to the RNG per step %s differ from the documented candidate sets" % spy.sizes)
            else:
                ctx.fail("shrink.rule_violated", det + " is not reachable by removing min-degree%s nodes only" % ("/min-weight" if mode == "weight" else ""))
            return False
    if not graph_unchanged(og, g):
        ctx.fail("shrink.mutates_graph", "input graph changed")
        return False
    return True


def do_resize_part(ctx, case, og, g, stats, labels):
    sg = _env()["subgraph"]
    S = ints(case["sub"])
    lo, hi = int(case["min_size"]), int(case["max_size"])
    seed = int(case["np_seed"])
    n0 = len(S)
    ngrow, nshrink = max(0, hi - n0), max(0, n0 - lo)
    if ngrow:
        labels.append("grow_needed")
    if nshrink:
        labels.append("resize_shrink_needed")
    if n0 > hi + 1 or n0 < lo - 1:
        labels.append("resize_hidden_steps")
    for mode in modes_of(case):
        if mode == "degree":
            continue
        sel = select_arg(case, mode)
        if case.get("foreign") is not None:
            Sf = with_foreign(case, S)
            labels.append("foreign_node")
            np.random.seed(seed)
            if not foreign_call(ctx, og, "resize", lambda: sg.resize(list(Sf), g, lo, hi, node_select=sel), False):
                return False
            np.random.seed(seed)
            if not foreign_call(ctx, og, "subgraph_search", lambda: sg.search([list(S), list(Sf)], g, lo, hi, max_count=3, node_select=sel), False):
                return False
        arg = list(S)
        np.random.seed(seed)
        try:
            with ChoiceSpy() as spy:
                res = sg.resize(arg, g, lo, hi, node_select=sel)
        except Exception as exc:  # pylint: disable=broad-except
            ctx.crash(exc, "resize")
            return False
        if arg != S:
            ctx.fail("resize.mutates_input", "subgraph argument changed from %s to %s" % (S, arg))
            return False
        if not isinstance(res, dict) or sorted(int(k) for k in res) != list(range(lo, hi + 1)):
            ctx.fail("resize.sizes", "resize(%s, %d, %d, %s) has keys %s" % (S, lo, hi, mode, sorted(res) if isinstance(res, dict) else type(res)))
            return False
        tg = {}
        for k, nodes in res.items():
            nodes = ints(nodes)
            if len(nodes) != int(k) or len(set(nodes)) != len(nodes) or not set(nodes) <= set(og.nodes):
                ctx.fail("resize.not_a_subset_of_size", "resize(%s, %d, %d, %s)[%d] = %s" % (S, lo, hi, mode, k, nodes))
                return False
            if nodes != sorted(nodes):
                ctx.fail("resize.unsorted", "resize(...)[%d] = %s is not sorted (docstring example)" % (k, nodes))
                return False
            tg[int(k)] = frozenset(nodes)
        for k in range(lo, hi):
            if not tg[k] < tg[k + 1]:
                ctx.fail("resize.not_nested", "resize(%s, %d, %d, %s): size %d %s is not contained in size %d %s" % (S, lo, hi, mode, k, sorted(tg[k]), k + 1, sorted(tg[k + 1])))
                return False
        if lo <= n0 <= hi and tg[n0] != frozenset(S):
            ctx.fail("resize.start_changed", "resize(%s, %d, %d, %s)[%d] = %s" % (S, lo, hi, mode, n0, sorted(tg[n0])))
            return False
        order = [v for v in og.nodes if v in set(S)]
        det = "resize(%s, %d, %d, %s%s) = %s" % (S, lo, hi, mode, "" if mode != "weight" else " %s" % dict(og.w), {k: sorted(v) for k, v in sorted(tg.items())})
        if ngrow and not chain_reach(og, order, tg, lo, hi, mode, +1, spy.sizes[:ngrow], False, stats):
            if mode == "weight" and chain_reach(og, order, tg, lo, hi, mode, +1, spy.sizes[:ngrow], True):
                ctx.fail("F22.weight_index.resize_grow", det + ": growth is not reachable by adding max-degree/max-weight nodes (RNG alternatives per step %s); it is what indexing the full degree array with a position of the max-degree sub-array gives" % spy.sizes[:ngrow])
            elif chain_reach(og, order, tg, lo, hi, mode, +1, None):
                ctx.fail("resize_grow.tiebreak_candidates", det + ": alternatives offered to the RNG per step %s differ from the documented candidate sets" % spy.sizes[:ngrow])
            else:
                ctx.fail("resize_grow.rule_violated", det + ": growth is not reachable by adding nodes of max degree towards the subgraph%s" % (" and max weight" if mode == "weight" else ""))
            return False
        if nshrink and not chain_reach(og, order, tg, lo, hi, mode, -1, spy.sizes[ngrow:], False, stats):
            if mode == "weight" and chain_reach(og, list(g.subgraph(set(S)).copy().nodes()), tg, lo, hi, mode, -1, spy.sizes[ngrow:], True):
                ctx.fail("F22.weight_index.resize_shrink", det + ": shrinking is not reachable by removing min-degree/min-weight nodes (RNG alternatives per step %s); it is what indexing the full degree array with a position of the min-degree sub-array gives" % spy.sizes[ngrow:])
            elif chain_reach(og, order, tg, lo, hi, mode, -1, None):
                ctx.fail("resize_shrink.tiebreak_candidates", det + ": alternatives offered to the RNG per step %s differ from the documented candidate sets" % spy.sizes[ngrow:])
            else:
                ctx.fail("resize_shrink.rule_violated", det + ": shrinking is not reachable by removing nodes of min degree inside the subgraph%s" % (" and min weight" if mode == "weight" else ""))
            return False
    if not graph_unchanged(og, g):
        ctx.fail("resize.mutates_graph", "input graph changed")
        return False
    return True


def density(og, nodes):
    k = len(nodes)
    return 2.0 * og.nedges(nodes) / (k * (k - 1))


def do_search_part(ctx, case, og, g, stats, labels):
    sg = _env()["subgraph"]
    subs = [ints(s) for s in case["subgraphs"]]
    lo, hi, mc = int(case["min_size"]), int(case["max_size"]), int(case["max_count"])
    seed = int(case["np_seed"])
    for mode in modes_of(case):
        if mode == "degree":
            continue
        sel = select_arg(case, mode)
        np.random.seed(seed)
        try:
            res = sg.search([list(s) for s in subs], g, lo, hi, max_count=mc, node_select=sel)
        except Exception as exc:  # pylint: disable=broad-except
            ctx.crash(exc, "subgraph.search")
            return False
        want_keys = list(range(lo, hi + 1)) if subs else []
        if not isinstance(res, dict) or sorted(int(k) for k in res) != want_keys:
            ctx.fail("subgraph_search.sizes", "search(%s, %d, %d) has keys %s" % (subs, lo, hi, sorted(res) if isinstance(res, dict) else type(res)))
            return False
        for k, lst in res.items():
            k = int(k)
            call = "search(%s, %d, %d, max_count=%d, %s)[%d]" % (subs, lo, hi, mc, mode, k)
            if not 1 <= len(lst) <= mc:
                ctx.fail("subgraph_search.count", "%s has %d entries" % (call, len(lst)))
                return False
            seen = set()
            dens = []
            for ent in lst:
                d, nodes = ent[0], ints(ent[1])
                if len(nodes) != k or len(set(nodes)) != k or not set(nodes) <= set(og.nodes):
                    ctx.fail("subgraph_search.not_a_subset_of_size", "%s holds %s" % (call, nodes))
                    return False
                if frozenset(nodes) in seen:
                    ctx.fail("subgraph_search.duplicate", "%s holds %s twice" % (call, sorted(nodes)))
                    return False
                seen.add(frozenset(nodes))
                if k >= 2 and not abs(float(d) - density(og, nodes)) <= DENS_TOL:
                    ctx.fail("subgraph_search.density", "%s reports density %r for %s, 2E/(n(n-1)) = %r" % (call, d, nodes, density(og, nodes)))
                    return False
                dens.append(float(d))
                # the entry must be a rule-conforming resize of one of the start subgraphs
                fs = frozenset(nodes)
                ok = False
                for s in subs:
                    order = [v for v in og.nodes if v in set(s)]
                    if len(s) == k:
                        ok = frozenset(s) == fs
                    else:
                        ok = chain_reach(og, order, {k: fs}, k, k, mode, +1 if len(s) < k else -1, None, False, stats)
                    if ok:
                        break
                if not ok:
                    bug = None
                    if mode == "weight":
                        for s in subs:
                            if len(s) < k and chain_reach(og, [v for v in og.nodes if v in set(s)], {k: fs}, k, k, mode, +1, None, True):
                                bug = "resize_grow"
                            elif len(s) > k and chain_reach(og, list(g.subgraph(set(s)).copy().nodes()), {k: fs}, k, k, mode, -1, None, True):
                                bug = "resize_shrink"
                            if bug:
                                break
                    ctx.fail("F22.weight_index." + bug if bug else "subgraph_search.entry_not_a_resize",
                             "%s holds %s which is not a rule-conforming resize of any start subgraph%s" % (call, sorted(nodes), " (weights %s)" % dict(og.w) if mode == "weight" else ""))
                    return False
            if any(dens[i] < dens[i + 1] for i in range(len(dens) - 1)):
                ctx.fail("subgraph_search.not_sorted", "%s densities %s are not non-increasing" % (call, dens))
                return False
            # start subgraphs of size k are themselves candidates: the j-th best kept >= j-th best of those
            mine = sorted((density(og, s) if k >= 2 else 0.0 for s in {frozenset(s) for s in subs if len(set(s)) == k}), reverse=True)
            need = min(mc, len(mine))
            if need:
                labels.append("search_has_start_of_size")
            if len(dens) < need or (k >= 2 and any(dens[j] < mine[j] - DENS_TOL for j in range(need))):
                ctx.fail("subgraph_search.densest_not_kept", "%s densities %s, but the start subgraphs of that size alone have densities %s" % (call, dens, mine))
                return False
    if not graph_unchanged(og, g):
        ctx.fail("subgraph_search.mutates_graph", "input graph changed")
        return False
    return True


def check_graph(ctx, case):
    """runs the parts named in case['parts'] on one graph"""
    og, g = build(case)
    stats, labels = {}, []
    parts = case.get("parts") or ["clique", "shrink", "resize", "search"]
    if case.get("weights") is not None:
        labels.append("weight_mode")
        if case.get("w_array"):
            labels.append("weights_as_array")
    if og.nodes != list(range(len(og.nodes))):
        labels.append("noncontiguous_labels")
    if case.get("edge_w"):
        labels.append("edge_attr_weight")
    if case.get("weights") is not None and min(case["weights"]) <= 0:
        labels.append("weights_zero_or_negative")
    # classification needs the oracle's own exploration, so the case is noted after the parts ran
    try:
        ok = True
        if ok and "clique" in parts:
            ok = do_clique_part(ctx, case, og, g, stats, labels)
        if ok and "shrink" in parts:
            ok = do_shrink_part(ctx, case, og, g, stats, labels)
        if ok and "resize" in parts and len(og.nodes) >= 2:
            ok = do_resize_part(ctx, case, og, g, stats, labels)
        if ok and "search" in parts and len(og.nodes) >= 2:
            ok = do_search_part(ctx, case, og, g, stats, labels)
    finally:
        ctx.note(case, nontrivial=bool(stats.get("choice")), labels=sorted(set(labels + stat_labels(stats))))
    return None


# =============================================================================================
# sample.py helpers and sampling feature vectors
# =============================================================================================
def check_sample(ctx, case):
    e = _env()
    smod, sim = e["sample"], e["sim"]
    samples = [ints(s) for s in case["samples"]]
    M = len(samples[0])
    lo, hi = int(case["min_count"]), int(case["max_count"])
    totals = [sum(s) for s in samples]
    labels = ["sample_helpers"]
    nodes = ints(case["nodes"])
    if nodes != list(range(M)):
        labels.append("to_subgraphs_relabelled")
    if any(x > 1 for s in samples for x in s):
        labels.append("pnr_counts")
    if any(c > 0 for s in samples for c in s[10:]) and any(c > 0 for s in samples for c in s[2:10]):
        labels.append("sample_click_in_mode_ge_10")
    ctx.note(case, nontrivial=len(set(totals)) >= 2, labels=labels)

    arg = [list(s) for s in samples]
    got = smod.postselect(arg, lo, hi)
    want = [s for s in samples if lo <= sum(s) <= hi]
    if [ints(s) for s in got] != want:
        return ctx.fail("postselect.wrong", "postselect(%s, %d, %d) = %s, want %s" % (samples, lo, hi, got, want))
    if arg != samples:
        return ctx.fail("postselect.mutates_input", "samples changed")
    for s in samples:
        want = [i for i, c in enumerate(s) for _ in range(c)]
        got = smod.modes_from_counts(list(s))
        if ints(got) != want:
            return ctx.fail("modes_from_counts.wrong", "modes_from_counts(%s) = %s, want %s" % (s, got, want))
    g = nx.Graph()
    g.add_nodes_from(nodes)
    g.add_edges_from((int(a), int(b)) for a, b in case["edges"])
    try:
        got = smod.to_subgraphs([list(s) for s in samples], g)
    except Exception as exc:  # pylint: disable=broad-except
        return ctx.crash(exc, "to_subgraphs")
    want = [sorted(nodes[i] for i, c in enumerate(s) if c > 0) for s in samples]
    if len(got) != len(want) or any(sorted(ints(a)) != b or len(a) != len(b) for a, b in zip(got, want)):
        return ctx.fail("to_subgraphs.wrong", "to_subgraphs(%s, nodes %s) = %s, want (as sets) %s" % (samples, nodes, got, want))
    # seed
    v = int(case["np_seed"])
    smod.seed(v)
    a = np.random.randint(0, 2 ** 31 - 1, size=4).tolist()
    np.random.seed(v)
    b = np.random.randint(0, 2 ** 31 - 1, size=4).tolist()
    if a != b:
        return ctx.fail("seed.not_numpy_seed", "sample.seed(%d) does not reproduce np.random.seed(%d)" % (v, v))
    # sampling feature vectors
    orbs = [ints(o) for o in case["orbits"]]
    N = len(samples)
    own = [sorted([x for x in s if x], reverse=True) for s in samples]
    want = [sum(1 for o in own if o == q) / N for q in orbs]
    try:
        got = sim.feature_vector_orbits_sampling([list(s) for s in samples], [list(o) for o in orbs])
    except Exception as exc:  # pylint: disable=broad-except
        return ctx.crash(exc, "feature_vector_orbits_sampling")
    if [float(x) for x in got] != want:
        return ctx.fail("feature_vector_orbits_sampling.wrong", "samples %s, orbits %s: %s, want %s" % (samples, orbs, got, want))
    if any(x > 0 for x in want):
        ctx.label("feature_orbit_hit")
    evs = ints(case["events"])
    nmax = int(case["nmax"])
    want = [sum(1 for s in samples if max(s) <= nmax and sum(s) == k) / N for k in evs]
    try:
        got = sim.feature_vector_events_sampling([list(s) for s in samples], list(evs), nmax)
    except Exception as exc:  # pylint: disable=broad-except
        return ctx.crash(exc, "feature_vector_events_sampling")
    if [float(x) for x in got] != want:
        return ctx.fail("feature_vector_events_sampling.wrong", "samples %s, events %s, max_count %d: %s, want %s" % (samples, evs, nmax, got, want))
    if any(x > 0 for x in want):
        ctx.label("feature_event_hit")
    return None


# =============================================================================================
# self-test of the oracles
# =============================================================================================
def selftest():
    assert [list(p) for p in partitions(4)] == [[4], [3, 1], [2, 2], [2, 1, 1], [1, 1, 1, 1]]
    assert [len(list(partitions(k))) for k in (1, 5, 10, 20)] == [1, 7, 42, 627]
    assert [npartitions(k) for k in (0, 1, 5, 10, 30, 40)] == [1, 1, 7, 42, 5604, 37338]
    assert multinomial([2, 1, 1], 4) == 12 and multinomial([2, 1, 1], 3) == 3 and multinomial([2, 1, 1], 2) == 0
    assert multinomial([1], 300) == 300 and multinomial([1, 1], 25) == 300 and multinomial([], 7) == 1
    assert event_count_closed(2, 2, 3) == 6 and event_count_closed(4, 4, 2) == 5 and event_count_closed(3, 2, 1) == 0
    assert event_count_closed(0, 0, 5) == 1 and event_count_closed(3, 0, 5) == 0 and event_count_closed(5, 1, 5) == 1
    for k in range(0, 8):
        for nmax in range(0, k + 2):
            for m in range(1, 6):
                a, b, c = event_count_closed(k, nmax, m), event_count_orbits(k, nmax, m), event_count_bf(k, nmax, m)
                assert a == b == c, (k, nmax, m, a, b, c)
    assert event_count_closed(30, 3, 200) == event_count_orbits(30, 3, 200)
    assert long_orbit_prediction(4, 4, 2) == 6 and long_orbit_prediction(4, 4, 6) == event_count_closed(4, 4, 6)
    assert as_exact_int(300.0) == 300 and as_exact_int(299.5) is None and as_exact_int(np.int64(7)) == 7
    assert arrangements([1, 1, 0]) == [(0, 1, 1), (1, 0, 1), (1, 1, 0)] and len(arrangements([2, 1, 0, 0])) == 12 == multinomial([2, 1], 4)
    assert [4, 2, 3] in TINY_EVENTS and [[2, 1], 3] in TINY_ORBITS and all(2 <= event_count_bf(*e) <= SUPPORT_MAX for e in TINY_EVENTS)
    assert SUPPORT_MAX * (1 - 1 / SUPPORT_MAX) ** SUPPORT_DRAWS < 1e-13

    # docstring examples of clique.py typed by hand
    K10 = OG(range(10), itertools.combinations(range(10), 2))
    assert K10.c0([0, 1, 2, 3, 4]) == [5, 6, 7, 8, 9] and K10.is_clique(range(10))
    wheel = OG(range(5), [(0, 1), (0, 2), (0, 3), (0, 4), (1, 2), (2, 3), (3, 4), (4, 1)])
    assert sorted(wheel.c1([0, 1, 2])) == [(1, 3), (2, 4)] and not wheel.is_clique([1, 2, 3])
    wheel.adj[0].discard(4)
    wheel.adj[4].discard(0)
    assert swap_reach(wheel, [0, 1, 2], [0, 2, 3], "uniform") and not swap_reach(wheel, [0, 1, 2], [0, 1, 4], "uniform")
    bar = OG(range(8), list(itertools.combinations(range(4), 2)) + list(itertools.combinations(range(4, 8), 2)) + [(3, 4)])
    assert shrink_reach(bar, range(6), [0, 1, 2, 3], "uniform", [1, 1])
    assert not shrink_reach(bar, range(6), [0, 1, 2], "uniform") and not shrink_reach(bar, range(6), [0, 1, 2, 3], "uniform", [1, 2])
    lol = OG(range(5), list(itertools.combinations(range(4), 2)) + [(3, 4), (2, 4)])
    assert search_reach(lol, [3, 4], [0, 1, 2, 3], 10, "uniform") and not search_reach(lol, [3, 4], [2, 3, 4], 1, "uniform")
    # grow: star with weighted leaves, and a degree rule
    star = OG([0, 1, 2, 3], [(0, 1), (0, 2), (0, 3)], [9, 1, 5, 5])
    assert grow_reach(star, [0], [0, 2], "weight", [2]) and grow_reach(star, [0], [0, 3], "weight")
    assert not grow_reach(star, [0], [0, 1], "weight") and grow_reach(star, [0], [0, 1], "uniform", [3])
    assert not grow_reach(star, [0], [0], "uniform") and not grow_reach(star, [0], [0, 2], "weight", [3])
    paw = OG([0, 1, 2, 3], [(0, 1), (0, 2), (2, 3)])
    assert grow_reach(paw, [0], [0, 2], "degree", [1]) and not grow_reach(paw, [0], [0, 1], "degree")
    # F22 emulation on the smallest example: nodes 1 and 2 have minimum degree, node 2 is the lighter one
    vee = OG([0, 1, 2], [(0, 1), (0, 2)], [1, 2, 1])
    assert shrink_reach(vee, [0, 1, 2], [0, 1], "weight", [1]) and not shrink_reach(vee, [0, 1, 2], [0, 2], "weight")
    assert shrink_reach(vee, [0, 1, 2], [0, 2], "weight", None, True) and not shrink_reach(vee, [0, 1, 2], [0, 1], "weight", None, True)
    # resize chains on a path 0-1-2-3: from {1} growth must take a neighbour; with weights the heavier one
    path = OG([0, 1, 2, 3], [(0, 1), (1, 2), (2, 3)], [1, 1, 7, 1])
    fs = frozenset
    assert chain_reach(path, [1], {2: fs([1, 2])}, 2, 2, "weight", +1, [1]) and not chain_reach(path, [1], {2: fs([0, 1])}, 2, 2, "weight", +1)
    assert chain_reach(path, [1], {2: fs([0, 1])}, 2, 2, "uniform", +1, [2]) and not chain_reach(path, [1], {2: fs([1, 3])}, 2, 2, "uniform", +1)
    assert chain_reach(path, [1], {3: fs([0, 1, 2])}, 3, 3, "uniform", +1) and not chain_reach(path, [1], {3: fs([0, 1, 3])}, 3, 3, "uniform", +1)
    assert chain_reach(path, [0, 1, 2, 3], {2: fs([1, 2])}, 2, 2, "uniform", -1) and not chain_reach(path, [0, 1, 2, 3], {2: fs([0, 3])}, 2, 2, "uniform", -1)
    assert chain_reach(path, [0, 1, 2, 3], {3: fs([1, 2, 3]), 2: fs([1, 2])}, 2, 3, "weight", -1, [2, 2])
    assert not chain_reach(path, [0, 1, 2, 3], {3: fs([1, 2, 3]), 2: fs([1, 2])}, 2, 3, "weight", -1, [2, 1])
    assert not chain_reach(path, [0, 1, 2, 3], {3: fs([1, 2, 3]), 2: fs([1, 3])}, 2, 3, "weight", -1)
    assert abs(density(path, [0, 1, 2]) - 2 / 3) < 1e-15 and density(K10, range(10)) == 1.0


# =============================================================================================
# generators
# =============================================================================================
SPECIAL_MODES = [64, 100, 170, 171, 172, 200, 256, 300]


def enum_orbits(ctx):
    for k in range(1, 31):
        yield {"k": k}


def enum_cardinality(ctx):
    kmax = 10 if ctx.tier == "quick" else 16
    ctx.info["max_photons"] = kmax
    for k in range(1, kmax + 1):
        for o in partitions(k):
            for m in list(range(len(o), 61)) + SPECIAL_MODES:
                yield {"orbit": list(o), "modes": m}


ENUM_LABELS = [3, 0, 8, 5, 1]


QUICK_W5 = [[1, 2, 1, 2, 1], [2, 1, 1, 2, 2]]


def enum_graphs(ctx):
    """quick: all graphs on <= 4 nodes with every weight vector in {1,2}^n, all graphs on 5 nodes with two weight
    vectors; thorough: every weight vector in {1,2}^5 as well"""
    ctx.info["max_nodes"] = 5
    ctx.info["all_weight_vectors_up_to_nodes"] = 4 if ctx.tier == "quick" else 5
    for n in range(1, 6):
        nodes = ENUM_LABELS[:n]
        pairs = list(itertools.combinations(range(n), 2))
        wvs = [list(w) for w in itertools.product([1, 2], repeat=n)]
        if n == 5 and ctx.tier == "quick":
            wvs = QUICK_W5
        for mask in range(2 ** len(pairs)):
            edges = [[nodes[a], nodes[b]] for i, (a, b) in enumerate(pairs) if mask >> i & 1]
            for sub in range(1, 2 ** n):
                S = [nodes[i] for i in range(n) if sub >> i & 1]
                base = {"nodes": nodes, "edges": edges, "sub": S, "clique": S, "iterations": 2, "np_seed": 7 * mask + sub,
                        "min_size": 1, "max_size": max(1, n - 1), "parts": ["clique", "shrink", "resize"]}
                yield dict(base, weights=None, modes=["uniform", "degree"])
                for w in wvs:
                    yield dict(base, weights=w, modes=["weight"])


@st.composite
def orbit_strategy(draw, max_len=12, max_part=8):
    return sorted(draw(st.lists(st.integers(1, max_part), min_size=1, max_size=max_len)), reverse=True)


@st.composite
def cardinality_case(draw):
    orbit = draw(orbit_strategy())
    extra = draw(st.one_of(st.integers(0, 30), st.integers(0, 60), st.integers(0, 300 - len(orbit)), st.integers(0, 300 - len(orbit))))
    if draw(st.integers(0, 11)) == 0:
        extra = draw(st.integers(-3, -1))  # fewer modes than orbit entries: count 0 (or a ValueError)
    return {"orbit": orbit, "modes": max(0, len(orbit) + extra)}


def _tiny_tables():
    """events and orbits with 2..SUPPORT_MAX samples (the support of the sampler is checked on them)"""
    ev, ob = [], []
    for k in range(1, 9):
        for nmax in range(1, k + 1):
            for m in range(1, 7):
                if 2 <= event_count_closed(k, nmax, m) <= SUPPORT_MAX:
                    ev.append([k, nmax, m])
    for k in range(1, 7):
        for o in partitions(k):
            for om in range(len(o), 13):
                if 2 <= multinomial(o, om) <= SUPPORT_MAX and (len(o) >= 2 or om <= 4):
                    ob.append([list(o), om])
    return ev, ob


TINY_EVENTS, TINY_ORBITS = _tiny_tables()


@st.composite
def similarity_case(draw, tier):
    kmax = 22 if tier == "quick" else 32
    sample = draw(st.lists(st.integers(0, 5), min_size=1, max_size=10))
    if draw(st.integers(0, 3)) == 0:
        # a small event and a small orbit: repeated draws must produce every one of their samples
        k, nmax, modes = draw(st.sampled_from(TINY_EVENTS))
        orbit, om = draw(st.sampled_from(TINY_ORBITS))
        return {"k": k, "nmax": nmax, "modes": modes, "np_seed": draw(st.integers(0, 2 ** 32 - 1)), "orbit": list(orbit),
                "orbit_modes": om, "sample": sample, "sample_nmax": draw(st.integers(0, 5)), "draws": SUPPORT_DRAWS}
    k = draw(st.one_of(st.integers(0, 10), st.integers(0, kmax)))
    nmax = draw(st.one_of(st.integers(0, k + 1), st.integers(1, 3)))
    modes = draw(st.one_of(st.integers(1, 6), st.integers(1, 40), st.integers(1, 300)))
    orbit = draw(orbit_strategy(8, 6))
    om = max(0, len(orbit) + draw(st.one_of(st.integers(0, 12), st.integers(-2, 0))))
    return {"k": k, "nmax": nmax, "modes": modes, "np_seed": draw(st.integers(0, 2 ** 32 - 1)), "orbit": orbit,
            "orbit_modes": om, "sample": sample, "sample_nmax": draw(st.integers(0, 5))}


@st.composite
def graph_base(draw, nmin=2, nmax=9):
    n = draw(st.integers(nmin, nmax))
    if draw(st.booleans()):
        nodes = list(range(n))
    else:
        nodes = draw(st.lists(st.integers(0, 30), min_size=n, max_size=n, unique=True))
    pairs = list(itertools.combinations(range(n), 2))
    bias = draw(st.integers(1, 3))
    bits = draw(st.lists(st.integers(0, 3), min_size=len(pairs), max_size=len(pairs)))
    edges = [[nodes[a], nodes[b]] for (a, b), x in zip(pairs, bits) if x < bias]
    # "real node weights": the last pool has a zero (as in the waw_matrix docstring) and a negative weight
    pool = draw(st.sampled_from([[1, 2], [1, 2, 3], [0.5, 1.0, 2.5], [1, 2, 3, 4, 5], [-1.5, 0, 2]]))
    weights = draw(st.lists(st.sampled_from(pool), min_size=n, max_size=n))
    case = {"nodes": nodes, "edges": edges, "weights": weights, "w_array": draw(st.booleans()),
            "np_seed": draw(st.integers(0, 2 ** 32 - 1))}
    if draw(st.integers(0, 2)) == 0:
        # a graph whose edges carry a "weight" attribute, as nx.Graph(<weighted adjacency matrix>) gives
        case["edge_w"] = draw(st.lists(st.sampled_from([2.0, 0.5, 3, 0.25]), min_size=len(edges), max_size=len(edges)))
    if draw(st.integers(0, 4)) == 0:
        # the node lists are also tried with one node that is not in the graph (just beyond the labels, -1, far away)
        case["foreign"] = draw(st.sampled_from([max(nodes) + 1, -1, 37]))
        case["foreign_pos"] = draw(st.integers(0, n))
    return case


def _subset(draw, nodes, lo, hi):
    perm = draw(st.permutations(nodes))
    return list(perm[:draw(st.integers(lo, hi))])


@st.composite
def clique_case(draw):
    case = draw(graph_base(1, 9))
    nodes = case["nodes"]
    adj = OG(nodes, case["edges"]).adj
    perm = draw(st.permutations(nodes))
    # about one seed / subgraph in ten is empty: to_subgraphs maps a sample without clicks to []
    target = 0 if draw(st.integers(0, 9)) == 0 else draw(st.integers(1, len(nodes)))
    C = []
    for v in perm:
        if len(C) < target and all(v in adj[u] for u in C):
            C.append(v)
    sub = [] if draw(st.integers(0, 9)) == 0 else _subset(draw, nodes, 1, len(nodes))
    case.update(clique=C, sub=sub, iterations=draw(st.integers(1, 4)), parts=["clique", "shrink"])
    return case


@st.composite
def resize_case(draw):
    case = draw(graph_base(2, 9))
    nodes = case["nodes"]
    n = len(nodes)
    lo = draw(st.integers(1, n - 1))
    hi = draw(st.integers(lo, n - 1))
    sub = _subset(draw, nodes, draw(st.sampled_from([0, 1, 1, 1])), n)
    k = draw(st.integers(1, 4))
    subs = [_subset(draw, nodes, 0 if n > 2 and draw(st.integers(0, 9)) == 0 else 1, n) for _ in range(k)]
    if draw(st.integers(0, 3)) == 0:
        subs.append(list(subs[0]))  # a repeated start subgraph
    case.update(sub=sub, min_size=lo, max_size=hi, subgraphs=subs, max_count=draw(st.integers(1, 4)), parts=["resize", "search"])
    return case


@st.composite
def sample_case(draw):
    # a third of the cases has 11..16 modes: mode indices / node positions with two digits
    M = draw(st.one_of(st.integers(1, 8), st.integers(1, 8), st.integers(11, 16)))
    top = draw(st.sampled_from([1, 1, 2, 4]))
    samples = draw(st.lists(st.lists(st.integers(0, top), min_size=M, max_size=M), min_size=1, max_size=8))
    if draw(st.booleans()):
        nodes = list(range(M))
    else:
        nodes = draw(st.lists(st.integers(0, 40), min_size=M, max_size=M, unique=True))
    pairs = list(itertools.combinations(range(M), 2))
    bits = draw(st.lists(st.booleans(), min_size=len(pairs), max_size=len(pairs)))
    edges = [[nodes[a], nodes[b]] for (a, b), x in zip(pairs, bits) if x]
    lo = draw(st.integers(0, M * top))
    hi = draw(st.integers(lo, M * top + 1))
    own = [sorted([x for x in s if x], reverse=True) for s in samples]
    pool = [o for o in own if o] or [[1]]
    orbs = draw(st.lists(st.one_of(st.sampled_from(pool), orbit_strategy(4, 3)), min_size=1, max_size=4))
    evs = draw(st.lists(st.one_of(st.sampled_from([sum(s) for s in samples]), st.integers(0, 10)), min_size=1, max_size=4))
    return {"samples": samples, "nodes": nodes, "edges": edges, "min_count": lo, "max_count": hi, "orbits": orbs,
            "events": evs, "nmax": draw(st.integers(0, top + 1)), "np_seed": draw(st.integers(0, 2 ** 32 - 1))}


SUBS = [
    Sub("orbits_enum", check=check_orbits, enumerate=enum_orbits, exhaustive=True,
        shards={"quick": 1, "thorough": 2},
        rule="orbits(k) for every photon number k = 1..30 against a recursive partition generator and Euler's p(k)"),
    Sub("cardinality_enum", check=check_cardinality, enumerate=enum_cardinality, exhaustive=True,
        shards={"quick": 1, "thorough": 4},
        rule="orbit_cardinality for every orbit of <= 10 (quick) / 16 (thorough) photons x every mode count from its length to 60 plus 64,100,170,171,172,200,256,300"),
    Sub("cardinality_hyp", check=check_cardinality, strategy=lambda ctx: cardinality_case(),
        examples={"quick": 3000, "thorough": 12000}, shards={"quick": 1, "thorough": 8},
        rule="Hypothesis: orbits of 1..12 parts (each <= 8) on up to 300 modes, a few with fewer modes than parts"),
    Sub("similarity_hyp", check=check_similarity, strategy=lambda ctx: similarity_case(ctx.tier),
        examples={"quick": 1000, "thorough": 5000}, shards={"quick": 2, "thorough": 16},
        rule="Hypothesis: events (k, max_count_per_mode, modes) incl. k = 0, empty events and modes < k; orbit_to_sample / event_to_sample round trips; orbit probabilities offered to the RNG; support of the samplers on events / orbits of 2..12 samples (400 draws); conversions of arbitrary samples"),
    Sub("graphs_enum", check=check_graph, enumerate=enum_graphs, exhaustive=True,
        shards={"quick": 6, "thorough": 16}, budget={"quick": 200, "thorough": 1500},
        rule="every labelled graph on <= 5 nodes x every non-empty node subset as seed x {uniform+degree, every weight vector in {1,2}^n (quick: two vectors for n = 5)}: is_clique, c_0, c_1, grow, swap, search, shrink, resize(1..n-1)"),
    Sub("clique_hyp", check=check_graph, strategy=lambda ctx: clique_case(),
        examples={"quick": 1500, "thorough": 6000}, shards={"quick": 2, "thorough": 16},
        rule="Hypothesis: graphs on 1..9 nodes (optionally with edge 'weight' attributes, zero / negative node weights), greedy clique seeds incl. the empty one, arbitrary subsets incl. the empty one, node lists with a node that is not in the graph, all selection modes: is_clique, c_0, c_1, grow, swap, search (1..4 iterations), shrink"),
    Sub("resize_hyp", check=check_graph, strategy=lambda ctx: resize_case(),
        examples={"quick": 1500, "thorough": 6000}, shards={"quick": 2, "thorough": 16},
        rule="Hypothesis: graphs on 2..9 nodes (optionally with edge 'weight' attributes, zero / negative node weights), start subgraphs of any size (incl. outside the size window), start subgraphs naming a node that is not in the graph, uniform and weighted selection: resize and subgraph.search (1..5 start subgraphs, max_count 1..4)"),
    Sub("sample_hyp", check=check_sample, strategy=lambda ctx: sample_case(),
        examples={"quick": 1000, "thorough": 6000}, shards={"quick": 1, "thorough": 4},
        rule="Hypothesis: 1..8 samples on 1..8 or 11..16 modes (threshold and PNR counts): postselect, modes_from_counts, to_subgraphs (range and relabelled graphs), seed, feature_vector_*_sampling"),
]

MANIFEST = {
    "technique": "bounded exhaustive enumeration + Hypothesis-generated inputs; exact-integer and brute-force oracles; reachability (validity-predicate) oracle for randomised graph heuristics",
    "text": ("orbits(k) is compared with an independent partition generator for every k <= 30; orbit_cardinality with exact integer "
             "multinomials for every small orbit on every mode count up to 60 (plus selected counts up to 300) and for random orbits on "
             "up to 300 modes; event_cardinality with the inclusion-exclusion closed form and with brute-force counting where feasible; "
             "sample/orbit/event conversions round-trip under seeded sampling; the orbit probabilities event_to_sample hands to the RNG are the exact "
             "cardinality ratios and, on events / orbits of 2..12 samples, repeated draws reach every sample. For every labelled graph on <= 5 nodes, "
             "every seed subset and every weight vector in {1,2}^n (quick tier: two weight vectors on 5 nodes), and for random graphs up to 9 nodes, the results of grow, swap, search, "
             "shrink, resize and subgraph.search are checked to be cliques / node subsets of the promised sizes and to be reachable by "
             "single steps that obey the documented selection rule (degree, weight, uniform ties), densities are recomputed by hand, and "
             "the number of alternatives offered to the random tie-break equals the documented candidate set. Exhaustive only for the "
             "enumerated sub-spaces; the distribution of the random tie-break itself is not tested statistically (only the candidate sets / "
             "probabilities offered to the RNG and the support of the two samplers)."),
    "note": ("Trusted: math.factorial/math.comb/itertools, networkx only as the container the routines take as input (the oracle keeps its own "
             "adjacency sets), numpy's seeding. prob_*/feature_vector_* functions that need a GBS simulation are outside this check (C20)."),
}
