"""C17 - matrix decompositions return exact, correctly structured factors.

Code under test: strawberryfields/decompositions.py.  Every oracle below multiplies the returned factors back with
matrices typed in THIS module from the docstrings / cited equations (Clements Eq. 1 T matrix, the Mach-Zehnder formula
of the `mach_zehnder` docstring, the sMZI / phase-shifter matrices of arXiv:2104.07561 Eq. 1-2, the SU(2) Euler
parametrisation of the `sun_compact` docstring); nothing of decompositions.py is used on the oracle side.

Sub-checks
  takagi          A == W diag(rl) W^T, W unitary, rl >= 0 non-increasing and equal to the singular values
  williamson      V == S Db S^T (the convention of ops.Gaussian and of the repo's tests; the docstring's S^T Db S is a
                  doc slip, DESIGN.md section 6 (2)), S symplectic, Db = diag(nu, nu) with nu the symplectic spectrum
  bloch_messiah   S == O1 Z O2, O1/O2 orthogonal AND symplectic, Z = diag(s, 1/s) > 0, passive inputs returned as documented
  mesh            rectangular, rectangular_phase_end, rectangular_MZ, rectangular_symmetric, triangular
  compact         triangular_compact, rectangular_compact, sun_compact (n >= 3)
  graph_embed     graph_embed / bipartite_graph_embed: c A == U diag(tanh(-r)) V^T with c > 0, sum sinh^2 r == n * mean photon
  invalid         valid matrix + perturbation at 0.01x .. 1e4x the routine's own tolerance in the routine's own norm, and
                  non-square / odd-sized / not (or only just not) positive definite / too small / nan- or inf-containing inputs

Every sub-check keeps a copy of the argument and demands that the routine leaves the caller's array alone (`*.modifies_input`).
Documented options are varied on valid inputs too: `rounding` (takagi, bloch_messiah), `rtol` / `atol` of the graph embeddings
(defaults and the values the only callers in ops.py pass), integer-dtype arrays where the matrix is integer valued.

Failure signatures name the root cause.  For the weak spots found so far the oracle re-derives the trigger independently of
the routine's output (so that any OTHER failure of the same routine keeps a generic signature and is a VIOLATION):
  _takagi_rootcause   complex path: (nearly) equal singular values that np.round(., 13) tells apart; a degenerate block
                      whose phase matrix v^T w has two eigenvalues at -1 (sqrtm branch cut)
  _bm_verdict         F38 (unit singular value of multiplicity >= 4, everything right except symplecticity) and the
                      9-decimal analogue of the takagi rounding problem
  _sun_diagnose       own re-run of sun_compact's documented recursion: vanishing column tail (F15), near-unit corner of the
                      3x3 block (F43), predicted error amplification, SU(2) factors with cos(beta/2) < 1.5e-5
"""
from __future__ import annotations

import numpy as np
from hypothesis import strategies as st

from vf import gen, spec
from vf.core import Sub

RULE = ("Hypothesis-generated matrices of size 1..6 (quick) / 1..8 (thorough) built from structured unitaries (Haar-like, "
        "identity, anti-identity, diagonal phases, permutation, permutation x diagonal, real orthogonal, U(k)+I blocks, "
        "products of few beamsplitters with exact zeros, DFT, near-identity), spectra with explicitly drawn multiplicities "
        "(repeated values, several zeros, gaps 1e-14..1e-6) and already-canonical forms; a case is non-trivial when the "
        "matrix has size >= 2 and is not the identity; distinct = distinct JSON. Invalid inputs are a valid matrix plus a "
        "perturbation measured in the routine's own norm against the routine's own tolerance, or with one nan / inf entry, or with "
        "eigenvalues flipped to -1 .. -1e-9 x their value. Also drawn: the `rounding` argument (takagi 13/10/8/6, bloch_messiah "
        "9/8/7/6), the symmetry tolerances of the graph embeddings (defaults, rtol=0 atol=1e-6 as ops.py passes, two more), integer "
        "dtype (adjacency matrices, permutations, integer CX/CZ/P-gate symplectic matrices), takagi inputs scaled by 1e-3 / 1e-5.")
ASSUMPTIONS = [
    "numpy/scipy LAPACK (svd, eigvals, det) are trusted for the independent spectra used as oracle",
    "reconstruction / structure tolerance 1e-8 * (1 + max|input|) (unchanged tree: <= 2e-12 on well separated spectra; "
    "sun_compact up to 1e-10 at n = 7); mean photon number of graph embeddings 1e-6 relative (thewalrus.adj_scaling is a "
    "root finder, observed 6e-10)",
    "inputs have entries of order 1 or are exactly zero: takagi's documented-by-code `allclose(N, 0)` shortcut (entries below "
    "1e-8 are treated as the zero matrix) is not probed",
    "williamson: V = S Db S^T (callers' convention) is demanded, not the docstring's S^T Db S",
    "MZ phases of rectangular_MZ / rectangular_symmetric must lie in [0, 2 pi): asserted by the repo's own test and by the "
    "code comments ('otherwise ... yields an external_phase of exactly 2 * pi')",
    "invalid inputs: any exception counts as rejection (ValueError is what the repo raises); acceptance / rejection is only "
    "asserted when the perturbation is <= 0.2x or >= 1.05x the tolerance in the routine's own norm; accepted perturbed "
    "inputs must reconstruct to 1e-8 + 100 * (size of the violation)",
    "the compact decompositions are interpreted as ops._triangular_compact_cmds / _rectangular_compact_cmds / "
    "_sun_compact_cmds (the only callers) interpret them",
    "bloch_messiah: only the documented pairing diag(Z) = (s_1..s_n, 1/s_1..1/s_n), positivity and the multiset of singular "
    "values are demanded, not a particular order of the s_i (none is documented); takagi: non-increasing order (stated by the "
    "code comments, relied upon by graph_embed_deprecated and bloch_messiah)",
    "root-cause classifiers may call numpy's svd exactly as the routine does and thewalrus.adj_scaling (third-party) to see the "
    "same floating-point singular values; they only choose the signature of a failure, never whether a case fails",
    "a routine must not write into the array it is given (np.array_equal with a copy taken before the call): the factors have to "
    "multiply back to the matrix that was passed, and ops.Interferometer / GaussianTransform / GraphEmbed keep that array as the "
    "operation's parameter and decompose it again on every compilation",
    "`rounding` = r decimals (documented: singular values equal after np.round(., r) are treated as equal, rl are the rounded values): "
    "everything that involves the returned singular values is demanded to 1e-8 + 5 * 10^-r only (unchanged tree: <= 0.5 * 10^-r for "
    "takagi, <= 0.2 * 10^-r for bloch_messiah); unitarity / orthogonality / symplecticity stay at 1e-8. r <= 13 (takagi) / <= 9 "
    "(bloch_messiah): finer rounding than the default only multiplies the known findings N1 / N3",
    "bipartite_graph_embed: when the scaled matrix c A (c = least-squares fit of the output) is symmetric within the (rtol, atol) in "
    "force (elementwise, 5% margin) it may be embedded as a symmetric matrix: bound loosened by 100 x c |A - A^T| (the `invalid` "
    "sub-check's rule), mean photon number by 10 x the first-order effect of that shift on sum sinh^2 r. Open finding N10 is only "
    "attributed when the scaled asymmetry passes the elementwise test and has a Frobenius norm >= 0.9 atol (scale from "
    "thewalrus.adj_scaling); any other refusal of a square matrix is a violation",
    "nan / inf inputs (mode nonfinite) must raise; only routines whose own acceptance test is what stops them are probed (see "
    "NONFINITE_ROUTINES: bloch_messiah, takagi excluded as AUDIT-FINDING nonfinite-accepted)",
]
REQUIRED_LABELS = {"all": ["takagi", "williamson", "bloch_messiah", "rectangular", "rectangular_phase_end", "rectangular_MZ",
                           "rectangular_symmetric", "triangular", "triangular_compact", "rectangular_compact", "sun_compact",
                           "graph_embed", "bipartite_graph_embed", "exact_zero_pivot", "permutation", "degenerate",
                           "already_canonical", "near_tolerance", "invalid", "rounding_arg", "small_entries", "int_dtype",
                           "symmetry_tolerance_arg", "mode:nonfinite"]}

TOL = 1e-8
PI = float(np.pi)


def _dec():
    from strawberryfields import decompositions as dec

    return dec


# ---------------------------------------------------------------------------------------------
# own matrices (typed from the docstrings / papers)
# ---------------------------------------------------------------------------------------------
def omega(n):
    return np.block([[np.zeros((n, n)), np.eye(n)], [-np.eye(n), np.zeros((n, n))]])


def T_own(m, n, theta, phi, N):
    """Clements et al. Eq. 1: beamsplitter preceded by a phase shift on mode m"""
    M = np.eye(N, dtype=complex)
    M[m, m] = np.exp(1j * phi) * np.cos(theta)
    M[m, n] = -np.sin(theta)
    M[n, m] = np.exp(1j * phi) * np.sin(theta)
    M[n, n] = np.cos(theta)
    return M


def MZ_own(m, n, phi_i, phi_e, N):
    """formula of the mach_zehnder docstring"""
    M = np.eye(N, dtype=complex)
    pre = 1j * np.exp(1j * phi_i / 2)
    M[m, m] = pre * np.sin(phi_i / 2) * np.exp(1j * phi_e)
    M[m, n] = pre * np.cos(phi_i / 2)
    M[n, m] = pre * np.cos(phi_i / 2) * np.exp(1j * phi_e)
    M[n, n] = -pre * np.sin(phi_i / 2)
    return M


def sMZI_own(n, sigma, delta, N):
    """arXiv:2104.07561 Eq. 1"""
    M = np.eye(N, dtype=complex)
    e = np.exp(1j * sigma)
    M[n, n] = e * np.sin(delta)
    M[n, n + 1] = e * np.cos(delta)
    M[n + 1, n] = e * np.cos(delta)
    M[n + 1, n + 1] = -e * np.sin(delta)
    return M


def P_own(j, phi, N):
    M = np.eye(N, dtype=complex)
    M[j, j] = np.exp(1j * phi)
    return M


def SU2_own(a, b, g):
    """sun_compact docstring: diag(e^{ia/2}, e^{-ia/2}) rot(b/2) diag(e^{ig/2}, e^{-ig/2})"""
    return (np.diag([np.exp(1j * a / 2), np.exp(-1j * a / 2)])
            @ np.array([[np.cos(b / 2), -np.sin(b / 2)], [np.sin(b / 2), np.cos(b / 2)]], dtype=complex)
            @ np.diag([np.exp(1j * g / 2), np.exp(-1j * g / 2)]))


def selftest():
    rng_vals = [(0.3, -1.1), (0.0, 0.0), (PI / 2, 0.4), (2.2, 5.9)]
    for th, ph in rng_vals:
        t = T_own(0, 1, th, ph, 3)
        assert np.allclose(t @ t.conj().T, np.eye(3), atol=1e-14)
        # T = BS(theta) . R_0(phi)
        bs = np.array([[np.cos(th), -np.sin(th), 0], [np.sin(th), np.cos(th), 0], [0, 0, 1]], dtype=complex)
        assert np.allclose(t, bs @ np.diag([np.exp(1j * ph), 1, 1]), atol=1e-14)
        # Mach-Zehnder: external phase on m, 50:50 BS, internal phase on m, 50:50 BS (docstring text) == docstring formula
        b5 = np.array([[1, 1j], [1j, 1]]) / np.sqrt(2)
        prod = b5 @ np.diag([np.exp(1j * th), 1]) @ b5 @ np.diag([np.exp(1j * ph), 1])
        assert np.allclose(MZ_own(0, 1, th, ph, 2), prod, atol=1e-14)
        s = sMZI_own(0, th, ph, 2)
        assert np.allclose(s @ s.conj().T, np.eye(2), atol=1e-14)
        # sMZI(sigma, delta): 50:50 BS, phases theta1 = sigma + delta, theta2 = sigma - delta, 50:50 BS (paper, Eq. 1)
        prod = b5 @ np.diag([np.exp(1j * (th + ph)), np.exp(1j * (th - ph))]) @ b5
        assert np.allclose(s, prod / 1j, atol=1e-14) or np.allclose(s, prod * (-1j), atol=1e-14)
        u = SU2_own(th, ph, 0.7)
        assert np.allclose(u @ u.conj().T, np.eye(2), atol=1e-14) and abs(np.linalg.det(u) - 1) < 1e-14
        # closed form of the _su2_parameters docstring
        a, b, g = th, ph, 0.7
        cf = np.array([[np.exp(1j * (a + g) / 2) * np.cos(b / 2), -np.exp(1j * (a - g) / 2) * np.sin(b / 2)],
                       [np.exp(-1j * (a - g) / 2) * np.sin(b / 2), np.exp(-1j * (a + g) / 2) * np.cos(b / 2)]])
        assert np.allclose(u, cf, atol=1e-14)
    # predicates
    assert _sympl_err(np.eye(4)) == 0 and _sympl_err(np.diag([2.0, 1, 0.5, 1])) < 1e-15 and _sympl_err(np.diag([2.0, 1, 1, 1])) > 0.5
    assert _unit_err(np.array([[0, 1], [1, 0]])) == 0
    # the staircase diagnosis: U(2)+I on 4 modes has a vanishing column tail, a Haar-like matrix has not
    B = np.eye(4, dtype=complex)
    B[:2, :2] = SU2_own(0.3, 1.0, 0.2)
    assert _sun_diagnose(B)["tail"] < 1e-12
    F = np.exp(2j * PI * np.outer(np.arange(4), np.arange(4)) / 4) / 2
    assert _sun_diagnose(F)["tail"] > 0.5


def _unit_err(U):
    U = np.asarray(U)
    return float(np.max(np.abs(U.conj().T @ U - np.eye(U.shape[0]))))


def _sympl_err(S):
    n = S.shape[0] // 2
    Om = omega(n)
    return float(np.max(np.abs(S @ Om @ S.T - Om)))


def _maxabs(M):
    M = np.asarray(M)
    return float(np.max(np.abs(M))) if M.size else 0.0


def _finite_real(x):
    try:
        z = complex(x)
    except Exception:  # pylint: disable=broad-except
        return False
    return bool(np.isfinite(z.real) and np.isfinite(z.imag) and z.imag == 0)


def _is_identity(M):
    M = np.asarray(M)
    return M.shape[0] == M.shape[1] and bool(np.all(M == np.eye(M.shape[0])))


def _nontrivial(M):
    M = np.asarray(M)
    return M.shape[0] >= 2 and not _is_identity(M)


def _touched(M, M0):
    """True iff the routine wrote into the caller's array (M0 = copy taken before the call): the factors must multiply back to
    the matrix that was passed in, and every caller (ops.Interferometer, GaussianTransform, GraphEmbed keep the matrix as the
    operation's parameter and may decompose it again) relies on the argument surviving the call"""
    return M.shape != M0.shape or M.dtype != M0.dtype or not np.array_equal(M, M0, equal_nan=True)


def _as_int(M):
    """integer-dtype copy of a matrix whose entries are integers (adjacency matrices, permutations, CX / CZ symplectic matrices)"""
    M = np.asarray(M)
    R = np.rint(M.real).astype(np.int64)
    assert np.array_equal(R, M), "not an integer matrix"
    return R


def _rq(rounding, default):
    """resolution of the `rounding` argument (number of decimals; None = the routine's default)"""
    return 10.0 ** (-(default if rounding is None else int(rounding)))


# ---------------------------------------------------------------------------------------------
# strategies
# ---------------------------------------------------------------------------------------------
def _nmax(ctx):
    return 6 if ctx.tier == "quick" else 8


EXTRA_U = ["antiidentity", "dft", "block2_top", "phase_embedded", "near_identity", "tiny_mixing", "signed_perm"]


@st.composite
def unitary_plus(draw, n):
    """gen.unitary plus a few more structured kinds; returns (kind, U)"""
    if n == 1 or draw(st.integers(0, 9)) >= 3:
        return draw(gen.unitary(n))
    kind = draw(st.sampled_from(EXTRA_U))
    if kind == "antiidentity":
        U = np.eye(n, dtype=complex)[::-1].copy()
    elif kind == "dft":
        U = np.exp(2j * PI * np.outer(np.arange(n), np.arange(n)) / n) / np.sqrt(n)
    elif kind == "signed_perm":  # sign-flipped identities / permutations (real, determinant +-1)
        U = (np.diag(draw(st.lists(st.sampled_from([1.0, -1.0]), min_size=n, max_size=n)))
             @ np.eye(n)[list(draw(st.sampled_from([list(range(n)), list(range(n))[::-1]]) if draw(st.booleans())
                                   else st.permutations(list(range(n)))))]).astype(complex)
    elif kind == "block2_top":  # U(2) + I: column 0 has a vanishing tail
        U = np.eye(n, dtype=complex)
        U[:2, :2] = draw(gen.unitary(2, ["haar", "orth", "single_bs"]))[1]
    elif kind == "phase_embedded":  # e^{i phi} + U(n-1), rows permuted (cf. the repo's test_embeded_unitary)
        U = np.zeros((n, n), dtype=complex)
        U[0, 0] = np.exp(1j * draw(gen.angle()))
        U[1:, 1:] = draw(gen.unitary(n - 1, ["haar", "orth", "diag"]))[1]
        U = U[list(draw(st.permutations(list(range(n)))))]
    else:  # near_identity / tiny_mixing: rotation by a small angle on an adjacent pair, optionally times a generic unitary
        th = draw(st.sampled_from([1e-2, 1e-3, 1e-4, 1e-5, 1e-6, 1e-7]))
        i = draw(st.integers(0, n - 2))
        U = np.eye(n, dtype=complex)
        U[i, i] = U[i + 1, i + 1] = np.cos(th)
        U[i, i + 1] = -np.sin(th)
        U[i + 1, i] = np.sin(th)
        if kind == "tiny_mixing":
            U = U @ np.diag(np.exp(1j * np.array(draw(st.lists(gen.angle(), min_size=n, max_size=n)))))
    return kind, U


def _u_labels(kind, U):
    labs = ["kind:" + kind]
    if kind in ("perm", "permdiag", "antiidentity", "signed_perm"):
        labs.append("permutation")
    if np.isrealobj(U):
        labs.append("real_dtype")
    if U.dtype.kind == "i":
        labs.append("int_dtype")
    if kind in ("identity", "diag"):
        labs.append("already_canonical")
    if U.shape[0] >= 2 and bool(np.any(U == 0)):
        labs.append("exact_zero_pivot")
    return labs


@st.composite
def sv_list(draw, n, lo=0.05, hi=2.0, zeros=True):
    """non-negative values with explicitly drawn multiplicities (repeated values, several zeros)"""
    vals = []
    while len(vals) < n:
        opts = [gen.fl(lo, hi), st.sampled_from([1.0, 0.5])]
        if zeros:
            opts.append(st.just(0.0))
        v = draw(st.one_of(*opts))
        vals += [v] * draw(st.integers(1, 3))
    return list(draw(st.permutations(vals[:n])))


GAPS = [1e-14, 1e-13, 1e-12, 1e-11, 1e-10, 1e-9, 1e-8, 1e-7, 1e-6]


# ---------------------------------------------------------------------------------------------
# takagi
# ---------------------------------------------------------------------------------------------
@st.composite
def takagi_case(draw, nmax):
    n = draw(st.integers(1, nmax))
    kind = draw(st.sampled_from(["complex", "complex", "real", "real", "zero", "diag_canonical", "diag_phases", "adjacency",
                                 "gauss_int", "near_degenerate", "round_boundary", "noisy_diagonal"]))
    if n == 1 and kind in ("near_degenerate", "round_boundary", "adjacency", "noisy_diagonal"):
        kind = "complex"
    if kind == "complex":
        W = draw(unitary_plus(n))[1]
        A = W @ np.diag(draw(sv_list(n))) @ W.T
    elif kind == "real":
        O = draw(gen.unitary(n, ["orth", "orth", "identity", "perm"]))[1].real
        sg = np.array(draw(st.lists(st.sampled_from([1.0, -1.0]), min_size=n, max_size=n)))
        A = O @ np.diag(np.array(draw(sv_list(n))) * sg) @ O.T
    elif kind == "zero":
        A = np.zeros((n, n), dtype=complex if draw(st.booleans()) else float)
    elif kind == "diag_canonical":
        A = np.diag(sorted(draw(sv_list(n)), reverse=True)).astype(complex if draw(st.booleans()) else float)
    elif kind == "diag_phases":
        A = np.diag(np.array(draw(sv_list(n))) * np.exp(1j * np.array(draw(st.lists(gen.angle(), min_size=n, max_size=n)))))
    elif kind == "adjacency":
        bits = draw(st.lists(st.integers(0, 1), min_size=n * n, max_size=n * n))
        A = np.triu(np.array(bits, dtype=float).reshape(n, n))
        A = A + np.triu(A, 1).T
    elif kind == "gauss_int":
        v = draw(st.lists(st.integers(-2, 2), min_size=2 * n * n, max_size=2 * n * n))
        A = np.array(v[: n * n], dtype=float).reshape(n, n) + 1j * np.array(v[n * n:], dtype=float).reshape(n, n)
        A = np.triu(A) + np.triu(A, 1).T
    elif kind == "noisy_diagonal":  # diagonal phases, repeated moduli, plus rounding-noise sized symmetric off-diagonal entries
        A = np.diag(np.array(draw(sv_list(n, 0.1, 2.0, zeros=False))) * np.exp(1j * np.array(draw(st.lists(gen.angle(), min_size=n, max_size=n)))))
        eps = draw(st.sampled_from([1e-18, 1e-17, 1e-16, 1e-15, 1e-14, 1e-13]))
        A = A + eps * np.triu(draw(gen.ginibre(n)), 1)
        A = A + np.triu(A, 1).T
    elif kind == "near_degenerate":  # two singular values a tiny, explicitly drawn, gap apart
        W = draw(gen.unitary(n, ["haar", "orth"]))[1]
        sv = sorted(draw(sv_list(n, 0.2, 2.0, zeros=False)), reverse=True)
        sv[1] = sv[0] - draw(st.sampled_from(GAPS))
        A = W @ np.diag(sv) @ W.T
    else:  # round_boundary: an exactly repeated singular value that sits on a boundary of the 13-decimal rounding
        W = draw(gen.unitary(n, ["haar", "orth"]))[1]
        k = draw(st.integers(10 ** 12, 2 * 10 ** 13))
        s = (k + 0.5) * 1e-13
        sv = [s, s] + [s / 3] * (n - 2)
        A = W @ np.diag(sv) @ W.T
    A = (A + A.T) / 2
    case = {"n": n, "kind": kind}
    if kind not in ("near_degenerate", "round_boundary", "noisy_diagonal", "zero") and draw(st.integers(0, 7)) == 0:
        # small entries, still well above takagi's `allclose(N, 0)` shortcut (atol 1e-8): max|A_ij| >= sigma_max / n >= 8e-8
        case["scale"] = draw(st.sampled_from([1e-3, 1e-5]))
        A = A * case["scale"]
    if kind == "adjacency" and "scale" not in case and draw(st.booleans()):
        case["dtype"] = "int"  # 0/1 adjacency matrix as an integer array
    # the documented `rounding` argument: singular values equal after np.round(., rounding) are treated as one subspace
    case["rounding"] = draw(st.sampled_from([None, None, None, None, 13, 10, 8, 6]))
    case["A"] = spec.enc_matrix(A)
    return case


def _split_cluster(l, decimals, window):
    """True iff two singular values closer than `window` are told apart by np.round(., decimals): the routine then treats a
    (nearly) degenerate subspace as non-degenerate"""
    l = np.sort(np.asarray(l))[::-1]
    r = np.round(l, decimals)
    return any(l[i] - l[i + 1] < window and r[i] != r[i + 1] for i in range(len(l) - 1))


def _takagi_rootcause(A, rounding=13):
    """which known weak spot of takagi's degenerate-subspace handling (group singular values by np.round(., 13), take
    sqrtm(v_g^T w_g) per group) the input falls into: (signature, text) or None.  Uses the routine's own svd call so that
    the floating-point singular values are the ones the routine sees."""
    Ac = np.real_if_close(A)
    if np.isrealobj(Ac):
        return None
    v, l, ws = np.linalg.svd(Ac)
    if _split_cluster(l, rounding, 1e-6):
        return ("takagi.near_degenerate_cluster_split_by_rounding",
                "singular values %s contain a pair closer than 1e-6 that np.round(., %d) tells apart: the (nearly) degenerate "
                "subspace is treated as non-degenerate" % (l.tolist(), rounding))
    w = ws.conj().T
    rl = np.round(l, rounding)
    start = 0
    for i in range(1, len(rl) + 1):
        if i == len(rl) or rl[i] != rl[start]:
            if i - start >= 2:
                Z = v[:, start:i].T @ w[:, start:i]
                near = int(np.sum(np.abs(np.linalg.eigvals(Z) + 1) < 1e-6))
                if near >= 2:
                    return ("takagi.degenerate_block_sqrtm_branch_cut",
                            "the phase matrix v^T w of the degenerate singular value %.6g has %d eigenvalues at -1, where the "
                            "principal sqrtm is discontinuous: its square root is not unitary" % (rl[start], near))
            start = i
    return None


def check_takagi(ctx, case):
    dec = _dec()
    A = spec.dec_param(case["A"])
    if case.get("dtype") == "int":
        A = _as_int(A)
    A0 = A.copy()
    n = A.shape[0]
    rounding = case.get("rounding")
    kw = {} if rounding is None else {"rounding": int(rounding)}
    rq = _rq(rounding, 13)
    sv = np.linalg.svd(A, compute_uv=False)
    rsv = np.round(sv / case.get("scale", 1.0), 9)
    labels = ["takagi", "kind:" + case["kind"], "real_input" if np.isrealobj(A) else "complex_input"]
    if rounding is not None:
        labels.append("rounding_arg")
    if case.get("scale", 1.0) != 1.0:
        labels.append("small_entries")
    if case.get("dtype") == "int":
        labels.append("int_dtype")
    if len(set(rsv.tolist())) < n:
        labels.append("degenerate")
    if n >= 2 and np.any(sv < 1e-12):
        labels.append("rank_deficient")
    if case["kind"] in ("diag_canonical", "zero"):
        labels.append("already_canonical")
    if case["kind"] in ("near_degenerate", "round_boundary"):
        labels.append("near_degenerate")
    ctx.note(case, nontrivial=_nontrivial(A), labels=labels)
    try:
        rl, W = dec.takagi(A, **kw)
    except ValueError as exc:
        return ctx.fail("takagi.rejects_valid", "valid symmetric matrix rejected: %s" % exc)
    except Exception as exc:  # pylint: disable=broad-except
        return ctx.crash(exc, "takagi")
    if _touched(A, A0):
        return ctx.fail("takagi.modifies_input", "the argument was changed in place by up to %.3g" % _maxabs(A - A0))
    rl, W = np.asarray(rl), np.asarray(W)
    if rl.shape != (n,) or W.shape != (n, n) or not np.all(np.isfinite(rl)) or not np.all(np.isfinite(W)):
        return ctx.fail("takagi.shape_or_nan", "rl %s W %s finite=%s" % (rl.shape, W.shape, np.all(np.isfinite(W))))
    tol = TOL * (1 + _maxabs(A)) + 5 * rq  # rl are the singular values ROUNDED to `rounding` decimals (docstring)
    e_rec = _maxabs(W @ np.diag(rl) @ W.T - A)
    e_uni = _unit_err(W)
    e_sv = _maxabs(np.sort(np.abs(rl))[::-1] - sv)
    bad = []
    if e_rec > tol:
        bad.append("reconstruction error %.3g" % e_rec)
    if e_uni > TOL:
        bad.append("W not unitary by %.3g" % e_uni)
    if bad:
        rc = _takagi_rootcause(A, 13 if rounding is None else int(rounding))
        if rc:
            return ctx.fail(rc[0], "%s; %s" % ("; ".join(bad), rc[1]))
        return ctx.fail("takagi.wrong_factors", "; ".join(bad) + ("" if rounding is None else " (rounding=%d)" % rounding))
    if np.iscomplexobj(rl) or np.any(rl < 0):
        return ctx.fail("takagi.negative_singular_value", "rl = %s" % rl.tolist())
    if np.any(np.diff(rl) > 1e-12):
        return ctx.fail("takagi.not_sorted", "rl = %s is not non-increasing" % rl.tolist())
    if e_sv > tol:
        return ctx.fail("takagi.singular_values", "rl differs from the singular values by %.3g" % e_sv)
    return None


# ---------------------------------------------------------------------------------------------
# williamson
# ---------------------------------------------------------------------------------------------
@st.composite
def williamson_case(draw, nmax):
    n = draw(st.integers(1, nmax))
    if draw(st.integers(0, 3)) == 0:
        kind = draw(st.sampled_from(["posdef_general", "scaled_identity", "near_degenerate"]))
        if kind == "scaled_identity":
            V = draw(gen.fl(0.1, 5.0)) * np.eye(2 * n)
        else:
            nu = np.array(draw(sv_list(n, 0.1, 4.0, zeros=False)))
            if kind == "near_degenerate" and n >= 2:
                nu[1] = nu[0] + draw(st.sampled_from(GAPS))
            S = draw(gen.symplectic(n, 0.6, ["generic", "diag", "O1Z"]))[2]
            V = S @ np.diag(np.concatenate([nu, nu])) @ S.T
    else:
        hbar = draw(st.sampled_from([2.0, 2.0, 1.0, 0.5, 3.3]))
        kind, V = draw(gen.covariance(n, hbar))
    V = (V + V.T) / 2
    return {"n": n, "kind": kind, "V": spec.enc_matrix(V)}


def _sympl_spectrum(V):
    n = V.shape[0] // 2
    ev = np.linalg.eigvals(1j * omega(n) @ V)
    return np.sort(np.abs(ev))[::2], float(np.max(np.abs(np.abs(ev.real) - np.abs(ev))))


def check_williamson(ctx, case):
    dec = _dec()
    V = spec.dec_param(case["V"])
    V0 = V.copy()
    n = V.shape[0] // 2
    nu, _ = _sympl_spectrum(V)
    labels = ["williamson", "kind:" + case["kind"]]
    if len(set(np.round(nu, 9).tolist())) < n:
        labels.append("degenerate")
    if case["kind"] in ("thermal", "vacuum", "scaled_identity"):
        labels.append("already_canonical")
    if case["kind"].startswith("pure") or case["kind"] == "vacuum":
        labels.append("pure")
    ctx.note(case, nontrivial=_nontrivial(V), labels=labels)
    try:
        Db, S = dec.williamson(V)
    except ValueError as exc:
        if isinstance(exc, np.linalg.LinAlgError) and "Schur form not found" in str(exc):
            return ctx.fail("williamson.lapack_schur_not_converged",
                            "scipy.linalg.schur (LAPACK QR iteration) does not converge on V^-1/2 Omega V^-1/2 of this valid matrix: %s" % exc)
        return ctx.fail("williamson.rejects_valid", "valid positive definite matrix rejected: %s" % exc)
    except Exception as exc:  # pylint: disable=broad-except
        return ctx.crash(exc, "williamson")
    if _touched(V, V0):
        return ctx.fail("williamson.modifies_input", "the argument was changed in place by up to %.3g" % _maxabs(V - V0))
    return _williamson_verdict(ctx, V0, Db, S, nu, TOL * (1 + _maxabs(V0)), TOL)


def _williamson_verdict(ctx, V, Db, S, nu, tol, tol_s):
    n = V.shape[0] // 2
    Db, S = np.asarray(Db), np.asarray(S)
    if Db.shape != V.shape or S.shape != V.shape or not np.all(np.isfinite(Db)) or not np.all(np.isfinite(S)):
        return ctx.fail("williamson.shape_or_nan", "Db %s S %s" % (Db.shape, S.shape))
    if np.iscomplexobj(S) and _maxabs(S.imag) > 0 or np.iscomplexobj(Db) and _maxabs(Db.imag) > 0:
        return ctx.fail("williamson.complex_factors", "S or Db has an imaginary part")
    S, Db = S.real, Db.real
    d = np.diag(Db)
    if _maxabs(Db - np.diag(d)) > 0:
        return ctx.fail("williamson.Db_not_diagonal", "off-diagonal %.3g" % _maxabs(Db - np.diag(d)))
    e_sym = _sympl_err(S)
    e_call = _maxabs(S @ Db @ S.T - V)
    e_doc = _maxabs(S.T @ Db @ S - V)
    if e_sym > tol_s * (1 + _maxabs(S) ** 2):
        return ctx.fail("williamson.S_not_symplectic", "|S Omega S^T - Omega| = %.3g" % e_sym)
    if e_call > tol * (1 + _maxabs(S) ** 2):
        if e_doc <= tol * (1 + _maxabs(S) ** 2):
            return ctx.fail("williamson.transposed_convention", "V == S^T Db S (docstring) but != S Db S^T (what ops.Gaussian and "
                            "the repo tests use): error %.3g" % e_call)
        return ctx.fail("williamson.reconstruction", "|S Db S^T - V| = %.3g (and %.3g for S^T Db S)" % (e_call, e_doc))
    if np.any(d <= 0) or _maxabs(d[:n] - d[n:]) > tol:
        return ctx.fail("williamson.Db_structure", "Db = %s is not diag(nu, nu) with nu > 0" % d.tolist())
    if _maxabs(np.sort(d[:n]) - nu) > tol * 10:
        return ctx.fail("williamson.symplectic_eigenvalues", "diag(Db) = %s, symplectic spectrum %s" % (d[:n].tolist(), nu.tolist()))
    return None


# ---------------------------------------------------------------------------------------------
# bloch_messiah
# ---------------------------------------------------------------------------------------------
BM_ROUNDINGS = [None, None, None, None, None, 9, 8, 7, 6]


@st.composite
def int_shear(draw, n):
    """integer symplectic matrices as products of CX / CZ / P gates with integer parameters give them:
    S = [[A, 0], [D K, D]], A unimodular integer (row operations), D = A^-T, K symmetric integer.  Exact entries, exact zeros,
    singular values in exactly reciprocal pairs, untouched modes with singular value exactly 1"""
    A = np.eye(n, dtype=np.int64)
    D = np.eye(n, dtype=np.int64)
    if n >= 2:
        for _ in range(draw(st.integers(0, 3))):
            i, j = draw(st.permutations(list(range(n))))[:2]
            k = draw(st.sampled_from([1, -1, 2, -2]))
            A[i] += k * A[j]  # x_i += k x_j  (CXgate)
            D[j] -= k * D[i]  # p_j -= k p_i
    K = np.zeros((n, n), dtype=np.int64)
    for _ in range(draw(st.integers(0 if n >= 2 else 1, 3))):
        i, j = draw(st.integers(0, n - 1)), draw(st.integers(0, n - 1))
        k = draw(st.sampled_from([1, -1, 2]))
        K[i, j] += k  # CZgate (i != j) / Pgate (i == j)
        if i != j:
            K[j, i] += k
    return np.block([[A, np.zeros((n, n), dtype=np.int64)], [D @ K, D]])


@st.composite
def bm_case(draw, nmax):
    case = draw(_bm_case(nmax))
    # documented argument: decimals that tell singular values apart; coarser than the default more often where it changes the grouping
    if case["kind"] in ("near_degenerate", "tiny_r"):
        case["rounding"] = draw(st.sampled_from([None, None, 9, 8, 7, 7, 6, 6]))
    elif case["kind"] != "shear_int" or draw(st.booleans()):
        case["rounding"] = draw(st.sampled_from(BM_ROUNDINGS))
    return case


@st.composite
def _bm_case(draw, nmax):
    n = draw(st.integers(1, nmax))
    if draw(st.integers(0, 11)) == 0:
        S = draw(int_shear(n))
        sv = np.linalg.svd(S.astype(float), compute_uv=False)
        r = [0.0 if abs(x) < 1e-12 else float(x) for x in np.log(np.sort(sv)[::-1][:n])]
        return {"n": n, "kind": "shear_int", "r": r, "S": spec.enc_matrix(S), "dtype": draw(st.sampled_from(["int", "float"]))}
    if draw(st.integers(0, 9)) == 0:
        # weak squeezers directly on the inputs, then an interferometer: S^T S is diagonal and within 1e-5 of the identity, S is NOT passive
        r = np.array([draw(st.sampled_from([1e-6, 4e-6, 2e-6, 1e-7, 1e-5, 8e-6])) for _ in range(n)])
        O1 = gen.orth_symplectic(draw(gen.unitary(n))[1])
        S = O1 @ np.diag(np.concatenate([np.exp(-r), np.exp(r)]))
        return {"n": n, "kind": "tiny_r", "r": [float(x) for x in r], "S": spec.enc_matrix(S)}
    if draw(st.integers(0, 5)) == 0 and n >= 2:
        kind = draw(st.sampled_from(["near_degenerate", "tiny_r"]))
        r = np.array(sorted(np.abs(draw(gen.squeezing_list(n, 0.8)))))
        if kind == "near_degenerate":
            r[0] = draw(gen.fl(0.1, 0.8))
            r[1] = r[0] + draw(st.sampled_from([1e-10, 3e-10, 1e-9, 3e-9, 1e-8, 1e-7, 1e-6]))
        else:
            r[0] = draw(st.sampled_from([1e-11, 1e-10, 1e-9, 1e-8, 1e-6]))
        O1 = gen.orth_symplectic(draw(gen.unitary(n))[1])
        O2 = gen.orth_symplectic(draw(gen.unitary(n))[1])
        if kind == "tiny_r" and draw(st.booleans()):
            # weak squeezers directly on the inputs, then an interferometer: S^T S is diagonal and within 1e-5 of the identity
            r = np.array([draw(st.sampled_from([1e-6, 4e-6, 2e-6, 1e-7, 1e-5])) * draw(st.sampled_from([1, -1])) for _ in range(n)])
            r = np.abs(r)
            O2 = np.eye(2 * n)
        S = O1 @ np.diag(np.concatenate([np.exp(-r), np.exp(r)])) @ O2
        r = [float(x) for x in r]
    else:
        kind, r, S = draw(gen.symplectic(n, 0.8))
    return {"n": n, "kind": kind, "r": r, "S": spec.enc_matrix(S)}


def check_bm(ctx, case):
    dec = _dec()
    S = spec.dec_param(case["S"])
    if case.get("dtype") == "int":
        S = _as_int(S)
    S0 = S.copy()
    n = S.shape[0] // 2
    rounding = case.get("rounding")
    kw = {} if rounding is None else {"rounding": int(rounding)}
    sv = np.linalg.svd(S, compute_uv=False)
    r = np.abs(np.array(case["r"]))
    passive = case["kind"] == "passive" or bool(np.all(r == 0))
    labels = ["bloch_messiah", "kind:" + case["kind"], "passive" if passive else "active"]
    if rounding is not None:
        labels.append("rounding_arg")
    if case.get("dtype") == "int":
        labels.append("int_dtype")
    nz = int(np.sum(r == 0))
    if not passive and nz >= 1:
        labels.append("mixed_zero_squeezing")
    if not passive and nz >= 2:
        labels.append("two_or_more_unsqueezed")
    if len(set(np.round(r, 12).tolist())) < n:
        labels.append("degenerate")
    if case["kind"] == "diag" or _is_identity(S):
        labels.append("already_canonical")
    if case["kind"] in ("near_degenerate", "tiny_r"):
        labels.append("near_degenerate")
    ctx.note(case, nontrivial=_nontrivial(S), labels=labels)
    try:
        O1, Z, O2 = dec.bloch_messiah(S, **kw)
    except ValueError as exc:
        return ctx.fail("bloch_messiah.rejects_valid", "valid symplectic matrix rejected: %s" % exc)
    except Exception as exc:  # pylint: disable=broad-except
        return ctx.crash(exc, "bloch_messiah")
    if _touched(S, S0):
        return ctx.fail("bloch_messiah.modifies_input", "the argument was changed in place by up to %.3g" % _maxabs(S - S0))
    return _bm_verdict(ctx, S0, O1, Z, O2, sv, TOL, passive_exact=passive and np.linalg.norm(S0.T @ S0 - np.eye(2 * n)) < 1e-11,
                       rounding=9 if rounding is None else int(rounding))


def _bm_verdict(ctx, S, O1, Z, O2, sv, tol, passive_exact=False, rounding=9):
    """`rounding`: singular values that agree to that many decimals are treated as equal by the routine (documented), so Z is
    diagonal / paired / equal to the singular values, and the product exact, only to a few 10^-rounding (the default 9 is below
    the tolerance 1e-8)"""
    rq = 0.0 if rounding >= 9 else 5 * 10.0 ** (-rounding)
    n = S.shape[0] // 2
    O1, Z, O2 = np.asarray(O1), np.asarray(Z), np.asarray(O2)
    for nm, M in (("O1", O1), ("Z", Z), ("O2", O2)):
        if M.shape != S.shape or np.iscomplexobj(M) or not np.all(np.isfinite(M)):
            return ctx.fail("bloch_messiah.shape_or_nan", "%s has shape %s dtype %s" % (nm, M.shape, M.dtype))
    z = np.diag(Z)
    sc = 1 + _maxabs(S)
    e_rec = _maxabs(O1 @ Z @ O2 - S)
    e_o = max(_unit_err(O1), _unit_err(O2))
    e_s = max(_sympl_err(O1), _sympl_err(O2))
    e_d = _maxabs(Z - np.diag(z))
    top = np.sort(sv)[::-1][:n]
    neardeg = _split_cluster(top, rounding, 1e-5) or _split_cluster(np.concatenate([top, [1.0]]), rounding, 1e-5)
    tol_z = tol * sc + rq  # everything that involves Z
    if e_rec <= tol_z and e_o <= tol and e_d <= tol_z and e_s > tol and not neardeg:
        # bug-compatible prediction of F38: everything right except symplecticity of the orthogonal factors, and the
        # singular value 1 (after the routine's rounding to 9 decimals) has multiplicity >= 4 while S is not passive
        unit = int(np.sum(np.abs(sv - 1) <= 5.5e-10))
        if unit >= 4 and np.linalg.norm(S.T @ S - np.eye(2 * n)) >= 1e-10:  # active branch of the routine
            return ctx.fail("F38.bloch_messiah.nonsymplectic_factors.unit_singular_value_multiplicity_ge_4",
                            "O1/O2 orthogonal (%.2g), O1 Z O2 == S (%.2g) but |O Omega O^T - Omega| = %.3g; singular value 1 has "
                            "multiplicity %d of %d" % (e_o, e_rec, e_s, unit, 2 * n))
    if e_rec > tol_z or e_o > tol or e_d > tol_z or e_s > tol:
        # open finding N3 is about symplecticity only: the factors stay orthogonal and their product stays S.  Anything else wrong with a
        # near-degenerate spectrum is NOT that finding
        if neardeg and e_rec <= tol_z and e_o <= tol and e_d <= tol_z:
            return ctx.fail("bloch_messiah.near_degenerate_cluster_split_by_rounding",
                            "reconstruction %.3g orthogonality %.3g symplecticity %.3g diagonality %.3g; singular values %s contain a "
                            "pair closer than 1e-5 that np.round(., %d) tells apart" % (e_rec, e_o, e_s, e_d, top.tolist(), rounding))
        if e_rec > tol_z:
            return ctx.fail("bloch_messiah.reconstruction", "|O1 Z O2 - S| = %.3g" % e_rec)
        if e_o > tol:
            return ctx.fail("bloch_messiah.not_orthogonal", "|O^T O - 1| = %.3g" % e_o)
        if e_d > tol_z:
            return ctx.fail("bloch_messiah.Z_not_diagonal", "off-diagonal %.3g" % e_d)
        return ctx.fail("bloch_messiah.not_symplectic", "|O Omega O^T - Omega| = %.3g (orthogonality %.3g, rounding %d)" % (e_s, e_o, rounding))
    if np.any(z <= 0):
        return ctx.fail("bloch_messiah.Z_not_positive", "diag(Z) = %s" % z.tolist())
    if _maxabs(z[:n] * z[n:] - 1) > tol * sc ** 2 + rq * sc:
        return ctx.fail("bloch_messiah.Z_not_s_inverse_s", "diag(Z) = %s is not (s_1..s_n, 1/s_1..1/s_n)" % z.tolist())
    if _maxabs(np.sort(z)[::-1] - np.sort(sv)[::-1]) > tol_z:
        return ctx.fail("bloch_messiah.singular_values", "diag(Z) = %s, singular values of S %s" % (z.tolist(), sv.tolist()))
    if passive_exact and not (np.all(Z == np.eye(2 * n)) and np.all(O2 == np.eye(2 * n)) and np.all(O1 == S)):
        return ctx.fail("bloch_messiah.passive_convention", "passive S must be returned as (S, 1, 1) (docstring)")
    return None


# ---------------------------------------------------------------------------------------------
# interferometer meshes with T / Mach-Zehnder elements
# ---------------------------------------------------------------------------------------------
@st.composite
def unitary_case(draw, nmin, nmax):
    n = draw(st.integers(nmin, nmax))
    kind, U = draw(unitary_plus(n))
    U = np.asarray(U, dtype=complex)
    case = {"n": n, "kind": kind}
    if bool(np.all(U.imag == 0)) and draw(st.booleans()):
        U = U.real.copy()  # real dtype: orthogonal matrices, permutations, sign-flipped identities as float arrays
        if bool(np.all(U == np.rint(U))) and draw(st.booleans()):
            case["dtype"] = "int"  # permutation matrices / sign-flipped identities as integer arrays
    case["U"] = spec.enc_matrix(U)
    return case


def _dec_unitary(case):
    U = spec.dec_param(case["U"])
    return _as_int(U) if case.get("dtype") == "int" else U


def _check_tlist(tl, n, mz):
    """structure of a list of [m, n, a, b, nmax]; returns error text or None"""
    for t in tl:
        if len(t) != 5:
            return "entry %r has not 5 fields" % (t,)
        m_, n_, a, b, N = t
        if not (int(m_) == m_ and int(n_) == n_ and 0 <= m_ < n and n_ == m_ + 1 and n_ < n and N == n):
            return "modes %r, %r / size %r invalid for an %d-mode mesh of adjacent-mode elements" % (m_, n_, N, n)
        if not (_finite_real(a) and _finite_real(b)):
            return "angles %r, %r are not finite reals" % (a, b)
        if mz and not (0 <= a < 2 * PI and 0 <= b < 2 * PI):
            return "Mach-Zehnder phases %r, %r outside [0, 2 pi)" % (a, b)
    return None


def _rec_sandwich(tilist, diags, tlist, elem):
    """U = T_1^-1 ... T_k^-1 D Ti_m ... Ti_1   (tlist in list order inverted on the left, tilist reversed on the right)"""
    M = np.diag(np.asarray(diags)).astype(complex)
    for t in reversed(tlist):
        M = elem(*_ints(t)).conj().T @ M
    for t in reversed(tilist):
        M = M @ elem(*_ints(t))
    return M


def _ints(t):
    return int(t[0]), int(t[1]), float(np.real(t[2])), float(np.real(t[3])), int(t[4])


def _rec_triangular(tlist, diags):
    """U = T_k^-1 ... T_1^-1 D  (D first, then the inverse T's in list order)"""
    M = np.diag(np.asarray(diags)).astype(complex)
    for t in tlist:
        M = T_own(*_ints(t)).conj().T @ M
    return M


MESH = ["rectangular", "rectangular_phase_end", "rectangular_MZ", "rectangular_symmetric", "triangular"]


def _mesh_one(dec, name, U):
    """returns (error signature suffix, detail) or None"""
    n = U.shape[0]
    Uin = U.copy()
    out = getattr(dec, name)(Uin)
    if _touched(Uin, U):
        return "modifies_input", "the argument was changed in place by up to %.3g" % _maxabs(Uin - U)
    if not (isinstance(out, tuple) and len(out) == 3):
        return "return_shape", "returned %r" % (type(out),)
    a, diags, b = out
    mz = name in ("rectangular_MZ", "rectangular_symmetric")
    elem = MZ_own if mz else T_own
    diags = np.asarray(diags)
    if diags.shape != (n,) or not np.all(np.isfinite(diags)):
        return "diag_shape_or_nan", "diagonal %r" % (diags,)
    if name in ("rectangular", "rectangular_MZ"):
        if b is None:
            return "return_shape", "tlist is None"
        lists = [a, b]
    else:
        if b is not None:
            return "return_shape", "third item %r is not None" % (b,)
        lists = [a]
    for tl in lists:
        err = _check_tlist(tl, n, mz)
        if err:
            return ("phase_range" if "outside" in err else "parameters"), err
    if sum(len(tl) for tl in lists) != n * (n - 1) // 2:
        return "count", "%d elements instead of n(n-1)/2 = %d" % (sum(len(tl) for tl in lists), n * (n - 1) // 2)
    if _maxabs(np.abs(diags) - 1) > TOL:
        return "diag_not_unitary", "|diag| = %s" % np.abs(diags).tolist()
    if name == "triangular":
        R = _rec_triangular(a, diags)
    elif name in ("rectangular", "rectangular_MZ"):
        R = _rec_sandwich(a, diags, b, elem)
    else:
        R = _rec_sandwich(a, diags, [], elem)
    e = _maxabs(R - U)
    if e > TOL:
        return "reconstruction", "product of the returned elements differs from U by %.3g" % e
    return None


def check_mesh(ctx, case):
    dec = _dec()
    U = _dec_unitary(case)
    ctx.note(case, nontrivial=_nontrivial(U), labels=MESH + _u_labels(case["kind"], U))
    for name in MESH:
        try:
            res = _mesh_one(dec, name, U)
        except ValueError as exc:
            return ctx.fail("%s.rejects_valid" % name, "valid unitary (error %.2g) rejected: %s" % (_unit_err(U), exc))
        except Exception as exc:  # pylint: disable=broad-except
            return ctx.crash(exc, name)
        if res:
            return ctx.fail("%s.%s" % (name, res[0]), res[1])
    return None


# ---------------------------------------------------------------------------------------------
# compact meshes (sMZI + phase shifters) and SU(n) factorisation
# ---------------------------------------------------------------------------------------------
def _phase_dict_ok(d, what):
    if not isinstance(d, dict):
        return "%s is %r" % (what, type(d))
    for k in sorted(d, key=repr):
        if not _finite_real(d[k]):
            return "%s[%r] = %r is not a finite real" % (what, k, d[k])
    return None


def _rec_triangular_compact(ph):
    m = ph["m"]
    U = np.eye(m, dtype=complex)
    for j in range(m - 1):
        U = P_own(j + 1, ph["phi_ins"][j], m) @ U
        for k in range(j + 1):
            nn = j - k
            U = sMZI_own(nn, ph["sigmas"][nn, k], ph["deltas"][nn, k], m) @ U
    for j in range(m):
        U = P_own(j, ph["zetas"][j], m) @ U
    return U


def _rec_rectangular_compact(ph):
    m = ph["m"]
    U = np.eye(m, dtype=complex)
    for j in range(0, m - 1, 2):
        U = P_own(j, ph["phi_ins"][j], m) @ U
    for layer in range(m):
        if (layer + m + 1) % 2 == 0:
            U = P_own(m - 1, ph["phi_edges"].get((m - 1, layer), 0.0), m) @ U
        for mode in range(layer % 2, m - 1, 2):
            U = sMZI_own(mode, ph["sigmas"][mode, layer], ph["deltas"][mode, layer], m) @ U
    for j in sorted(ph["phi_outs"]):
        U = P_own(j, ph["phi_outs"][j], m) @ U
    return U


def _compact_one(dec, name, U):
    n = U.shape[0]
    Uin = U.copy()
    ph = getattr(dec, name)(Uin)
    if _touched(Uin, U):
        return "modifies_input", "the argument was changed in place by up to %.3g" % _maxabs(Uin - U)
    keys = ["phi_ins", "sigmas", "deltas"] + (["zetas"] if name == "triangular_compact" else ["phi_edges", "phi_outs"])
    if not isinstance(ph, dict) or ph.get("m") != n or any(k not in ph for k in keys):
        return "return_shape", "returned keys %r" % (sorted(ph) if isinstance(ph, dict) else type(ph),)
    for k in keys:
        err = _phase_dict_ok(ph[k], k)
        if err:
            return "parameters", err
    if len(ph["sigmas"]) != n * (n - 1) // 2 or len(ph["deltas"]) != n * (n - 1) // 2:
        return "count", "%d sMZIs instead of %d" % (len(ph["sigmas"]), n * (n - 1) // 2)
    try:
        R = _rec_triangular_compact(ph) if name == "triangular_compact" else _rec_rectangular_compact(ph)
    except KeyError as exc:
        return "missing_parameter", "parameter %s missing" % (exc,)
    e = _maxabs(R - U)
    if e > TOL:
        return "reconstruction", "product of the returned elements differs from U by %.3g" % e
    return None


def _sun_diagnose(U):
    """Follow the documented recursion of sun_compact (a staircase of adjacent SU(2)s R_ij maps column 0 to e_0, recurse on
    the lower-right block down to 2x2) with own arithmetic, keeping the routine's phase conventions.  Returns a dict:
      tail   smallest column tail hypot(|c[m-2]|, |c[m-1]|) on a level (size >= 4) that takes the routine's general branch
      x, yz  first column (x, y, z) of the 3x3 block: x and hypot(|y|, |z|)
      cos    the moduli |R_ij[0,0]| = cos(beta/2) of all SU(2) factors of the general branches
      amp    product over the general-branch levels of 1 + sum_i 1 / |c[i:]|^2: factor by which the routine's way of computing
             cf = sqrt(1 - sum_{k<i} |c_k|^2) amplifies rounding errors (calibrated: all of 1016 rejected valid unitaries among
             4000 Haar / beamsplitter-product inputs of size 4..8 have amp >= 3.5e4)"""
    n = U.shape[0]
    W = np.array(U, dtype=complex) * np.exp(-1j * np.angle(np.linalg.det(U)) / n)
    out = {"tail": np.inf, "cos": [], "amp": 1.0}
    while W.shape[0] > 2:
        m = W.shape[0]
        mod = np.abs(W[:, 0])
        if m == 3:
            out["x"], out["yz"] = complex(W[0, 0]), float(np.hypot(mod[1], mod[2]))
        p = int(np.argmax(mod))
        if np.all(np.delete(mod, p) <= 1e-12):
            # unit vector: the routine's special branches bubble the unit entry c_p to the top with [[0,-1],[1,0]] swaps and
            # cancel its phase with diag(conj(t), t) on rows 0, 1, t = (-1)^p c_p: the other rows keep their order, the first
            # of them is multiplied by t
            t = W[p, 0] * (-1) ** p
            W = np.delete(np.delete(W, p, axis=0), 0, axis=1)
            W[0, :] = W[0, :] * t
            continue
        if m > 3:
            out["tail"] = min(out["tail"], float(np.hypot(mod[m - 2], mod[m - 1])))
        # the routine takes every cf from 1 - sum |c_k|^2: a deviation of the column norm from 1 is divided by cf^2
        tl = [float(np.linalg.norm(mod[i:])) for i in range(1, m - 1)] + [float(np.linalg.norm(mod[1:]))]
        out["amp"] *= 1 + sum(1 / max(t, 1e-100) ** 2 for t in tl)
        W = W.copy()
        for i in range(m - 2, -1, -1):  # R_ij^-1 = [[conj Y, conj Z], [-Z, Y]], (Y, Z) = (y, z) / hypot(|y|, |z|)
            y, z = W[i, 0], W[i + 1, 0]
            h = float(np.hypot(abs(y), abs(z)))
            if h > 0:
                out["cos"].append(abs(y) / h)
                W[i:i + 2, :] = (np.array([[np.conj(y), np.conj(z)], [-z, y]]) / h) @ W[i:i + 2, :]
        W = W[1:, 1:]
    out["cos"].append(abs(W[0, 0]))
    return out


def _sun_rootcause(U, outcome, err=0.0):
    """signature of the known weak spot of sun_compact that explains `outcome` ('rejected' with the SU(2) determinant
    message, or 'wrong' product with error err) on the valid unitary U, or None"""
    d = _sun_diagnose(U)
    x, yz = d["x"], d["yz"]
    if outcome == "rejected" and d["tail"] < 2e-2:
        return ("F15.sun_compact.staircase_vanishing_column_tail",
                "the staircase divides by cf = sqrt(1 - sum |U[k,0]|^2), which is 0 / dominated by cancellation: column tail %.3g" % d["tail"])
    lim = 1.001e-5 + 1e-8  # np.isclose default: atol 1e-8 + rtol 1e-5
    if abs(x - 1) <= lim and max(abs(x - 1), yz) > 5e-11:
        return ("F43.sun_compact_isclose_default_tolerance",
                "_su3_parameters takes x = 1 + %.3g (np.isclose default rtol 1e-5, not the routine's 1e-12) for exactly 1 and ignores "
                "its phase and the rest of the column (modulus %.3g)" % (abs(x - 1), yz))
    if abs(abs(x) - 1) <= lim and yz > 5e-11:
        return ("F43.sun_compact_isclose_default_tolerance",
                "_su3_parameters takes |x| = 1 - %.3g (np.isclose default rtol 1e-5, not the routine's 1e-12) for 1 and drops the rest "
                "of the column (modulus %.3g)" % (1 - abs(x), yz))
    small = [c for c in d["cos"] if 1e-9 < c < 1.5e-5]
    if outcome == "wrong" and small and err <= 3e-5:
        return ("sun_compact.su2_parameters_snaps_beta_to_pi",
                "_su2_parameters replaces |U[0,1]| within 1e-10 of 1 by exactly 1 (beta = pi), discarding cos(beta/2) = %s" % small)
    # beta = 2 arcsin |U[0,1]| (instead of atan2 of both moduli) divides the non-unitarity of the factor by cos(beta/2)
    dlt = _unit_err(U) + 1e-16
    ill = [c for c in d["cos"] if 1e-9 < c < 1e-2 and err <= 100 * dlt / c]
    if outcome == "wrong" and ill:
        return ("sun_compact.su2_parameters_snaps_beta_to_pi",
                "beta = 2 arcsin|U[0,1]| is ill-conditioned at |U[0,1]| ~ 1: the input's non-unitarity %.3g (within tolerance) is divided by "
                "cos(beta/2) = %s" % (dlt, ill))
    if outcome == "wrong" and (d["tail"] < 2e-2 or d["amp"] >= 3e3) and err <= 1e-6:
        return ("sun_compact.staircase_error_growth",
                "cf is taken from 1 - sum |c_k|^2 instead of from the entries: rounding errors are amplified by ~%.3g (smallest column tail "
                "%.3g); here the result is inaccurate instead of rejected" % (d["amp"], d["tail"]))
    if outcome == "rejected" and d["amp"] >= 3e3:
        return ("sun_compact.staircase_error_growth",
                "cf is taken from 1 - sum |c_k|^2 instead of from the entries: rounding errors are amplified by ~%.3g over the %d "
                "recursion levels until _su2_parameters' 1e-10 determinant test fails" % (d["amp"], U.shape[0] - 2))
    return None


def _sun_one(dec, U):
    n = U.shape[0]
    Uin = U.copy()
    try:
        out = dec.sun_compact(Uin)
    except ValueError as exc:
        msg = str(exc)
        if np.isrealobj(U) and np.linalg.det(U) < 0 and "determinant 1" in msg:
            return ("sun_compact.real_dtype_negative_determinant_nan",
                    "real-dtype orthogonal matrix with det = -1: `det ** (-1 / n)` of a negative numpy float is nan, the whole matrix "
                    "becomes nan and the misleading %r is raised (the same matrix as complex array is decomposed)" % msg)
        rc = _sun_rootcause(U, "rejected") if "determinant 1" in msg and "SU(2)" in msg else None
        if rc:
            return rc[0], "valid unitary rejected with %r; %s" % (msg, rc[1])
        return "sun_compact.rejects_valid", "valid unitary (error %.2g) rejected: %s" % (_unit_err(U), msg)
    if _touched(Uin, U):
        return "sun_compact.modifies_input", "the argument was changed in place by up to %.3g" % _maxabs(Uin - U)
    if not (isinstance(out, tuple) and len(out) == 2):
        return "sun_compact.return_shape", "returned %r" % (type(out),)
    params, gp = out
    if gp is not None and not _finite_real(gp):
        return "sun_compact.parameters", "global phase %r" % (gp,)
    if len(params) != n * (n - 1) // 2:
        return "sun_compact.count", "%d SU(2) elements instead of %d" % (len(params), n * (n - 1) // 2)
    R = np.eye(n, dtype=complex)
    for modes, abg in params:
        i, j = int(modes[0]), int(modes[1])
        if not (0 <= i and j == i + 1 and j < n) or len(abg) != 3 or not all(_finite_real(v) for v in abg):
            return "sun_compact.parameters", "element %r %r" % (modes, abg)
        E = np.eye(n, dtype=complex)
        E[i:j + 1, i:j + 1] = SU2_own(*[float(np.real(v)) for v in abg])
        R = R @ E
    if gp is not None:
        R = R * np.exp(1j * float(gp) / n)
    e = _maxabs(R - U)
    if e > TOL:
        rc = _sun_rootcause(U, "wrong", e)
        if rc:
            return rc[0], "e^{i phase/n} prod SU2_ij(a,b,g) differs from U by %.3g; %s" % (e, rc[1])
        return "sun_compact.reconstruction", "e^{i phase/n} prod SU2_ij(a,b,g) differs from U by %.3g" % e
    return None


def check_compact(ctx, case):
    dec = _dec()
    U = _dec_unitary(case)
    n = U.shape[0]
    names = ["triangular_compact", "rectangular_compact"] + (["sun_compact"] if n >= 3 else [])
    ctx.note(case, nontrivial=_nontrivial(U), labels=names + _u_labels(case["kind"], U))
    for name in names[:2]:
        try:
            res = _compact_one(dec, name, U)
        except ValueError as exc:
            return ctx.fail("%s.rejects_valid" % name, "valid unitary (error %.2g) rejected: %s" % (_unit_err(U), exc))
        except Exception as exc:  # pylint: disable=broad-except
            return ctx.crash(exc, name)
        if res:
            return ctx.fail("%s.%s" % (name, res[0]), res[1])
    if n >= 3:
        try:
            res = _sun_one(dec, U)
        except Exception as exc:  # pylint: disable=broad-except
            return ctx.crash(exc, "sun_compact")
        if res:
            return ctx.fail(res[0], res[1])
    return None


# ---------------------------------------------------------------------------------------------
# graph embeddings
# ---------------------------------------------------------------------------------------------
@st.composite
def graph_case(draw, nmax):
    n = draw(st.integers(1, nmax))
    routine = draw(st.sampled_from(["graph_embed", "graph_embed", "bipartite_graph_embed"]))
    kind = draw(st.sampled_from(["complex", "real", "adjacency", "rank_deficient", "takagi_form", "diag"]))
    if kind in ("complex", "real"):
        A = draw(gen.ginibre(n, complex_=(kind == "complex")))
    elif kind == "adjacency":
        A = np.array(draw(st.lists(st.integers(0, 1), min_size=n * n, max_size=n * n)), dtype=float).reshape(n, n)
    elif kind == "rank_deficient":
        A = draw(gen.ginibre(n))
        A[:, -1] = 0
        A[-1, :] = 0
    elif kind == "takagi_form":
        W = draw(unitary_plus(n))[1]
        W2 = W if routine == "graph_embed" or draw(st.booleans()) else draw(unitary_plus(n))[1]
        A = W @ np.diag(draw(sv_list(n))) @ W2.T
    else:
        A = np.diag(draw(sv_list(n))).astype(complex)
    sym = routine == "graph_embed" or (kind != "takagi_form" and draw(st.booleans()))
    if sym:
        A = np.triu(A) + np.triu(A, 1).T if kind == "adjacency" else (A + A.T) / 2  # adjacency matrices stay 0/1
    # the symmetry tolerances: defaults, or what the only callers pass (ops.GraphEmbed / BipartiteGraphEmbed: rtol=0, atol=1e-6)
    tols = draw(st.sampled_from([None, None, None, [0.0, 1e-6], [0.0, 1e-6], [1e-5, 1e-6], [0.0, 1e-8]]))
    generic = kind in ("complex", "real")
    if routine == "bipartite_graph_embed" and sym and n >= 2 and draw(st.booleans()):
        # nearly symmetric biadjacency matrix: any square matrix is a valid input of this routine.  With a symmetry tolerance of
        # 1e-6 an asymmetry > 1e-8 takes the takagi branch: only on generic (well separated) spectra, a (nearly) degenerate
        # subspace split by the asymmetry is takagi's known weak spot N1 at gaps beyond its 1e-6 window
        big = tols is not None and tols[1] > 1e-7
        asym = draw(st.sampled_from([1e-10, 1e-9, 1e-8, 1e-7, 1e-6] if (generic or not big) else [1e-10, 1e-9, 1e-8]))
        kind = "nearly_symmetric"
        A = A.astype(complex)
        A[0, 1] += asym
    if _maxabs(A) < 0.1:
        A = A.astype(complex)
        A[0, 0] += 1.0
    mt = False
    if routine == "graph_embed" and n >= 2 and draw(st.booleans()):
        mt = _maxabs(A - np.trace(A) / n * np.eye(n)) >= 0.1
    mp = draw(st.one_of(st.sampled_from([1.0, 0.5, 0.01, 5.0]), gen.fl(0.01, 5.0)))
    case = {"n": n, "routine": routine, "kind": kind, "A": spec.enc_matrix(A), "mean_photon_per_mode": mp, "make_traceless": bool(mt),
            "tols": tols}
    if kind == "adjacency" and np.isrealobj(A) and draw(st.booleans()):
        case["dtype"] = "int"  # 0/1 (half-integer after symmetrisation: then left as float) adjacency matrix as integer array
        if not np.array_equal(A, np.rint(A)):
            del case["dtype"]
    return case


def check_graph(ctx, case):
    dec = _dec()
    A = spec.dec_param(case["A"])
    if case.get("dtype") == "int":
        A = _as_int(A)
    A0 = A.copy()
    n, routine, mp, mt = A.shape[0], case["routine"], case["mean_photon_per_mode"], case["make_traceless"]
    tols = case.get("tols")
    rtol, atol = tols or (1e-5, 1e-8)  # the routines' defaults
    kw = {} if tols is None else {"rtol": rtol, "atol": atol}
    labels = [routine, "kind:" + case["kind"]] + (["make_traceless"] if mt else [])
    if tols is not None:
        labels.append("symmetry_tolerance_arg")
        if rtol == 0 and atol == 1e-6:
            labels.append("callers_tolerance")
    if case.get("dtype") == "int":
        labels.append("int_dtype")
    sv = np.linalg.svd(A, compute_uv=False)
    if len(set(np.round(sv, 9).tolist())) < n:
        labels.append("degenerate")
    ctx.note(case, nontrivial=_nontrivial(A), labels=labels)
    try:
        if routine == "graph_embed":
            r, U = dec.graph_embed(A, mean_photon_per_mode=mp, make_traceless=mt, **kw)
            V = U
        else:
            r, U, V = dec.bipartite_graph_embed(A, mean_photon_per_mode=mp, **kw)
    except ValueError as exc:
        asym = _maxabs(A0 - A0.T)
        if routine == "bipartite_graph_embed" and "not symmetric" in str(exc) and 0 < asym < 1e-4 * _maxabs(A0):
            # open finding N10 is the mismatch of the routine's two symmetry tests: the scaled matrix passes the elementwise
            # allclose(rtol, atol) but its asymmetry has a Frobenius norm >= atol, which takagi(tol=atol) refuses.  A refusal below
            # that norm is NOT that finding (scale: thewalrus' deterministic root finder, 10% margin)
            from thewalrus.quantum import adj_scaling

            sA = adj_scaling(np.block([[0 * A0, A0], [A0.T, 0 * A0]]), 2 * n * mp) * A0
            fro = float(np.linalg.norm(sA - sA.T))
            if np.allclose(sA, sA.T, rtol=rtol, atol=atol) and fro >= 0.9 * atol:
                return ctx.fail("bipartite_graph_embed.nearly_symmetric_input_rejected_by_takagi",
                                "any square matrix is valid here, but |A - A^T| = %.3g passes the routine's elementwise allclose(rtol %g, atol "
                                "%g) test, so takagi is called, whose Frobenius-norm test (%.3g >= tol = atol) raises: %s"
                                % (asym, rtol, atol, fro, exc))
            return ctx.fail("bipartite_graph_embed.rejects_valid",
                            "any square matrix is valid here; the scaled asymmetry %.3g (Frobenius) is below atol = %g, yet: %s" % (fro, atol, exc))
        return ctx.fail("%s.rejects_valid" % routine, "valid matrix rejected: %s" % exc)
    except Exception as exc:  # pylint: disable=broad-except
        return ctx.crash(exc, routine)
    if _touched(A, A0):
        return ctx.fail("%s.modifies_input" % routine, "the argument was changed in place by up to %.3g (relative %.3g)"
                        % (_maxabs(A - A0), _maxabs(A - A0) / _maxabs(A0)))
    A = A0
    At = A - np.trace(A) / n * np.eye(n) if mt else A
    col = _Collect()
    _graph_verdict(col, routine, At, r, U, V, mp, TOL, sym_tols=(rtol, atol) if routine == "bipartite_graph_embed" else None)
    if col.failed:
        # both routines hand the scaled matrix to takagi: a failure there is takagi's (same scale as the routine: thewalrus'
        # deterministic root finder, third-party code)
        from thewalrus.quantum import adj_scaling

        if routine == "graph_embed":
            rc = _takagi_rootcause(adj_scaling(At, n * mp) * At)
        else:
            sc = adj_scaling(np.block([[0 * A, A], [A.T, 0 * A]]), 2 * n * mp)
            rc = _takagi_rootcause(sc * A) if np.allclose(sc * A, (sc * A).T, rtol=rtol, atol=atol) else None
        if rc:
            return ctx.fail(rc[0], "%s fails through takagi (%s): %s" % (routine, col.failed[1], rc[1]))
        return ctx.fail(*col.failed)
    return None


def _graph_verdict(ctx, routine, At, r, U, V, mp, tol, sym_tols=None):
    """sym_tols = (rtol, atol) of bipartite_graph_embed: a biadjacency matrix whose scaled version c A is symmetric within that
    tolerance (elementwise, as documented) is embedded as a symmetric matrix within c * |A - A^T| of c A: the bound is loosened by
    100 x that asymmetry (as in the `invalid` sub-check), and the singular values s_i = tanh r_i, hence sum sinh^2 r_i, may move
    accordingly"""
    n = At.shape[0]
    r, U, V = np.asarray(r), np.asarray(U), np.asarray(V)
    if r.shape != (n,) or U.shape != (n, n) or V.shape != (n, n) or np.iscomplexobj(r) or not np.all(np.isfinite(r)) \
            or not np.all(np.isfinite(U)) or not np.all(np.isfinite(V)):
        return ctx.fail("%s.shape_or_nan" % routine, "r %r" % (r,))
    if max(_unit_err(U), _unit_err(V)) > tol:
        return ctx.fail("%s.not_unitary" % routine, "|U^+ U - 1| = %.3g" % max(_unit_err(U), _unit_err(V)))
    R = U @ np.diag(np.tanh(-r)) @ V.T
    c = float(np.vdot(At, R).real / np.vdot(At, At).real)
    if not c > 0:
        return ctx.fail("%s.scaling_not_positive" % routine, "least-squares scaling c = %r" % c)
    asym = 0.0
    if sym_tols is not None and _maxabs(At - At.T) > 0 and \
            bool(np.all(c * np.abs(At - At.T) <= 1.05 * (sym_tols[1] + sym_tols[0] * c * np.abs(At.T)))):
        asym = c * _maxabs(At - At.T)
        tol = tol + 100 * asym
    e = _maxabs(R - c * At)
    if e > tol * (1 + c * _maxabs(At)):
        return ctx.fail("%s.reconstruction" % routine, "|U diag(tanh(-r)) V^T - c A| = %.3g (c = %.6g)" % (e, c))
    nbar = float(np.sum(np.sinh(r) ** 2))
    slack = 10 * asym * float(np.sum(2 * np.sinh(np.abs(r)) * np.cosh(r) ** 3))  # d sinh^2(artanh s) / ds = 2 sinh r cosh^3 r
    if abs(nbar - n * mp) > 1e-6 * n * mp + slack:
        return ctx.fail("%s.mean_photon" % routine, "sum sinh^2 r = %.12g, requested n * mean_photon_per_mode = %.12g" % (nbar, n * mp))
    return None


# ---------------------------------------------------------------------------------------------
# invalid and near-tolerance inputs
# ---------------------------------------------------------------------------------------------
UNITARY_ROUTINES = MESH + ["triangular_compact", "rectangular_compact", "sun_compact"]
FACTORS = [0.01, 0.1, 0.9, 1.1, 10.0, 1e4]
# routines that get a valid matrix with one entry replaced by nan / inf (mode "nonfinite").
# AUDIT-FINDING nonfinite-accepted: bloch_messiah and takagi are left out, their acceptance tests `norm(..) >= tol` are False for nan:
# bloch_messiah(S with a nan) returns (S, 1, 1), takagi (real path, inf entry) returns all-nan factors (out/audit/C17-nonfinite-accepted*.json).
# williamson and bipartite_graph_embed pass nan through their own tests as well and are only stopped by exceptions from inside
# scipy.linalg.sqrtm / LAPACK (build dependent): left out too.  graph_embed: nan only (a symmetric pair of inf passes np.allclose(A, A.T)
# and is refused by thewalrus' root finder, third-party code).
NONFINITE_ROUTINES = UNITARY_ROUTINES + ["graph_embed"]
NONFINITE = {"nan": float("nan"), "inf": float("inf"), "-inf": float("-inf"), "nan_imag": complex(0.0, float("nan")),
             "inf_imag": complex(0.0, float("inf"))}


@st.composite
def invalid_case(draw, nmax):
    routine = draw(st.sampled_from(UNITARY_ROUTINES + ["takagi", "takagi", "williamson", "williamson", "bloch_messiah", "bloch_messiah",
                                                       "graph_embed", "bipartite_graph_embed"]))
    nmin = 3 if routine == "sun_compact" else 2
    n = draw(st.integers(nmin, max(nmin, min(nmax, 5))))
    factor = draw(st.sampled_from(FACTORS))
    tol = None
    case = {"routine": routine}
    if routine in NONFINITE_ROUTINES and draw(st.integers(0, 5)) == 0:
        if routine == "graph_embed":
            W = draw(gen.unitary(n, ["haar", "orth", "identity"]))[1]
            M = W @ np.diag(np.linspace(1.0, 0.3, n)) @ W.T
            M = (M + M.T) / 2
            if bool(np.all(M.imag == 0)) and draw(st.booleans()):
                M = M.real.copy()
            case["mean_photon_per_mode"] = 1.0
            value = "nan" if np.isrealobj(M) else draw(st.sampled_from(["nan", "nan_imag"]))
        else:
            M = draw(gen.unitary(n, ["haar", "haar", "orth", "perm", "identity", "diag"]))[1]
            value = draw(st.sampled_from(["nan", "nan", "inf", "-inf", "nan_imag", "inf_imag"]))
        case.update({"mode": "nonfinite", "factor": factor, "tol": draw(st.sampled_from([None, None, 1e-6])), "M": spec.enc_matrix(M),
                     "poison": {"at": [draw(st.integers(0, n - 1)), draw(st.integers(0, n - 1))], "value": value}})
        return case
    if routine in UNITARY_ROUTINES:
        mode = draw(st.sampled_from(["nonunitary", "nonunitary", "nonunitary", "nonsquare", "gross"] + (["too_small"] if routine == "sun_compact" else [])))
        tol = draw(st.sampled_from([None, None, 1e-9, 1e-6]))
        thr = tol or (1e-12 if "compact" in routine else 1e-11)
        U = draw(gen.unitary(n, ["haar", "haar", "orth"]))[1]
        if mode == "nonunitary":
            how = draw(st.sampled_from(["row_scale", "entry"]))
            k = draw(st.integers(0, n - 1))
            if how == "row_scale":  # U U^+ deviates by 2a + a^2 on one diagonal entry (compact: threshold atol + rtol there)
                a = np.sqrt(1 + factor * thr * (2 if "compact" in routine else 1)) - 1
                M = U.copy()
                M[k, :] *= 1 + a
            else:
                a = factor * thr / 2
                M = U.copy()
                M[k, (k + 1) % n] += a * np.exp(1j * draw(gen.angle()))
        elif mode == "gross":
            M = draw(gen.ginibre(n)) + 0.5 * np.eye(n)
        elif mode == "too_small":
            M = draw(gen.unitary(draw(st.integers(1, 2))))[1]
        else:
            shape = draw(st.sampled_from(["wide", "tall", "1xm", "mx1"]))
            M = {"wide": U[:-1, :], "tall": U[:, :-1], "1xm": U[:1, :], "mx1": U[:, :1]}[shape]
            mode = "nonsquare_" + shape
    elif routine in ("takagi", "graph_embed"):
        mode = draw(st.sampled_from(["asym", "asym", "asym", "nonsquare", "gross"]))
        tol = draw(st.sampled_from([None, None, 1e-9, 1e-6]))
        W = draw(gen.unitary(n, ["haar", "orth"]))[1]
        sv = np.linspace(1.0, 0.3, n)  # well separated: the near-degenerate weakness of takagi is not what is probed here
        A = W @ np.diag(sv) @ W.T
        A = (A + A.T) / 2
        if routine == "graph_embed":
            case["mean_photon_per_mode"] = draw(st.sampled_from([1.0, 0.3]))
        if mode == "asym":
            i, j = draw(st.permutations(list(range(n))))[:2]
            M = A.copy()
            if routine == "takagi":  # |N - N^T|_F = sqrt(2) a  against tol
                M[i, j] += factor * (tol or 1e-13) / np.sqrt(2)
            else:  # elementwise a <= atol + rtol |A_ji| (allclose), then |c (A - A^T)|_F < atol inside takagi, c < 1/sigma_max
                atol = tol or 1e-8
                if factor < 1:
                    M[i, j] += factor * atol / np.sqrt(2)  # c <= 1 / sigma_max = 1: below both thresholds
                else:
                    M[i, j] += factor * (atol + 1e-5 * max(abs(A[i, j]), abs(A[j, i])) + 1e-5 * factor * atol)
        elif mode == "gross":
            M = draw(gen.ginibre(n))
            M[0, 1] = M[1, 0] + 0.5
        else:
            M = A[:, :-1] if draw(st.booleans()) else A[:-1, :]
    elif routine == "bipartite_graph_embed":
        mode = "nonsquare"
        A = draw(gen.ginibre(n))
        M = A[:, :-1] if draw(st.booleans()) else A[:-1, :]
        case["mean_photon_per_mode"] = 1.0
    elif routine == "williamson":
        mode = draw(st.sampled_from(["asym", "asym", "asym", "nonsquare", "odd", "notposdef", "notposdef", "notposdef", "gross"]))
        tol = draw(st.sampled_from([None, None, 1e-9, 1e-6]))
        V = draw(gen.covariance(n, 2.0, ["mixed_generic", "pure_generic"]))[1]
        V = (V + V.T) / 2
        if mode == "asym":
            i, j = draw(st.permutations(list(range(2 * n))))[:2]
            M = V.copy()
            M[i, j] += factor * (tol or 1e-11) / np.sqrt(2)
        elif mode == "nonsquare":
            M = V[:, :-1]
        elif mode == "odd":
            M = V[:-1, :-1]
        elif mode == "notposdef":  # flip the sign of one or more eigenvalues (even counts keep det > 0): symmetric, indefinite
            w, Q = np.linalg.eigh(V)
            k_neg = draw(st.sampled_from([1, 2, 2, 3, 2 * n]))
            # slightly indefinite (boundary of positive definiteness): eigenvalues -1e-6 .. -1e-9 x (0.2 .. 5), far above the 1e-15
            # resolution of eigvalsh, so the sign is not a matter of rounding
            fs = [1.0, 0.1, 1e-3] if draw(st.booleans()) else [1e-6, 1e-8, 1e-9]
            for i_ in list(draw(st.permutations(list(range(2 * n)))))[:min(k_neg, 2 * n)]:
                w[i_] *= -draw(st.sampled_from(fs))
            M = (Q * w) @ Q.T
            M = (M + M.T) / 2
            if fs[0] < 1e-3:
                mode = "notposdef_slightly"
        else:
            M = draw(gen.ginibre(2 * n, complex_=False))
            M[0, 1] = M[1, 0] + 0.5
    else:  # bloch_messiah
        mode = draw(st.sampled_from(["nonsymplectic", "nonsymplectic", "nonsymplectic", "nonsquare", "odd", "gross"]))
        tol = draw(st.sampled_from([None, None, 1e-8, 1e-6]))
        r = np.linspace(0.2, 0.7, n)  # well separated squeezing
        O1 = gen.orth_symplectic(draw(gen.unitary(n, ["haar", "orth"]))[1])
        O2 = gen.orth_symplectic(draw(gen.unitary(n, ["haar", "orth"]))[1])
        S = O1 @ np.diag(np.concatenate([np.exp(-r), np.exp(r)])) @ O2
        if mode == "nonsymplectic":
            how = draw(st.sampled_from(["scale", "entry"]))
            thr = tol or 1e-10
            if how == "scale":  # |S^T Omega S - Omega|_F = (2a + a^2) sqrt(2n)
                M = S * np.sqrt(1 + factor * thr / np.sqrt(2 * n))
            else:
                M = S.copy()
                M[draw(st.integers(0, 2 * n - 1)), draw(st.integers(0, 2 * n - 1))] += factor * thr / 4
        elif mode == "nonsquare":
            M = S[:, :-1]
        elif mode == "odd":
            M = S[:-1, :-1]
        else:
            M = draw(gen.ginibre(2 * n, complex_=False)) + np.eye(2 * n)
    case.update({"mode": mode, "factor": factor, "tol": tol, "M": spec.enc_matrix(M)})
    return case


def _violation(routine, M, tol, case):
    """(rho_lo, rho_hi, size): size of the violation of the routine's documented acceptance test in the routine's own norm and
    lower / upper bound of its ratio to the tolerance (ratio >= 1 <=> the routine must reject).  None for shape errors etc."""
    if M.ndim != 2 or M.shape[0] != M.shape[1]:
        return None
    n = M.shape[0]
    if routine in MESH:  # np.allclose(V V^+, 1, atol=tol, rtol=0)
        t = tol or 1e-11
        s = _maxabs(M @ M.conj().T - np.eye(n))
        return s / t, s / t, s
    if routine in ("triangular_compact", "rectangular_compact", "sun_compact"):  # allclose(U U^+, 1, rtol, atol)
        if routine == "sun_compact" and n < 3:
            return None
        t = tol or 1e-12
        d = np.abs(M @ M.conj().T - np.eye(n))
        rho = float(np.max(d / (t + t * np.eye(n))))
        return rho, rho, float(np.max(d))
    if routine == "takagi":  # norm(N - N^T) >= tol
        s = float(np.linalg.norm(M - M.T))
        return s / (tol or 1e-13), s / (tol or 1e-13), s
    if routine == "williamson":
        if n % 2:
            return None
        s = float(np.linalg.norm(M - M.T))
        if np.min(np.linalg.eigvalsh((M + M.T) / 2)) < -1e-6:
            return None
        return s / (tol or 1e-11), s / (tol or 1e-11), s
    if routine == "bloch_messiah":
        if n % 2:
            return None
        Om = omega(n // 2)
        s = float(np.linalg.norm(M.T @ Om @ M - Om))
        return s / (tol or 1e-10), s / (tol or 1e-10), s
    if routine == "graph_embed":  # allclose(A, A^T, rtol, atol) elementwise, then takagi(c A, tol=atol) with c < 1 / sigma_max
        atol = tol or 1e-8
        d = np.abs(M - M.T)
        rho_el = float(np.max(d / (atol + 1e-5 * np.abs(M.T))))
        smax = float(np.linalg.svd(M, compute_uv=False)[0])
        rho_tk_upper = float(np.linalg.norm(M - M.T)) / smax / atol
        if rho_el > 1:
            return rho_el, rho_el, float(np.max(d))
        return 0.0, max(rho_el, rho_tk_upper), float(np.max(d))  # the scaling c is only bounded: acceptance can be asserted, rejection not
    return None


def _call(dec, routine, M, tol, case):
    f = getattr(dec, routine)
    if routine in MESH:
        return f(M) if tol is None else f(M, tol=tol)
    if routine in ("triangular_compact", "rectangular_compact", "sun_compact"):
        return f(M) if tol is None else f(M, rtol=tol, atol=tol)
    if routine == "takagi":
        return f(M) if tol is None else f(M, tol=tol)
    if routine == "graph_embed":
        kw = {} if tol is None else {"atol": tol}
        return f(M, mean_photon_per_mode=case["mean_photon_per_mode"], **kw)
    if routine == "bipartite_graph_embed":
        return f(M, mean_photon_per_mode=case["mean_photon_per_mode"])
    return f(M) if tol is None else f(M, tol=tol)


class _Collect:
    """stand-in for ctx that records the first failure of a shared verdict function instead of raising"""

    def __init__(self):
        self.failed = None

    def fail(self, sig, detail):
        if self.failed is None:
            self.failed = (sig, detail)


def _loose_verdict(routine, M, out, loose):
    """check an accepted, slightly invalid input against the looser bound; returns (sig, detail) or None"""
    c = _Collect()
    n = M.shape[0]
    if routine in MESH:
        a, diags, b = out
        mz = routine in ("rectangular_MZ", "rectangular_symmetric")
        elem = MZ_own if mz else T_own
        R = _rec_triangular(a, diags) if routine == "triangular" else _rec_sandwich(a, diags, b or [], elem)
        if _maxabs(R - M) > loose:
            c.fail("reconstruction", "product differs from the input by %.3g (bound %.3g)" % (_maxabs(R - M), loose))
    elif routine in ("triangular_compact", "rectangular_compact"):
        R = _rec_triangular_compact(out) if routine == "triangular_compact" else _rec_rectangular_compact(out)
        if _maxabs(R - M) > loose:
            c.fail("reconstruction", "product differs from the input by %.3g (bound %.3g)" % (_maxabs(R - M), loose))
    elif routine == "sun_compact":
        params, gp = out
        R = np.eye(n, dtype=complex)
        for modes, abg in params:
            E = np.eye(n, dtype=complex)
            E[int(modes[0]):int(modes[1]) + 1, int(modes[0]):int(modes[1]) + 1] = SU2_own(*[float(np.real(v)) for v in abg])
            R = R @ E
        R = R * (np.exp(1j * float(gp) / n) if gp is not None else 1)
        if _maxabs(R - M) > loose:
            c.fail("reconstruction", "product differs from the input by %.3g (bound %.3g)" % (_maxabs(R - M), loose))
    elif routine == "takagi":
        rl, W = out
        e = max(_maxabs(W @ np.diag(rl) @ W.T - M), _unit_err(W))
        if e > loose:
            c.fail("reconstruction", "W diag(rl) W^T / unitarity off by %.3g (bound %.3g)" % (e, loose))
    elif routine == "williamson":
        Db, S = out
        Ms = (M + M.T) / 2
        _williamson_verdict(c, Ms, Db, S, _sympl_spectrum(Ms)[0], loose, loose)
    elif routine == "bloch_messiah":
        O1, Z, O2 = out
        _bm_verdict(c, M, O1, Z, O2, np.linalg.svd(M, compute_uv=False), loose)
    return c.failed


def check_invalid(ctx, case):
    dec = _dec()
    routine, mode, tol = case["routine"], case["mode"], case["tol"]
    M = spec.dec_param(case["M"])
    if routine in UNITARY_ROUTINES:
        M = M.astype(complex)
    if case.get("poison"):  # one entry (graph_embed: a symmetric pair) of a valid matrix becomes nan / inf
        val = NONFINITE[case["poison"]["value"]]
        i_, j_ = case["poison"]["at"]
        if isinstance(val, complex):
            M = M.astype(complex)
        M[i_, j_] = val
        if case["poison"].get("sym", routine == "graph_embed"):
            M[j_, i_] = val
    v = _violation(routine, M, tol, case) if mode != "nonfinite" else None
    if mode in ("nonunitary", "asym", "nonsymplectic") and v is not None:
        rho_lo, rho, size = v
    else:
        rho_lo, rho, size = np.inf, np.inf, np.inf
    if rho_lo >= 1.05:
        expect = "reject"
    elif rho <= 0.2:
        expect = "accept"
    else:
        expect = "either"
    labels = [routine, "mode:" + mode, "invalid" if expect == "reject" else "near_tolerance", "expect:" + expect]
    if np.isfinite(rho) and rho < 100:
        labels.append("near_tolerance")
    ctx.note(case, nontrivial=True, labels=sorted(set(labels)))
    Min = M.copy()
    try:
        out = _call(dec, routine, Min, tol, case)
    except Exception as exc:  # pylint: disable=broad-except
        ctx.label("rejected_with:" + type(exc).__name__)
        if expect == "accept":
            if routine == "sun_compact" and isinstance(exc, ValueError) and "determinant 1" in str(exc):
                if tol is not None and tol > 1e-10 and size > 1e-12:
                    return ctx.fail("sun_compact.fixed_su2_determinant_tolerance_ignores_rtol_atol",
                                    "sun_compact(U, rtol=%g, atol=%g): U passes the unitarity test (violation %.3g = %.2g x tolerance) but "
                                    "_su2_parameters tests det == 1 with a fixed 1e-10: %s" % (tol, tol, size, rho, exc))
                rc = _sun_rootcause(M, "rejected")
                if rc:
                    return ctx.fail(rc[0], "input within 0.2x of the tolerance rejected with %r; %s" % (str(exc), rc[1]))
            return ctx.fail("%s.rejects_within_tolerance" % routine,
                            "input violates the acceptance test by only %.3g = %.2g x tolerance but raised %s: %s" % (size, rho, type(exc).__name__, exc))
        return None
    if expect == "reject":
        if mode.startswith("nonsquare_1xm") or (mode.startswith("nonsquare") and M.shape[0] == 1):
            return ctx.fail("%s.accepts_nonsquare_1xm" % routine, "a %dx%d matrix was decomposed without error (no shape check; V V^+ is 1x1 "
                            "and the loops are empty): returned %r" % (M.shape[0], M.shape[1], out[1] if isinstance(out, tuple) else out))
        return ctx.fail("%s.accepts_invalid.%s" % (routine, mode.split("_")[0]),
                        "input of shape %s violating the acceptance test by %.3g = %.3g x tolerance was decomposed without error" % (M.shape, size, rho))
    if _touched(Min, M):
        return ctx.fail("%s.modifies_input" % routine, "the argument was changed in place by up to %.3g" % _maxabs(Min - M))
    if routine in ("graph_embed", "bipartite_graph_embed"):
        return None
    loose = 1e-8 + 100 * size
    bad = _loose_verdict(routine, M, out, loose)
    if bad and routine == "sun_compact":
        rc = _sun_rootcause(M, "wrong", float(bad[1].split("by ")[1].split(" ")[0]))
        if rc:
            return ctx.fail(rc[0], "accepted input (violation %.3g = %.2g x tolerance): %s; %s" % (size, rho, bad[1], rc[1]))
    if bad:
        return ctx.fail("%s.near_tolerance.%s" % (routine, bad[0].split(".")[-1]), "accepted input (violation %.3g = %.2g x tolerance): %s" % (size, rho, bad[1]))
    return None


# ---------------------------------------------------------------------------------------------
SUBS = [
    Sub("takagi", check=check_takagi, strategy=lambda ctx: takagi_case(_nmax(ctx)), examples={"quick": 1500, "thorough": 6000},
        shards={"quick": 2, "thorough": 16}, rule="A = W diag(sv) W^T (complex / real / zero / diagonal / graphs / Gaussian integers / gaps 1e-14..1e-6), rounding 13..6, int dtype, entries x 1e-3 / 1e-5"),
    Sub("williamson", check=check_williamson, strategy=lambda ctx: williamson_case(_nmax(ctx)), examples={"quick": 900, "thorough": 4000},
        shards={"quick": 2, "thorough": 16}, rule="V = S D S^T: pure, thermal, mixed with zero occupations, sub-unit spectra, any hbar"),
    Sub("bloch_messiah", check=check_bm, strategy=lambda ctx: bm_case(_nmax(ctx)), examples={"quick": 900, "thorough": 4000},
        shards={"quick": 2, "thorough": 16}, rule="S = O1 Z O2 with drawn multiplicities of r (zeros, repeats), passive, diagonal, O1 Z, Z O2, integer CX/CZ/P shears, rounding 9..6"),
    Sub("mesh", check=check_mesh, strategy=lambda ctx: unitary_case(1, _nmax(ctx)), examples={"quick": 1200, "thorough": 5000},
        shards={"quick": 2, "thorough": 16}, rule="structured unitaries through rectangular / phase_end / MZ / symmetric / triangular"),
    Sub("compact", check=check_compact, strategy=lambda ctx: unitary_case(1, _nmax(ctx)), examples={"quick": 1200, "thorough": 5000},
        shards={"quick": 2, "thorough": 16}, rule="structured unitaries through triangular_compact / rectangular_compact / sun_compact"),
    Sub("graph_embed", check=check_graph, strategy=lambda ctx: graph_case(_nmax(ctx)), examples={"quick": 500, "thorough": 3000},
        shards={"quick": 2, "thorough": 16}, rule="symmetric / bipartite adjacency matrices, mean photon 0.01..5, make_traceless, rtol / atol (defaults, ops.py's 0 / 1e-6), int dtype"),
    Sub("invalid", check=check_invalid, strategy=lambda ctx: invalid_case(_nmax(ctx)), examples={"quick": 1500, "thorough": 6000},
        shards={"quick": 2, "thorough": 16}, rule="valid + perturbation of 0.01x..1e4x the routine's tolerance, non-square, odd, (slightly) indefinite, too small, nan / inf entry"),
]

MANIFEST = {
    "technique": "Hypothesis round-trip testing with harness-typed element matrices and independent spectra (numpy LAPACK)",
    "text": ("For generated structured inputs of size <= 6 (quick) / 8 (thorough) every routine of decompositions.py is called and its "
             "output multiplied back with matrices typed in the harness from the docstrings; structure predicates (unitary, symplectic, "
             "orthogonal-symplectic, positive paired diagonal, sorted singular values, finite real angles, phase ranges) are asserted to "
             "1e-8, invalid and boundary-of-tolerance inputs are classified with each routine's own norm and tolerance. Exploration only."),
    "note": "numpy/scipy linear algebra trusted; compact meshes interpreted as their only callers in ops.py do",
}
