"""C13 - a time-domain program denotes its explicit loop, however it is unrolled.

Oracle: the EXPLICIT LOOP written by the harness.  A register model keeps, for every position of the concurrent
register, the id of the light pulse sitting there; a measured pulse leaves (its id is never used again) and a fresh
vacuum pulse takes its place; after every time bin the register is shifted as documented (``shift="default"``: every
band separately by one step, integer: the whole register by that many steps).  Every gate of the loop body acts on
the pulses sitting at its positions with the parameter ``p[i][t]``.  All pulses are modes of one big Gaussian
reference state (vf.refsim maps applied locally); nothing is ever measured in the reference, the joint Gaussian of
the measured pulses is read off at the end.

Sub-checks
  space_state   single band: ``eng.run(prog, shots=None, space_unroll=True)`` (or ``prog.space_unroll()`` first)
                returns exactly the measured pulses 0..timebins-1 (``crop``: from ``get_crop_value()`` on) with the
                reference means / covariance.  A quarter of the programs have the documented delay-loop layout with
                beamsplitter arrays that start with zeros, so that the crop value is really > 0; for those the crop value
                itself is compared with the number of leading vacuum pulses of the explicit loop.  The options reach the
                engine as keywords, through ``prog.run_options`` or both (all sub-checks).
  unroll_chain  ``unroll`` (register shifting) with homodyne detection: RngSpy records the (mean, cov) handed to
                ``np.random.multivariate_normal`` at every measurement and forces the outcome; the chain of conditional
                distributions must equal the chain obtained by conditioning the reference joint Gaussian on the same
                outcomes in the same order, i.e. the same joint state is compared exactly, not statistically.  The
                forced outcomes are distinct, so they double as tags: ``Result.samples[shot, band, bin]`` and
                ``Result.samples_dict[first mode of the band][shot, bin]`` must carry the outcome of exactly that pulse.
  arrangement   the same oracle on wide multi-band registers such as N=[3,6,2] (measured modes 0, 3, 9), shots > 1,
                ``crop=True`` and sampling from a space-unrolled single-band program.
  rollback      rule based state machine on ONE TDMProgram object: unroll(s) / space_unroll(s) / roll() / run(..) in
                any order.  After every call the circuit must be the one the explicit loop predicts for the state the
                program is in (unroll twice == once, re-unrolling with other shots, space_unroll after unroll, the
                documented ValueError of unroll on a space-unrolled program), ``run`` must return what the oracle
                predicts and must leave the user's program alone, and after ``roll()`` the circuit consists of the
                original Command objects and register / num_subsystems / init_num_subsystems / timebins / parameters
                equal the deep snapshot taken after construction.
"""
from __future__ import annotations

import copy
import time
import warnings

import numpy as np
from hypothesis import strategies as st
from hypothesis.stateful import RuleBasedStateMachine, initialize, precondition, rule

from vf import gen, refsim, spec
from vf.core import Sub, Violation, crash_signature
from vf.rngspy import RngSpy

RULE = ("generated TDMProgram (1..5 bands of 1..6 concurrent modes, total <= 14, 1..6 time bins, 1..6 Gaussian gates with "
        "constant or per-bin array parameters (also arithmetic a*p[i] + b*p[j] + c on the loop variables) on arbitrary register "
        "positions incl. across bands, some daggered; homodyne (angle constant, array or expression; post-selected incl. the value "
        "0) or Fock detection of the first mode of every band; shift default or integer), or the documented delay-loop layout "
        "(1..3 loops of delay 1..3 one after the other, beamsplitter arrays that start with exact zeros, 2..8 bins), run with "
        "1..3 shots through unroll / space_unroll with shots / crop / space_unroll given as keyword, through prog.run_options, "
        "both or left at the default, or driven through a random history of unroll / space_unroll / roll / run "
        "calls; non-trivial = at least two time bins and a two-mode gate with a mixing parameter that is not a multiple of "
        "pi/2 (a real loop: different pulses interfere), or a history that contains roll() after an (space-)unroll; "
        "distinct = distinct JSON")
ASSUMPTIONS = [
    "gaussian backend, hbar = 2 (hbar dependence is C15)",
    "the gaussian backend models homodyne detection by a projection on a squeezed state of variance eps^2 = 4e-8: the "
    "reference conditions with the same added variance; the remaining O(eps^2) effect of the conjugate quadrature is "
    "covered by the tolerance 1e-6 * (1 + largest covariance entry + largest |mean|) on conditional means / variances "
    "(observed on > 20000 cases with the .H / band-order repairs applied: < 6e-9, expected bound ~ eps^2 = 4e-8); states "
    "returned without measurement: 1e-8 * (1 + scale) (observed < 1e-15)",
    "forced outcomes are arbitrary moderate numbers (|x| < 3), not samples: conditioning a Gaussian is defined for any value",
    "space_unroll(shots > 1) has no documented meaning (the register wraps around): only roll-back is checked for it",
    "Fock detection cannot be used with register shifting on the gaussian backend (the pulse is not removed; noted in "
    "the source): programs with MeasureFock are only run with shots=None or checked for roll-back",
    "multi-band programs are never space-unrolled with a state claim (the property restricts that to single-band programs)",
    "Program.locked and RegRef.val are not part of the roll-back comparison",
    "crop: the crop value is taken from prog.get_crop_value(); crop is only generated for single-band programs without MZgate / "
    "S2gate, whose compiled circuit has the beamsplitters of the source.  Its value is only checked for the delay-loop layout "
    "(source on the last position squeezing every bin by |r| >= 0.15, loops in circuit order from the source to the detector, "
    "beamsplitter angles from arrays of the form [0]*k + non-zero values in 0.3..1.2), where the docstring of get_crop_value "
    "('the number of vacuum modes arriving at the detector before the first computational mode') has an unambiguous meaning: "
    "the number of leading measured pulses of the explicit loop that are exactly vacuum (deviation < 1e-12; a pulse with a "
    "deviation between 1e-12 and 1e-6 leaves the case undecided).  Arrays with a zero after the first non-zero angle are not "
    "generated (audit finding crop-value-loop-closes-again)",
    "run options: prog.run_options are the documented defaults of eng.run and a keyword passed to eng.run takes precedence "
    "(docstring of TDMProgram.run_options); shots left out everywhere means shots = 1",
    "arithmetic on loop variables is only generated in angle slots (bounded effect on the energy); a*p - a*p is not generated",
    "when the engine is handed an already unrolled program it runs it with the shots it was unrolled with: the machine "
    "passes the same number to run()",
]
REQUIRED_LABELS = {"all": ["multi_band", "band_start_ge_8", "shots_gt1", "dagger_in_loop", "space_then_roll_then_space",
                           "integer_shift", "two_mode_across_bands", "array_index_ge_10", "band_start_ge_10", "bands_ge_4",
                           "delay_loop_layout", "crop_value_gt0", "crop_value_inside", "expr_two_loop_variables",
                           "shots_via_run_options", "shots_via_keyword_over_run_options", "shots_via_default",
                           "crop_via_run_options", "space_unroll_via_run_options", "select_zero_in_loop"]}

EPS2 = 0.0002 ** 2
SELECT = 0.25  # post-selection value of measurements of kind "hselect" (only used to see whether unrolling keeps it)
SELECTS = {"hselect": SELECT, "hselect0": 0.0}  # "hselect0": the post-selection value 0 (a value that is false in Python)
PI = float(np.pi)


def selftest():
    refsim.selftest()
    # local application of refsim maps == refsim on the full register
    seq = [("Sgate", [0.4, 0.3], [2], False), ("BSgate", [0.7, 0.2], [0, 2], False), ("Dgate", [0.5, 1.0], [1], True),
           ("MZgate", [0.3, 1.1], [3, 1], True), ("S2gate", [0.2, 0.5], [1, 0], False), ("Rgate", [0.6], [3], True)]
    a, b = Loop(4), refsim.Ref(4, 2.0)
    for nm, ps, ms, dg in seq:
        a.apply(nm, ps, ms, dg)
        b.apply(nm, ps, ms, dg)
    assert np.allclose(a.mu, b.mu, atol=1e-13) and np.allclose(a.V, b.V, atol=1e-13)
    # register model: single band, default shift: the pulse at position j in bin t is pulse t + j (validated formula)
    ps = {"N": [3], "T": 4, "arrays": [[0.1, 0.2, 0.3, 0.4]], "shift": "default",
          "body": [["BSgate", [["p", 0], 0.0], [0, 2], {}], ["Rgate", [0.3], [1], {}]], "meas": [[0, "homodyne", 0.0]]}
    ex = explicit_loop(ps, 2)
    k = 0
    for tau in range(8):
        assert ex["ops"][k][2] == [tau, tau + 2] and ex["ops"][k][1][0] == ps["arrays"][0][tau % 4]
        assert ex["ops"][k + 1][2] == [tau + 1]
        assert ex["ops"][k][3] == [tau % 3, (tau + 2) % 3]  # RegRef indices of the shifted register
        k += 2
        assert ex["meas"][tau]["pulse"] == tau and ex["meas"][tau]["phys"] == tau % 3
    # two bands shift separately; an integer shift moves the whole register
    ps2 = dict(ps, N=[2, 3], meas=[[0, "homodyne", 0.0], [1, "homodyne", 0.0]], body=[])
    ex = explicit_loop(ps2, 1)
    assert [m["phys"] for m in ex["meas"]] == [0, 2, 1, 3, 0, 4, 1, 2]
    ex = explicit_loop(dict(ps2, shift=2), 1)
    assert [m["phys"] for m in ex["meas"]] == [0, 2, 2, 4, 4, 1, 1, 3]
    # hand-typed closed form: one squeezed pulse split on a beamsplitter over two bins, x-homodyne
    ps3 = {"N": [2], "T": 2, "arrays": [[0.0, PI / 4]], "shift": "default",
           "body": [["Sgate", [0.5, 0.0], [1], {}], ["BSgate", [["p", 0], 0.0], [0, 1], {}]], "meas": [[0, "homodyne", 0.0]]}
    ex = explicit_loop(ps3, 1)
    mu, V = joint_of(ex, [m["pulse"] for m in ex["meas"]])
    # bin 0: pulse 1 squeezed, BS(0): pulse 0 is vacuum.  bin 1: pulse 2 squeezed, 50:50 BS on (pulse1, pulse2),
    # both inputs have x-variance e^-1, so the measured pulse 1 keeps x-variance e^-1
    assert abs(V[0, 0] - 1.0) < 1e-12 and abs(V[1, 1] - np.exp(-1.0)) < 1e-12 and abs(V[0, 1]) < 1e-12
    return True


# ---------------------------------------------------------------------------------------------
# reference: explicit loop
# ---------------------------------------------------------------------------------------------
class Loop:
    """Gaussian state of n pulses (hbar = 2, (x.., p..) order); maps come from vf.refsim, applied locally."""

    def __init__(self, n):
        self.n = n
        self.mu = np.zeros(2 * n)
        self.V = np.eye(2 * n)

    def apply(self, name, params, modes, dagger):
        k = len(modes)
        loc = refsim.Ref(k, 2.0)
        loc.apply(name, params, list(range(k)), dagger)
        S, d = loc.X, loc.d
        idx = list(modes) + [m + self.n for m in modes]
        self.mu[idx] = S @ self.mu[idx] + d
        self.V[idx, :] = S @ self.V[idx, :]
        self.V[:, idx] = self.V[:, idx] @ S.T

    def reduced(self, modes):
        idx = list(modes) + [m + self.n for m in modes]
        return self.mu[idx].copy(), self.V[np.ix_(idx, idx)].copy()


def starts_of(N):
    return [sum(N[:i]) for i in range(len(N))]


def _num(x, arrays, t):
    """value of a parameter spec in time bin t: a number, ["p", i] = p[i][t], or the user-written expression
    ["lin", i, j, a, b, c] = a * p[i][t] + b * p[j][t] + c"""
    if not isinstance(x, list):
        return x
    if x[0] == "lin":
        _, i, j, a, b, c = x
        return a * arrays[i][t] + b * arrays[j][t] + c
    return arrays[x[1]][t]


def _refs(x):
    """indices of the parameter arrays a parameter spec refers to"""
    if not isinstance(x, list):
        return []
    return [x[1], x[2]] if x[0] == "lin" else [x[1]]


def _sym(x, p):
    """the parameter as the user writes it inside the context (p = loop variables)"""
    if not isinstance(x, list):
        return x
    if x[0] == "lin":
        _, i, j, a, b, c = x
        e = (p[i] if a == 1 else a * p[i]) + (p[j] if b == 1 else b * p[j])
        return e + c if c != 0 else e
    return p[x[1]]


def explicit_loop(ps, shots, drop_dagger=False, force_default_shift=False):
    """The loop written out by hand.  Returns ops [(name, numeric params, pulse ids, RegRef indices, dagger)],
    meas [{k, shot, t, band, pulse, phys, angle}] in execution order, the number of pulses, and the full command
    sequence `cmds` (gates and measurements interleaved) as the unrolled circuit should look like."""
    N, T, arrays = ps["N"], ps["T"], ps["arrays"]
    total = sum(N)
    st_ = starts_of(N)
    shift = "default" if force_default_shift else ps["shift"]
    pulse = list(range(total))
    phys = list(range(total))
    nxt = total
    ops_, meas, cmds = [], [], []
    for s in range(shots):
        for t in range(T):
            for name, params, pos, flags in ps["body"]:
                vals = [_num(x, arrays, t) for x in params]
                dg = bool(flags.get("H")) and not drop_dagger
                item = (name, vals, [pulse[j] for j in pos], [phys[j] for j in pos], dg)
                ops_.append(item)
                cmds.append(("gate",) + item)
            for band, kind, ang in ps["meas"]:
                j = st_[band]
                m = {"k": len(meas), "shot": s, "t": t, "band": band, "pulse": pulse[j], "phys": phys[j],
                     "angle": _num(ang, arrays, t), "kind": kind}
                meas.append(m)
                cmds.append(("meas", kind, [m["angle"]] if kind != "fock" else [], [pulse[j]], [phys[j]], False))
                pulse[j] = nxt  # the measured pulse is gone; a fresh vacuum pulse takes its place
                nxt += 1
            if shift == "default":
                for b, n_b in enumerate(N):
                    a = st_[b]
                    pulse[a:a + n_b] = pulse[a + 1:a + n_b] + pulse[a:a + 1]
                    phys[a:a + n_b] = phys[a + 1:a + n_b] + phys[a:a + 1]
            else:
                pulse = pulse[shift:] + pulse[:shift]
                phys = phys[shift:] + phys[:shift]
    return {"ops": ops_, "meas": meas, "npulses": nxt, "cmds": cmds}


def joint_of(ex, pulses):
    sim = Loop(ex["npulses"])
    for name, vals, pl, _, dg in ex["ops"]:
        sim.apply(name, vals, pl, dg)
    return sim.reduced(pulses)


def chain_of(ex, values):
    """conditional (mean, variance incl. eps^2) of every measurement given the earlier forced outcomes"""
    K = len(ex["meas"])
    mu, V = joint_of(ex, [m["pulse"] for m in ex["meas"]])
    ref = refsim.Ref(K, 2.0)
    ref.mu, ref.V = mu, V
    out = []
    scale = float(np.max(np.abs(V))) + float(np.max(np.abs(mu))) if K else 0.0
    for k, m in enumerate(ex["meas"]):
        mean, var = ref.homodyne_dist(m["angle"], k)
        out.append((mean, var + EPS2))
        ref.condition_homodyne(m["angle"], values[k], k, noise=EPS2)
        scale = max(scale, float(np.max(np.abs(ref.mu))))
    return out, scale


def assumed_default_order_ok(ps, ex):
    """True iff the RegRef measured for band b in global bin tau is start_b + tau mod N_b (what holds under the default
    shift).  When it is False, the mode order recomputed by tdm.program._get_mode_order is not the executed one."""
    N = ps["N"]
    st_ = starts_of(N)
    for m in ex["meas"]:
        tau = m["shot"] * ps["T"] + m["t"]
        if m["phys"] != st_[m["band"]] + tau % N[m["band"]]:
            return False
    return True


# ---------------------------------------------------------------------------------------------
# building / running the program under test
# ---------------------------------------------------------------------------------------------
def build_tdm(ps):
    import strawberryfields as sf
    from strawberryfields import ops

    N = list(ps["N"])
    prog = sf.TDMProgram(N=N[0] if (len(N) == 1 and ps.get("N_as_int")) else N)
    kw = {} if ps["shift"] == "default" else {"shift": ps["shift"]}
    with prog.context(*[list(a) for a in ps["arrays"]], **kw) as (p, q):
        for name, params, pos, flags in ps["body"]:
            op = getattr(ops, name)(*[_sym(x, p) for x in params])
            if flags.get("H"):
                op = op.H
            op | (tuple(q[j] for j in pos) if len(pos) > 1 else q[pos[0]])
        st_ = starts_of(N)
        for band, kind, ang in ps["meas"]:
            if kind == "homodyne":
                ops.MeasureHomodyne(_sym(ang, p)) | q[st_[band]]
            elif kind in SELECTS:
                ops.MeasureHomodyne(_sym(ang, p), select=SELECTS[kind]) | q[st_[band]]
            else:
                ops.MeasureFock() | q[st_[band]]
    return prog


def forced_value(base, k):
    """distinct, moderate, exactly representable increments: doubles as the tag of measurement k"""
    return float(base[k % len(base)]) + 0.0078125 * k


class Spied:
    def __init__(self):
        self.mvn = []  # (mean, cov, forced value)


def run_spied(prog, base, seed=0, **kw):
    """eng.run on a fresh gaussian engine; every homodyne sampler call is recorded and its x outcome forced"""
    import strawberryfields as sf

    rec = Spied()

    def policy(call):
        if call.name != "multivariate_normal":
            return None
        mean = np.asarray(call.arg(0, "mean"), float)
        cov = np.asarray(call.arg(1, "cov"), float)
        v = forced_value(base, len(rec.mvn))
        rec.mvn.append((mean, cov, v))
        return np.array([[v, mean[1]]])

    eng = sf.Engine("gaussian")
    with warnings.catch_warnings():
        warnings.simplefilter("ignore")
        with RngSpy(seed=seed, policy=policy):
            res = eng.run(prog, **kw)
    return res, rec


def _fail(ctx, sig, detail):
    """report; returns True iff the signature is an open known finding (then the case is excluded, not failed)"""
    ctx.fail(sig, detail)
    return True


def has_dagger(ps):
    return any(f.get("H") for _, _, _, f in ps["body"])


def is_apply_op_symbol_crash(exc):
    return isinstance(exc, AttributeError) and "has no attribute 'name'" in str(exc)


EXPR_GATES = {"Xgate", "Zgate", "Pgate", "CXgate", "CZgate", "sMZgate"}


def classify_crash(ctx, exc, ps, what, shots=None, mode="unroll", after=""):
    """signature of an exception raised by repo code on a valid program (returns True iff it is an open known finding)"""
    import traceback

    tb = traceback.extract_tb(exc.__traceback__)
    last = tb[-1] if tb else None
    if is_apply_op_symbol_crash(exc) and last is not None and last.name == "apply_op" and any(g[0] in EXPR_GATES for g in ps["body"]):
        return _fail(ctx, "apply_op.decomposed_gate_parameter_not_substituted",
                     "%s%s: %s: a gate whose decomposition turns its parameter into an expression (%s) cannot be unrolled after "
                     "compilation" % (after, what, exc, sorted({g[0] for g in ps["body"]} & EXPR_GATES)))
    if shots and isinstance(exc, (KeyError, IndexError)) and last is not None and last.name == "reshape_samples":
        eff, ex = loop_for(ps, shots, mode)
        if not assumed_default_order_ok(eff, ex):
            return _fail(ctx, "samples.mode_order_assumes_default_shift",
                         "%s%s: %s in reshape_samples (%s): the RegRefs measured (%s..) are not the ones it assumes from N alone (%s, "
                         "shift=%r)" % (after, what, type(exc).__name__, exc, [m["phys"] for m in ex["meas"]][:8], mode, ps["shift"]))
    _, where = crash_signature(exc)
    return _fail(ctx, "crash.%s.%s@%s" % (what, type(exc).__name__, where), "%s%s: %s" % (after, type(exc).__name__, str(exc)[:300]))


def loop_for(ps, shots, mode):
    """explicit loop of a sampled run; space-unrolling always moves the register by one step and every pulse has a RegRef
    of its own (single band)"""
    if mode != "space":
        return ps, explicit_loop(ps, shots)
    eff = dict(ps, shift="default")
    ex = explicit_loop(eff, shots)
    for m in ex["meas"]:
        m["phys"] = m["pulse"]
    return eff, ex


# ---------------------------------------------------------------------------------------------
# verification of one sampled run against the explicit loop
# ---------------------------------------------------------------------------------------------
def verify_chain(ctx, ps, shots, rec, what):
    """returns (failed?, values): chain of conditional distributions vs the reference"""
    ex = explicit_loop(ps, shots)
    K = len(ex["meas"])
    if len(rec.mvn) != K:
        ctx.fail("unroll.measurement_count", "%s: %d homodyne samples drawn, the explicit loop has %d measured pulses (shots=%d)"
                 % (what, len(rec.mvn), K, shots))
        return True, None
    values = [v for _, _, v in rec.mvn]
    chain, scale = chain_of(ex, values)
    tol = 1e-6 * (1.0 + scale)
    worst = 0.0
    for k, ((mean, cov, _), (em, ev)) in enumerate(zip(rec.mvn, chain)):
        d = max(abs(mean[0] - em), abs(cov[0, 0] - ev))
        worst = max(worst, d / (1.0 + scale))
        if d > tol:
            m = ex["meas"][k]
            detail = ("%s: measurement #%d (shot %d, bin %d, band %d, angle %.4g): sampler got mean %.9g var %.9g, explicit loop "
                      "gives %.9g / %.9g given the earlier outcomes (tol %.2g)" % (what, k, m["shot"], m["t"], m["band"], m["angle"],
                                                                                  mean[0], cov[0, 0], em, ev, tol))
            if has_dagger(ps):
                alt, _ = chain_of(explicit_loop(ps, shots, drop_dagger=True), values)
                if all(max(abs(mn[0] - am), abs(cv[0, 0] - av)) <= tol for (mn, cv, _), (am, av) in zip(rec.mvn, alt)):
                    ctx.fail("apply_op.dagger_dropped", detail + "; the observed chain equals the loop with every .H removed")
                    return True, values
            ctx.fail("unroll.chain_mismatch", detail)
            return True, values
    ctx.info["chain_worst_rel"] = max(ctx.info.get("chain_worst_rel", 0.0), worst)
    return False, values


def set_order(ps, shots):
    """iteration order of the Python set the repo collects the measured modes in (same insertion order)"""
    s = set()
    st_ = starts_of(ps["N"])
    for _ in range(max(1, shots)):
        for band, _, _ in ps["meas"]:
            s.add(st_[band])
    return list(s)


def verify_arrangement(ctx, ps, shots, res, values, what, crop_from=0, ex=None):
    """Result.samples[shot, band, bin] / samples_dict[first mode of band][shot, bin] == outcome of that pulse"""
    ex = ex or explicit_loop(ps, shots)
    N, T = ps["N"], ps["T"]
    nb = len(N)
    st_ = starts_of(N)
    exp = np.full((shots, nb, T), np.nan)
    for m in ex["meas"]:
        exp[m["shot"], m["band"], m["t"]] = values[m["k"]]
    exp = exp[:, :, crop_from:]
    order_ok = assumed_default_order_ok(ps, ex)

    def fail(detail):
        if not order_ok:
            return _fail(ctx, "samples.mode_order_assumes_default_shift",
                         "%s: %s; the RegRefs measured (%s..) are not the ones reshape_samples assumes from N alone"
                         % (what, detail, [m["phys"] for m in ex["meas"]][:8]))
        so = set_order(ps, shots)
        if so != sorted(so):
            # prediction of the defect: samples_dict[so[i]] holds the outcomes of band i; the array is in band order
            sd = res.samples_dict
            try:
                pred = all(np.array_equal(np.asarray(sd[so[i]], float), exp[:, i, :]) for i in range(nb))
            except Exception:  # pylint: disable=broad-except
                pred = False
            if pred:
                return _fail(ctx, "samples_dict.keys_in_set_iteration_order",
                             "%s: %s; measured modes are iterated as %s (a Python set) but treated as band order: "
                             "samples_dict[%d] holds the outcomes of the band starting at mode %d"
                             % (what, detail, so, so[1], sorted(so)[1]))
        return _fail(ctx, "samples.arrangement", "%s: %s" % (what, detail))

    got = np.asarray(res.samples, float)
    if got.shape != exp.shape:
        return fail("Result.samples has shape %s, expected (shots, bands, bins) = %s" % (got.shape, exp.shape))
    sd = res.samples_dict
    if sorted(sd.keys()) != sorted(st_):
        return fail("samples_dict keys %s, measured modes are %s" % (sorted(sd.keys()), st_))
    for b in range(nb):
        g = np.asarray(sd[st_[b]], float)
        if g.shape != exp[:, b, :].shape or not np.array_equal(g, exp[:, b, :]):
            bad = _first_diff(g, exp[:, b, :])
            return fail("samples_dict[%d] (band %d) %s" % (st_[b], b, bad))
    if not np.array_equal(got, exp):
        idx = tuple(int(i) for i in np.argwhere(got != exp)[0])
        return fail("Result.samples%s = %.6f is not the outcome %.6f of (shot, band, bin) = %s"
                    % (list(idx), got[idx], exp[idx], list(idx)))
    return False


def _first_diff(g, e):
    if g.shape != e.shape:
        return "has shape %s, expected (shots, bins) = %s" % (g.shape, e.shape)
    idx = tuple(int(i) for i in np.argwhere(g != e)[0])
    return "entry %s is %.6f, the outcome of that pulse is %.6f" % (list(idx), g[idx], e[idx])


def verify_space_state(ctx, ps, state, what, crop_from=0):
    """state returned by a space-unrolled run without measurements == measured pulses crop_from..T-1 of the explicit loop"""
    T = ps["T"]
    want = list(range(crop_from, T))
    if not want:
        if state is not None:
            return _fail(ctx, "space_unroll.state_modes", "%s: a state with %d modes was returned although every bin is cropped" % (what, state.num_modes))
        return False
    if state is None or state.num_modes != len(want):
        return _fail(ctx, "space_unroll.state_modes", "%s: returned state has %s modes, the program has %d measured pulses (crop %d)"
                        % (what, None if state is None else state.num_modes, T, crop_from))
    ex = explicit_loop(ps, 1, force_default_shift=True)
    mu, V = joint_of(ex, [ex["meas"][t]["pulse"] for t in want])
    gm, gV = np.asarray(state.means(), float), np.asarray(state.cov(), float)
    scale = 1.0 + float(np.max(np.abs(V))) + float(np.max(np.abs(mu)))
    d = max(float(np.max(np.abs(gm - mu))), float(np.max(np.abs(gV - V))))
    ctx.info["space_worst_rel"] = max(ctx.info.get("space_worst_rel", 0.0), d / scale)
    if d <= 1e-8 * scale:
        if ps["shift"] != "default":
            ex2 = explicit_loop(ps, 1)
            mu2, V2 = joint_of(ex2, [ex2["meas"][t]["pulse"] for t in want])
            d2 = max(float(np.max(np.abs(gm - mu2))), float(np.max(np.abs(gV - V2))))
            if d2 > 1e-8 * scale:
                return _fail(ctx, "space_unroll.integer_shift_ignored",
                             "%s: with shift=%r the space-unrolled state differs by %.3g from the loop that shifts the register "
                             "by that amount; it equals the loop with the default shift" % (what, ps["shift"], d2))
        return False
    detail = "%s: state of the measured pulses differs from the explicit loop by %.3g (scale %.3g)" % (what, d, scale)
    if has_dagger(ps):
        exd = explicit_loop(ps, 1, drop_dagger=True, force_default_shift=True)
        mu3, V3 = joint_of(exd, [exd["meas"][t]["pulse"] for t in want])
        if max(float(np.max(np.abs(gm - mu3))), float(np.max(np.abs(gV - V3)))) <= 1e-8 * scale:
            return _fail(ctx, "apply_op.dagger_dropped", detail + "; it equals the loop with every .H removed")
    return _fail(ctx, "space_unroll.state_mismatch", detail)


# ---------------------------------------------------------------------------------------------
# generators
# ---------------------------------------------------------------------------------------------
GATE_SLOTS = {"Sgate": ["rs", "angle"], "Rgate": ["angle"], "Dgate": ["rd", "angle"], "BSgate": ["angle", "angle"],
              "MZgate": ["angle", "angle"], "S2gate": ["r2", "angle"],
              # gates whose gaussian decomposition rewrites the parameter (rare, see `expr_gates`)
              "Xgate": ["x"], "Zgate": ["x"], "Pgate": ["x"], "CXgate": ["x"], "CZgate": ["x"]}
TWO = {"BSgate", "MZgate", "S2gate", "CXgate", "CZgate"}
# wide registers; band starts with two digits (0, 5, 11: numeric order != order of the decimal strings), four / five bands
N_WIDE = [[3, 6, 2], [5, 6, 1], [2, 6, 3], [3, 3, 4, 2], [4, 4, 2], [6, 4, 2], [6, 2, 3], [1, 6, 5], [6, 6, 2], [4, 5, 1], [3, 6],
          [2, 3, 1, 4, 2], [6, 3, 1], [2, 2, 6], [5, 4, 3], [4, 6, 1, 2]]
LIN_COEF = [1, -1, 2, 0.5, -0.5]


def _slot(kind):
    return {"angle": gen.angle(), "rs": gen.real(-0.35, 0.35, (0.0,)), "rd": gen.real(0.0, 0.8, (0.0,)),
            "r2": gen.real(-0.25, 0.25, (0.0,)), "x": gen.real(-0.5, 0.5, (0.0,))}[kind]


@st.composite
def tdm_spec(draw, bands=None, meas_kinds=("homodyne",), max_body=6, wide=False, shifts=True, expr_gates=False, max_T=6,
             exprs=False):
    if bands == 1:
        N = [draw(st.integers(1, 6))]
    elif wide or draw(st.integers(0, 3)) == 0:
        N = list(draw(st.sampled_from(N_WIDE)))
    else:
        nb = draw(st.sampled_from([1, 1, 2, 3])) if bands is None else bands
        N, left = [], 12
        for b in range(nb):
            n_b = draw(st.integers(1, min(6, left - (nb - b - 1))))
            N.append(n_b)
            left -= n_b
    total = sum(N)
    T = draw(st.integers(1, max_T))
    arrays, kinds = [], []
    # many parameter arrays (two-digit loop-variable names p10, p11, ..): some leading arrays of mixed kinds, used or not
    cap = 5
    if draw(st.integers(0, 5)) == 0:
        for _ in range(draw(st.integers(8, 11))):
            kd = draw(st.sampled_from(["angle", "angle", "rs", "rd"]))
            arrays.append([draw(_slot(kd)) for _ in range(T)])
            kinds.append(kd)
        cap = len(arrays) + 4

    # user-written arithmetic on the loop variables (a * p[i] + b * p[j] + c, also with i == j) in angle slots
    use_exprs = exprs and draw(st.integers(0, 2)) == 0

    def param(kind):
        how = draw(st.integers(0, 2))
        if how == 0:
            return draw(_slot(kind))
        ang = [i for i, k in enumerate(kinds) if k == "angle"]
        if use_exprs and kind == "angle" and ang and draw(st.integers(0, 1)) == 0:
            i, j = draw(st.sampled_from(ang)), draw(st.sampled_from(ang))
            a, b = draw(st.sampled_from(LIN_COEF)), draw(st.sampled_from(LIN_COEF))
            if i == j and a + b == 0:
                b = a  # a * p - a * p is the number 0, not an expression
            return ["lin", i, j, a, b, draw(st.sampled_from([0.0, 0.25, -1.0]))]
        same = [i for i, k in enumerate(kinds) if k == kind]
        if same and (len(arrays) >= cap or draw(st.booleans())):
            return ["p", draw(st.sampled_from(same))]
        if len(arrays) >= cap:
            return draw(_slot(kind))
        arrays.append([draw(_slot(kind)) for _ in range(T)])
        kinds.append(kind)
        return ["p", len(arrays) - 1]

    names = ["Sgate", "Rgate", "Dgate"] + (["BSgate", "BSgate", "MZgate", "S2gate"] if total >= 2 else [])
    body = []
    for _ in range(draw(st.integers(0 if wide else 1, max_body))):
        name = draw(st.sampled_from(names))
        if expr_gates and draw(st.integers(0, 39)) == 0:
            name = draw(st.sampled_from(["Xgate", "Zgate", "Pgate"] + (["CXgate", "CZgate"] if total >= 2 else [])))
        k = 2 if name in TWO else 1
        pos = list(draw(st.permutations(list(range(total))))[:k])
        flags = {"H": True} if draw(st.integers(0, 3)) == 0 else {}
        body.append([name, [param(s) for s in GATE_SLOTS[name]], pos, flags])
    order = list(range(len(N)))
    if len(N) > 1 and draw(st.integers(0, 2)) == 0:
        order = list(draw(st.permutations(order)))
    meas = []
    for b in order:
        kind = draw(st.sampled_from(list(meas_kinds)))
        meas.append([b, kind, param("angle") if kind != "fock" else 0.0])
    if not arrays:
        arrays.append([draw(gen.angle()) for _ in range(T)])
    shift = "default"
    if shifts:
        c = draw(st.integers(0, 9))
        if c in (6, 7):
            shift = 1
        elif c == 8 and len(N) == 1:
            shift = 1 + N[0] * draw(st.integers(-1, 1))  # congruent to 1: same register motion as the default
            shift = shift if abs(shift) < total else 1
        elif c == 9 and total > 1:
            shift = draw(st.integers(-(total - 1), total - 1))
    ps = {"N": N, "T": T, "arrays": arrays, "shift": shift, "body": body, "meas": meas}
    if len(N) == 1 and draw(st.booleans()):
        ps["N_as_int"] = True
    return ps


def real_loop(ps, shots=1):
    """non-trivial by the stated rule: >= 2 bins and a two-mode gate that really mixes two pulses"""
    if ps["T"] * max(1, shots) < 2:
        return False
    for name, params, _, _ in ps["body"]:
        if name in ("BSgate", "MZgate", "S2gate"):
            x = params[0]
            vals = [_num(x, ps["arrays"], t) for t in range(ps["T"])] if isinstance(x, list) else [x]
            if name == "S2gate":
                if any(abs(v) > 1e-6 for v in vals):
                    return True
            elif name == "MZgate":
                return True
            elif any(abs(np.sin(2 * v)) > 1e-6 for v in vals):
                return True
    return False


def spec_labels(ps, shots=1):
    N = ps["N"]
    st_ = starts_of(N)
    labs = []
    if len(N) > 1:
        labs.append("multi_band")
    if any(s >= 8 for s in st_):
        labs.append("band_start_ge_8")
    if shots and shots > 1:
        labs.append("shots_gt1")
    if has_dagger(ps):
        labs.append("dagger_in_loop")
    if ps["shift"] != "default":
        labs.append("integer_shift")
        if ps["shift"] != 1:
            labs.append("integer_shift_not_1")
    band_of = [b for b, n_b in enumerate(N) for _ in range(n_b)]
    if any(len(pos) == 2 and band_of[pos[0]] != band_of[pos[1]] for _, _, pos, _ in ps["body"]):
        labs.append("two_mode_across_bands")
    if [m[0] for m in ps["meas"]] != sorted(m[0] for m in ps["meas"]):
        labs.append("bands_measured_out_of_order")
    if any(m[1] == "fock" for m in ps["meas"]):
        labs.append("fock_detection")
    if any(m[1] in SELECTS for m in ps["meas"]):
        labs.append("select_in_loop")
    if any(m[1] == "hselect0" for m in ps["meas"]):
        labs.append("select_zero_in_loop")
    if any(isinstance(x, list) for _, _, x in ps["meas"]):
        labs.append("angle_from_array")
    if any(g[0] in EXPR_GATES for g in ps["body"]):
        labs.append("decomposed_gate_in_loop")
    specs = [x for o in ps["body"] for x in o[1]] + [m[2] for m in ps["meas"]]
    used = [i for x in specs for i in _refs(x)]
    if any(i >= 10 for i in used):
        labs.append("array_index_ge_10")
    lins = [x for x in specs if isinstance(x, list) and x[0] == "lin"]
    if lins:
        labs.append("expr_parameter")
        if any(x[1] != x[2] for x in lins):
            labs.append("expr_two_loop_variables")
    if any(s >= 10 for s in st_):
        labs.append("band_start_ge_10")
    if len(N) >= 4:
        labs.append("bands_ge_4")
    if ps.get("delays"):
        labs.append("delay_loop_layout")
    labs.append("bins:%d" % ps["T"])
    return labs


def crop_ok(ps):
    """crop is generated for single-band programs whose compiled circuit has the beamsplitters of the source (the crop value
    is computed by the repo from the BSgates of the circuit it runs; MZgate / S2gate decompose into further BSgates)"""
    return len(ps["N"]) == 1 and not any(g[0] in ("MZgate", "S2gate") for g in ps["body"])


BASE = st.lists(gen.fl(-1.5, 1.5), min_size=1, max_size=4)


@st.composite
def loops_spec(draw, max_T=8):
    """The documented delay-loop layout (tdm.utils.get_mode_indices, the Borealis circuit): one band of 1 + sum(delays)
    concurrent modes, the source squeezes the last register position in every bin, loop i is a beamsplitter between the
    positions n[i+1] and n[i] = n[i+1] + delays[i] whose angle comes from a parameter array, the detector sits at position 0.
    The beamsplitter arrays start with a run of exact zeros (loop closed: BSgate(0) is the identity), so the first light
    reaches the detector some bins late and `crop` has something to crop."""
    delays = draw(st.lists(st.integers(1, 3), min_size=1, max_size=3))
    total = 1 + sum(delays)
    n = [total - sum(([1] + delays)[:i + 1]) for i in range(len(delays) + 1)]
    T = draw(st.integers(2, max_T))
    sign = st.sampled_from([1.0, -1.0])
    arrays = [[draw(sign) * draw(gen.fl(0.15, 0.35)) for _ in range(T)]]  # squeezing: light in every bin
    body = [["Sgate", [["p", 0], draw(st.sampled_from([0.0, 0.6]))], [n[0]], {}]]
    for i, d in enumerate(delays):
        if draw(st.integers(0, 2)) == 0:
            if draw(st.booleans()):
                arrays.append([draw(gen.angle()) for _ in range(T)])
                body.append(["Rgate", [["p", len(arrays) - 1]], [n[i]], {}])
            else:
                body.append(["Rgate", [draw(gen.angle())], [n[i]], {}])
        z = min(T, draw(st.sampled_from([0, 1, 2, d, d + 1, 1, T])))
        # AUDIT-FINDING crop-value-loop-closes-again: no exact zero after the first non-zero angle.  get_crop_value() assumes
        # that light keeps arriving at the next loop once it has arrived; with a loop that closes again (angles [0.7, 0, ..]
        # followed by a loop with angles [0, 0.7, ..], delays [2, 2]) it returns 1 although two vacuum pulses reach the detector
        alpha = [0.0] * z + [draw(sign) * draw(gen.fl(0.3, 1.2)) for _ in range(T - z)]
        arrays.append(alpha)
        pos = [n[i + 1], n[i]] if draw(st.integers(0, 3)) > 0 else [n[i], n[i + 1]]
        body.append(["BSgate", [["p", len(arrays) - 1], draw(st.sampled_from([PI / 2, 0.0, 0.4]))], pos, {}])
    ang = 0.0
    if draw(st.booleans()):
        arrays.append([draw(gen.angle()) for _ in range(T)])
        ang = ["p", len(arrays) - 1]
    ps = {"N": [total], "T": T, "arrays": arrays, "shift": "default", "body": body, "meas": [[0, "homodyne", ang]],
          "delays": delays}
    if draw(st.booleans()):
        ps["N_as_int"] = True
    return ps


def leading_vacuum_pulses(ps):
    """number of measured pulses that reach the detector before any light does, read off the explicit loop (None when a
    pulse is neither exactly vacuum nor clearly not)"""
    ex = explicit_loop(ps, 1, force_default_shift=True)
    mu, V = joint_of(ex, [m["pulse"] for m in ex["meas"]])
    T = ps["T"]
    for t in range(T):
        dev = max(abs(V[t, t] - 1.0), abs(V[T + t, T + t] - 1.0), abs(mu[t]), abs(mu[T + t]))
        if dev > 1e-6:
            return t
        if dev > 1e-12:
            return None
    return T


def crop_value_of(ctx, ps, prog):
    """(rejected?, crop value).  The value is the repo's; for the delay-loop layout it is also checked against its
    documented meaning ("the number of vacuum modes arriving at the detector before the first computational mode")."""
    try:
        cv = int(prog.get_crop_value())
    except NotImplementedError as exc:
        if ps.get("delays"):
            ctx.fail("crop.sequential_loops_rejected", "get_crop_value() of a single-band program with the loops %s one after the "
                     "other raised NotImplementedError(%s)" % (ps["delays"], exc))
        return True, 0
    if ps.get("delays"):
        want = leading_vacuum_pulses(ps)
        if want is None:
            ctx.label("crop_oracle_undecided")
        elif want != cv:
            ctx.fail("crop.value_is_not_number_of_leading_vacuum_pulses",
                     "delays %s, %d bins: get_crop_value() = %d but in the explicit loop the first %d measured pulses are vacuum "
                     "(beamsplitter arrays %s)" % (ps["delays"], ps["T"], cv, want,
                                                   [ps["arrays"][g[1][0][1]] for g in ps["body"] if g[0] == "BSgate"]))
            return True, cv
    return False, cv


SHOTS_VIA = ["kw", "kw", "ro", "both", "default"]


@st.composite
def run_opts(draw, shots_free=True):
    """how the run options reach the engine: keyword argument of eng.run, prog.run_options (the documented defaults),
    both (the keyword wins) or not at all (shots: 1)"""
    return {"shots": draw(st.sampled_from(SHOTS_VIA if shots_free else SHOTS_VIA[:4])), "crop": draw(st.sampled_from(["kw", "ro", "both"])),
            "space": draw(st.sampled_from(["kw", "ro"]))}


def split_options(case, opts):
    """(keyword arguments of eng.run, prog.run_options) for the intended options `opts` (shots / crop / space_unroll)"""
    via = case.get("opts") or {}
    kw, ro = {}, {}
    for key, val in opts.items():
        how = via.get({"space_unroll": "space"}.get(key, key), "kw")
        if how == "default":
            continue
        if how in ("kw", "both"):
            kw[key] = val
        if how == "ro":
            ro[key] = val
        if how == "both":  # a different default in run_options, overridden by the keyword
            ro[key] = {"shots": 2 if val in (None, 1, 3) else 3, "crop": False}[key]
    return kw, ro


def option_labels(case, opts):
    via = case.get("opts") or {}
    labs = []
    for key in opts:
        how = via.get({"space_unroll": "space"}.get(key, key), "kw")
        if how != "kw":
            labs.append("%s_via_%s" % (key, {"ro": "run_options", "both": "keyword_over_run_options", "default": "default"}[how]))
    return labs


@st.composite
def space_case(draw):
    if draw(st.integers(0, 3)) == 0:
        ps = draw(loops_spec())
        crop = draw(st.integers(0, 3)) > 0
    else:
        ps = draw(tdm_spec(bands=1, meas_kinds=("homodyne", "homodyne", "fock"), exprs=True))
        crop = crop_ok(ps) and draw(st.integers(0, 3)) == 0
    return {"prog": ps, "pre": draw(st.booleans()), "crop": crop, "opts": draw(run_opts(shots_free=False))}


@st.composite
def unroll_case(draw):
    ps = draw(tdm_spec(expr_gates=True, exprs=True))
    opts = draw(run_opts())
    shots = 1 if opts["shots"] == "default" else draw(st.sampled_from([1, 1, 2, 3]))
    return {"prog": ps, "shots": shots, "pre": draw(st.integers(0, 2)) == 0, "base": draw(BASE),
            "mode": "unroll", "crop": False, "opts": opts}


@st.composite
def arrangement_case(draw):
    mode = draw(st.sampled_from(["unroll", "unroll", "unroll", "space"]))
    opts = draw(run_opts())
    loops = draw(st.integers(0, 3)) == 0
    if mode == "space":
        ps = draw(loops_spec(max_T=5) if loops else tdm_spec(bands=1, max_body=2, shifts=False))
        crop = draw(st.integers(0, 3)) > 0 if loops else crop_ok(ps) and draw(st.integers(0, 3)) == 0
        return {"prog": ps, "shots": 1, "pre": draw(st.booleans()), "base": draw(BASE), "mode": "space", "crop": crop, "opts": opts}
    shots = 1 if opts["shots"] == "default" else draw(st.sampled_from([1, 2, 3]))
    if loops:
        ps = draw(loops_spec())
        crop = draw(st.integers(0, 3)) > 0
    else:
        wide = draw(st.integers(0, 2)) > 0
        ps = draw(tdm_spec(wide=wide, max_body=2))
        crop = crop_ok(ps) and draw(st.integers(0, 2)) == 0
    return {"prog": ps, "shots": shots, "pre": draw(st.integers(0, 2)) == 0, "base": draw(BASE), "mode": "unroll", "crop": crop,
            "opts": opts}


# ---------------------------------------------------------------------------------------------
# oracles of the stateless sub-checks
# ---------------------------------------------------------------------------------------------
def check_space(ctx, case):
    ps, pre, crop = case["prog"], case["pre"], case["crop"]
    opts = {"shots": None}
    if crop:
        opts["crop"] = True
    if not pre:
        opts["space_unroll"] = True
    labels = (spec_labels(ps) + ["space_unroll", "pre_space_unrolled" if pre else "space_unroll_option"] + (["crop"] if crop else [])
              + option_labels(case, opts))
    prog = build_tdm(ps)
    cv = 0
    if crop:
        rejected, cv = crop_value_of(ctx, ps, prog)
        if rejected:
            ctx.note(case, False, labels + ["rejected:crop_value"])
            return None
        labels = labels + (["crop_value_gt0"] if cv > 0 else []) + (["crop_value_inside"] if 0 < cv < ps["T"] else [])
    ctx.note(case, nontrivial=real_loop(ps), labels=labels)
    kw, ro = split_options(case, opts)
    try:
        if ro:
            prog.run_options = ro
        if pre:
            prog.space_unroll()
        res, _ = run_spied(prog, [0.0], **kw)
    except NotImplementedError as exc:
        if crop and "not implemented" in str(exc):
            ctx.label("rejected:crop_value")
            return None
        classify_crash(ctx, exc, ps, "space_unroll.run")
        return None
    except Exception as exc:  # pylint: disable=broad-except
        classify_crash(ctx, exc, ps, "space_unroll.run")
        return None
    if np.size(res.samples) != 0 or res.samples_dict:
        return ctx.fail("shots_none.samples_returned", "samples %r returned with shots=None" % (res.samples,))
    verify_space_state(ctx, ps, res.state, "space_unroll%s (run(%s), run_options %s)" % (" + crop" if crop else "", kw, ro), cv)
    return None


def check_unroll(ctx, case):
    ps, shots, pre, base, mode, crop = case["prog"], case["shots"], case["pre"], case["base"], case["mode"], case["crop"]
    opts = {"shots": shots}
    if crop:
        opts["crop"] = True
    if mode == "space" and not pre:
        opts["space_unroll"] = True
    labels = (spec_labels(ps, shots) + (["crop"] if crop else []) + (["pre_unrolled"] if pre else []) + ["mode:" + mode]
              + option_labels(case, opts))
    prog = build_tdm(ps)
    cv = 0
    if crop:
        rejected, cv = crop_value_of(ctx, ps, prog)
        if rejected:
            ctx.note(case, False, labels + ["rejected:crop_value"])
            return None
        labels = labels + (["crop_value_gt0"] if cv > 0 else []) + (["crop_value_inside"] if 0 < cv < ps["T"] else [])
        if cv > 0 and shots > 1:
            labels.append("crop_value_gt0_shots_gt1")
    ctx.note(case, nontrivial=real_loop(ps, shots), labels=labels)
    kw, ro = split_options(case, opts)
    try:
        if ro:
            prog.run_options = ro
        if mode == "space":
            if pre:
                prog.space_unroll(shots)
        elif pre:
            prog.unroll(shots)
        res, rec = run_spied(prog, base, **kw)
    except NotImplementedError as exc:
        if crop and "not implemented" in str(exc):
            ctx.label("rejected:crop_value")
            return None
        classify_crash(ctx, exc, ps, mode + ".run", shots, mode)
        return None
    except Exception as exc:  # pylint: disable=broad-except
        classify_crash(ctx, exc, ps, mode + ".run", shots, mode)
        return None
    what = mode
    if ro or len(kw) != len(opts):
        what = "%s [run(%s), run_options = %s]" % (mode, ", ".join("%s=%r" % kv for kv in sorted(kw.items())), ro)
    eff, ex = loop_for(ps, shots, mode)
    failed, values = verify_chain(ctx, eff, shots, rec, what)
    if failed:
        return None
    verify_arrangement(ctx, eff, shots, res, values, what + (" + crop" if crop else ""), cv, ex)
    return None


# ---------------------------------------------------------------------------------------------
# roll-back machine
# ---------------------------------------------------------------------------------------------
def tdm_snapshot(prog):
    snap = spec.snapshot(prog, with_ids=True)
    snap["tdm"] = {
        "N": list(prog.N), "timebins": prog.timebins, "spatial_modes": prog.spatial_modes, "concurr_modes": prog.concurr_modes,
        "parameters": {k: [float(x) for x in v] for k, v in prog.parameters.items()}, "shift": prog.shift,
        "is_unrolled": prog.is_unrolled, "register_ids": tuple(id(r) for r in prog.register),
    }
    return snap


def tdm_snapshot_diff(a, b):
    d = spec.snapshot_diff(a, b)
    if d:
        return d
    for k in a["tdm"]:
        if a["tdm"][k] != b["tdm"][k]:
            return "TDMProgram attribute %s changed from %r to %r" % (k, a["tdm"][k], b["tdm"][k])
    return None


def register_state(prog):
    return {"register": tuple((r.ind, r.active) for r in prog.register), "num_subsystems": prog.num_subsystems,
            "init_num_subsystems": prog.init_num_subsystems}


def circuit_mismatch(prog, cmds):
    """first difference between prog.circuit and the command list of the explicit loop (None if equal)"""
    from strawberryfields.parameters import par_evaluate

    if len(prog.circuit) != len(cmds):
        return "generic", "circuit has %d commands, the explicit loop has %d" % (len(prog.circuit), len(cmds))
    for i, (cmd, c) in enumerate(zip(prog.circuit, cmds)):
        name = c[1] if c[0] == "gate" else ("MeasureFock" if c[1] == "fock" else "MeasureHomodyne")
        vals, phys, dg = c[2], c[4], c[5]
        op = cmd.op
        if op.__class__.__name__ != name:
            return "generic", "command #%d is %s, expected %s" % (i, op.__class__.__name__, name)
        if [r.ind for r in cmd.reg] != list(phys):
            return "generic", "command #%d (%s) acts on %s, expected %s" % (i, name, [r.ind for r in cmd.reg], list(phys))
        try:
            got = [float(par_evaluate(p)) for p in op.p]
        except Exception:  # pylint: disable=broad-except
            return "generic", "command #%d (%s) has non-numeric parameters %r after unrolling" % (i, name, op.p)
        if got[:len(vals)] != [float(v) for v in vals]:
            return "generic", "command #%d (%s) has parameters %r, expected %r" % (i, name, got, vals)
        if bool(getattr(op, "dagger", False)) != bool(dg):
            return "dagger", "command #%d (%s) has dagger=%s, the loop body has dagger=%s" % (i, name, getattr(op, "dagger", False), dg)
        if c[0] == "meas" and getattr(op, "select", None) != SELECTS.get(c[1]):
            return "select", "command #%d (%s) has select=%r, the loop body has select=%r" % (
                i, name, getattr(op, "select", None), SELECTS.get(c[1]))
    return None


class Dead(Exception):
    """the history ran into an open known finding: the program object is corrupted, stop the history"""


class History:
    """one TDMProgram object and the model of the state it should be in"""

    def __init__(self, ctx, ps):
        self.ctx = ctx
        self.ps = ps
        self.prog = build_tdm(ps)
        self.orig = tdm_snapshot(self.prog)
        self.orig_cmds = list(self.prog.circuit)
        self.mode = ("rolled",)
        self.labels = set(spec_labels(ps))
        self.trace = []
        self.single = len(ps["N"]) == 1
        self.homodyne = all(m[1] == "homodyne" for m in ps["meas"])
        self.select = any(m[1] in SELECTS for m in ps["meas"])
        self.rolled_after_unroll = False
        self.rejected_unroll_shots = None  # shots of a rejected unroll() since the last successful (space-)unroll / roll
        self.space_ids = None  # identity of the commands of the current space-unrolled circuit

    # -- helpers
    def fail(self, sig, detail):
        self.ctx.fail(sig, "after %s: %s" % (self.trace, detail))
        raise Dead()

    def crash(self, exc, what, shots=None):
        classify_crash(self.ctx, exc, self.ps, what, shots, after="after %s: " % (self.trace,))
        raise Dead()

    def check_rolled(self, what):
        now = tdm_snapshot(self.prog)
        d = tdm_snapshot_diff(self.orig, now)
        if d:
            if "num_subsystems" in d or "program attribute reg " in d or "register_ids" in d:
                self.fail("%s.register_not_restored" % what, d)
            self.fail("%s.circuit_not_restored" % what, d)

    def check_structure(self):
        kind = self.mode[0]
        if kind == "rolled":
            return
        shots = self.mode[1]
        if kind == "unrolled":
            ex = explicit_loop(self.ps, shots)
        elif self.single and shots == 1:
            ex = explicit_loop(dict(self.ps, shift="default"), 1)
            for c in range(len(ex["cmds"])):
                item = list(ex["cmds"][c])
                item[4] = item[3]  # space-unrolling: RegRef index == pulse id
                ex["cmds"][c] = tuple(item)
        else:
            ex = None
        if kind == "space":
            hi = max([r.ind for cmd in self.prog.circuit for r in cmd.reg] + [0])
            if hi >= self.prog.init_num_subsystems:
                self.fail("space_unroll.after_roll.regrefs_beyond_init_num_subsystems",
                          "the space-unrolled circuit addresses q[%d] but init_num_subsystems = %d (the size the engine gives the "
                          "backend); %d register references exist, %d active" % (hi, self.prog.init_num_subsystems,
                                                                                 len(self.prog.reg_refs), self.prog.num_subsystems))
        if ex is not None:
            mm = circuit_mismatch(self.prog, ex["cmds"])
            if mm is not None:
                if mm[0] == "dagger":
                    self.fail("apply_op.dagger_dropped", "%s circuit: %s" % (kind, mm[1]))
                if mm[0] == "select":
                    self.fail("apply_op.select_dropped", "%s circuit: %s" % (kind, mm[1]))
                if kind == "space" and self.rejected_unroll_shots == shots and self.space_ids == [id(c) for c in self.prog.circuit]:
                    self.fail("space_unroll.stale_circuit_after_rejected_unroll",
                              "space_unroll(%d) returned the circuit of the earlier space_unroll unchanged (%s): the rejected unroll(%d) "
                              "had already overwritten the number of shots the cached circuit is filed under" % (shots, mm[1], shots))
                self.fail("%s.circuit_mismatch" % ("unroll" if kind == "unrolled" else "space_unroll"), mm[1])

    # -- steps
    def step(self, st_):
        self.trace.append(st_)
        kind = st_[0]
        prog = self.prog
        if kind == "unroll":
            shots = st_[1]
            before = tdm_snapshot(prog) if self.mode[0] == "space" else None
            try:
                prog.unroll(shots)
            except ValueError as exc:
                if self.mode[0] == "space" and "space-unrolled" in str(exc):
                    self.labels.add("rejected:unroll_on_space_unrolled")
                    self.rejected_unroll_shots = shots
                    d = tdm_snapshot_diff(before, tdm_snapshot(prog))
                    if d:
                        self.fail("unroll.rejected_call_changed_program", d)
                    self.check_structure()
                    return True
                self.crash(exc, "unroll")
            except Exception as exc:  # pylint: disable=broad-except
                self.crash(exc, "unroll")
            if self.mode[0] == "space":
                self.fail("unroll.on_space_unrolled_not_rejected", "unroll() of a space-unrolled program did not raise the documented ValueError")
            if self.mode == ("unrolled", shots):
                self.labels.add("unroll_twice")
            elif self.mode[0] == "unrolled":
                self.labels.add("reunroll_other_shots")
            self.mode = ("unrolled", shots)
            self.check_structure()
        elif kind == "space_unroll":
            shots = st_[1]
            try:
                prog.space_unroll(shots)
            except ValueError as exc:
                if self.mode[0] == "unrolled" and "is unrolled" in str(exc):
                    self.labels.add("rejected:space_unroll_on_unrolled")
                    return True
                self.crash(exc, "space_unroll")
            except Exception as exc:  # pylint: disable=broad-except
                self.crash(exc, "space_unroll")
            if self.mode[0] == "unrolled":
                self.labels.add("space_unroll_on_unrolled")
            if "space_then_roll" in self.labels and self.mode[0] == "rolled":
                self.labels.add("space_then_roll_then_space")
            self.mode = ("space", shots)
            self.check_structure()
            self.rejected_unroll_shots = None
            self.space_ids = [id(c) for c in prog.circuit]
        elif kind == "roll":
            try:
                prog.roll()
            except Exception as exc:  # pylint: disable=broad-except
                self.crash(exc, "roll")
            if self.mode[0] != "rolled":
                self.rolled_after_unroll = True
                self.labels.add("roll_after_" + self.mode[0])
                if self.mode[0] == "space":
                    self.labels.add("space_then_roll")
            self.mode = ("rolled",)
            self.rejected_unroll_shots = None
            self.check_rolled("roll")
        elif kind == "run":
            return self.run(st_[1])
        else:
            raise ValueError("unknown step %r" % (st_,))
        return True

    def run(self, opt):
        """opt: {"how": "sample" | "space_state", "shots": int, "base": [..]}"""
        prog, ps, mode = self.prog, self.ps, self.mode
        how = opt["how"]
        before = tdm_snapshot(prog)
        reg_before = register_state(prog)
        if how == "sample":
            # register shifting with sampling; on an already unrolled program the engine runs it as it is
            if mode[0] == "space" or not self.homodyne:
                self.labels.add("run_skipped")
                self.trace.pop()
                return False
            shots = mode[1] if mode[0] == "unrolled" else opt["shots"]
            try:
                res, rec = run_spied(prog, opt["base"], shots=shots)
            except Exception as exc:  # pylint: disable=broad-except
                self.crash(exc, "run_sample", shots)
            self.labels.add("run_sample_" + mode[0])
            failed, values = verify_chain(self.ctx, ps, shots, rec, "after %s: run(shots=%d)" % (self.trace, shots))
            if failed:
                raise Dead()
            if verify_arrangement(self.ctx, ps, shots, res, values, "after %s: run(shots=%d)" % (self.trace, shots)):
                raise Dead()
        else:
            # space-unrolled run without measurements (single band; on an unrolled program `space_unroll=True` is
            # documented to be ignored, so that combination is not generated)
            if not self.single or self.select or mode[0] == "unrolled" or (mode[0] == "space" and mode[1] != 1):
                self.labels.add("run_skipped")
                self.trace.pop()
                return False
            kw = {"shots": None}
            if mode[0] == "rolled":
                kw["space_unroll"] = True
            try:
                res, _ = run_spied(prog, [0.0], **kw)
            except Exception as exc:  # pylint: disable=broad-except
                self.crash(exc, "run_space")
            self.labels.add("run_space_" + mode[0])
            if verify_space_state(self.ctx, ps, res.state, "after %s: run(%s)" % (self.trace, kw)):
                raise Dead()
        # the user's program must be left as it was (engine works on a compiled copy)
        reg_after = register_state(prog)
        if reg_after != reg_before:
            diff = [k for k in reg_before if reg_before[k] != reg_after[k]][0]
            if mode[0] == "space":
                self.fail("run.space_unrolled.source_regrefs_deactivated",
                          "run of a space-unrolled program changed the user's program: %s %r -> %r (the engine rolls the compiled "
                          "copy, which shares its RegRefs with the source)" % (diff, reg_before[diff], reg_after[diff]))
            if how == "space_state":
                self.fail("run.space_unroll_option.source_register_grows",
                          "run(space_unroll=True) of a rolled program changed the user's program: %s %r -> %r (the compiled copy adds "
                          "its subsystems to the reg_refs it shares with the source)" % (diff, reg_before[diff], reg_after[diff]))
            self.fail("run.register_changed", "%s %r -> %r" % (diff, reg_before[diff], reg_after[diff]))
        d = tdm_snapshot_diff(before, tdm_snapshot(prog))
        if d:
            self.fail("run.program_changed", d)
        return True



def check_history(ctx, case):
    h = History(ctx, case["prog"])
    dead = False
    try:
        for st_ in case["steps"]:
            h.step(list(st_))
    except Dead:
        dead = True
    ctx.note(case, nontrivial=h.rolled_after_unroll, labels=sorted(h.labels) + (["history_stopped_at_known_finding"] if dead else []))
    return None


def make_machine(ctx):
    from vf.core import SHRINK_CAP_S

    class TDMMachine(RuleBasedStateMachine):
        def __init__(self):
            super().__init__()
            self.h = None
            self.case = None
            self.dead = False
            self.skip = False

        def _do(self, st_):
            if self.dead or self.skip:
                return
            self.case["steps"].append(st_)
            ctx._cur = copy.deepcopy(self.case)
            try:
                if not self.h.step(list(st_)):
                    self.case["steps"].pop()  # not applicable in this state: the model skipped it
            except Dead:
                self.dead = True
            except Violation:
                if ctx.shrink_t0 is None:
                    ctx.shrink_t0 = time.time()
                raise

        @initialize(ps=tdm_spec(meas_kinds=("homodyne",) * 6 + ("fock", "fock", "hselect", "hselect0"), max_body=4, max_T=4),
                    late=st.integers(0, 10))
        def start(self, ps, late):
            if ctx.failures and ctx.shrink_t0 is not None and time.time() - ctx.shrink_t0 > SHRINK_CAP_S[ctx.tier]:
                self.skip = True
                return
            self.case = {"prog": ps, "steps": []}
            ctx.begin_case(self.case)
            self.late = late
            self.h = History(ctx, ps)

        @rule(shots=st.sampled_from([1, 1, 2, 3]))
        def unroll(self, shots):
            self._do(["unroll", shots])

        @rule(shots=st.sampled_from([1, 1, 1, 2]))
        def space_unroll(self, shots):
            self._do(["space_unroll", shots])

        @rule()
        def roll(self):
            self._do(["roll"])

        @precondition(lambda self: self.h is not None and self.h.homodyne and self.h.mode[0] != "space")
        @rule(shots=st.sampled_from([1, 2, 3]), base=BASE)
        def run_sample(self, shots, base):
            self._do(["run", {"how": "sample", "shots": shots, "base": base}])

        @precondition(lambda self: self.h is not None and len(self.case["steps"]) >= self.late and self.h.single
                      and self.h.mode in (("rolled",), ("space", 1)) and not self.h.select)
        @rule()
        def run_space(self):
            self._do(["run", {"how": "space_state"}])

        def teardown(self):
            if self.h is not None and not self.skip:
                ctx.note(copy.deepcopy(self.case), nontrivial=self.h.rolled_after_unroll,
                         labels=sorted(self.h.labels) + ["steps:%02d+" % (5 * (len(self.h.trace) // 5))]
                         + (["history_stopped_at_known_finding"] if self.dead else []))

    return TDMMachine


SUBS = [
    Sub("space_state", check=check_space, strategy=lambda ctx: space_case(), examples={"quick": 1800, "thorough": 8000},
        shards={"quick": 1, "thorough": 3}, rule="single band: state returned by a space-unrolled run == measured pulses of the explicit loop"),
    Sub("unroll_chain", check=check_unroll, strategy=lambda ctx: unroll_case(), examples={"quick": 1300, "thorough": 6000},
        shards={"quick": 2, "thorough": 6}, rule="register shifting: chain of conditional homodyne distributions and sample arrangement == explicit loop"),
    Sub("arrangement", check=check_unroll, strategy=lambda ctx: arrangement_case(), examples={"quick": 1700, "thorough": 8000},
        shards={"quick": 1, "thorough": 3}, rule="wide multi-band registers, shots > 1, crop, space-unrolled sampling: samples[shot, band, bin] is the outcome of that pulse"),
    Sub("rollback", check=check_history, machine=make_machine, kind="machine", examples={"quick": 900, "thorough": 5000},
        shards={"quick": 2, "thorough": 4}, steps={"quick": 14, "thorough": 20},
        rule="histories of unroll / space_unroll / roll / run on one program object"),
]

MANIFEST = {
    "technique": "Hypothesis differential testing against an explicit-loop reference (refsim), sampler interception (rngspy), stateful rule-based machine",
    "text": ("Generated time-domain programs are run through unroll / space_unroll on the gaussian backend and compared with the loop "
             "written out by the harness with a fresh reference mode for every pulse: states without measurement directly, sampled runs "
             "through the chain of conditional distributions handed to the sampler under forced outcomes, which also tag every pulse so "
             "that the arrangement of Result.samples / samples_dict is checked entry by entry. A rule-based machine drives one program "
             "object through random histories of unroll / space_unroll / roll / run and compares circuit and register with the loop "
             "model and with a deep snapshot of the original."),
    "note": "trusted: numpy, vf.refsim (self-tested documented gate maps), the register model of this module (self-tested against the validated single-band formula pulse = bin + position)",
}
