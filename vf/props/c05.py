"""C05 - operations act only on their target modes.

Sub-checks
  ps_spectator     gaussian / bosonic: correlated multi-mode prior, then one operation on an ordered target
                   choice; reduced (mean, cov) of the complement must be *unchanged* (1e-10, same backend) and
                   equal the independent reference; preparations / Del / post-selected measurements: target block
                   is the documented post-state, cross-correlations vanish, complement = reference conditional.
  fock_spectator   fock pure and mixed: the prior is a generated photon-number-bounded ket / mixture written
                   straight into the register, so the expected spectator state is computed by fockref from the
                   JSON, not by the backend.  Passive / diagonal gates and loss are exact on such priors (1e-10);
                   active gates get a tolerance proportional to the measured trace loss; preparations must give
                   exactly rho_rest (x) sigma; MeasureFock(select) must give the projected state (x) vacuum.
  bosonic_nongauss bosonic backend with cat/Fock spectators (many weights): per-weight data of spectators unchanged; a Gaussian
                   preparation (single-mode, or Gaussian(V, r, decomp=False) on several modes) in the middle of such a
                   circuit must put the documented state, uncorrelated, into EVERY term of the linear combination.

Input classes added by the generator audit (labels in brackets):
  * register with a gap: modes are deleted between the prior and the operation, so register indices differ from the
    backend's internal axes / active list [ps_register_gap, fock_register_gap, *_target_after_gap];
  * multi-mode Gaussian(V, r, decomp=False) on an ordered subset, incl. 3-cycles (prepare_gaussian_state: gaussian
    fromscovmat/fromsmean(modes), bosonic from_covmat/from_mean) [ps_gaussian_prep_multimode, ..._3cycle];
  * sampled (select=None) homodyne / heterodyne on gaussian and bosonic (measure_dyne instead of post_select_*): the rest is
    conditioned on the outcome the run reported [ps_measure_sampled];
  * bosonic MeasureThreshold (state IS updated there): moments of the two-term click state [ps_threshold(_click)];
  * PassiveChannel (gaussian) and MSgate average map (bosonic) as channels on a subset [op:PassiveChannel, op:MSgate];
  * fock MeasureHomodyne(select) with spectators, pure and mixed [fock_homodyne];
  * fock four-mode registers: two spectators next to a pair, MeasureFock of three modes in 3-cycle order next to a
    spectator, DensityMatrix on 2 / Ket on 3 modes of a larger register [fock_four_modes, measure_sampled_3cycle,
    fock_multimode_prep_on_subset].
"""
from __future__ import annotations

import itertools

import numpy as np
from hypothesis import strategies as st

from vf import fockref, gen, refsim, sfrun, spec
from vf.core import Sub

RULE = ("a correlated prior state (entangling Gaussian circuit, or a generated bounded-photon ket/mixture on all modes), "
        "optionally the deletion of one or two of its modes (register with a gap), "
        "followed by ONE operation under test on an ordered target tuple in a register of 2..5 modes; non-trivial = the "
        "prior correlates a target with a spectator (phase space: |cov off-block| > 1e-3; Fock: prior is not a product "
        "across the target/spectator cut) ; distinct = distinct JSON")
ASSUMPTIONS = [
    "TensorFlow backend not exercised (not installed)",
    "Fock: passive/diagonal gates and loss are exact on priors with total photon number < cutoff, so spectators must be "
    "unchanged to 1e-10; active gates: tolerance 1e-6 + 20*(trace lost by truncation), measured per case",
    "a truncated Coherent/Thermal/Cat/Squeezed preparation is sub-normalised: the product rho_rest (x) sigma is compared "
    "with sigma obtained from the same preparation on a one-mode register (position independence) and, where a closed "
    "form is documented (Vacuum, Fock, Ket, DensityMatrix, Coherent), with that closed form",
    "gaussian-backend MeasureFock/MeasureThreshold do not update the state (documented): excluded",
    "sampled measurements are conditioned on the outcome the run reports (Result.samples_dict). A sampled homodyne on the "
    "gaussian/bosonic backend is a general-dyne measurement on a state squeezed to variance eps^2, eps = 2e-4 (documented); its "
    "unreported conjugate outcome shifts the other means by about eps * z * |cov| (z standard normal): means of the rest are "
    "compared to 1e-2 * (1 + max|V|) in that one case (observed < 2e-4), covariances to 2e-5 * (1 + max|V|) as for select",
    "bosonic MeasureThreshold (one mode, Gaussian prior): no click = <0|rho|0>/p0, click = (Tr_t rho - <0|rho|0>)/(1 - p0), "
    "measured mode reset to vacuum; total mean / covariance compared to 1e-8 * (1 + max|V|) / (1 - p0) (observed 1e-15)",
    "fock MeasureHomodyne(select): the (truncated, approximate) vector e the backend projects on is read off one canonical run "
    "(mode 0 of the pure two-mode state sum_k |k,k>, same cutoff, angle and select); the check is that the same measurement "
    "at any position of any register, pure or mixed, leaves <e|rho|e>/p (x) vacuum (1e-8). Whether e approximates the "
    "quadrature eigenstate is not decided here",
    "PassiveChannel: only the gaussian backend implements it; MSgate: only the bosonic backend, average map only (the "
    "single-shot map conditions the spectators on the ancilla outcome)",
]
REQUIRED_LABELS = {"all": ["backend:gaussian", "backend:bosonic", "backend:fock", "target_not_first", "fock_pure", "fock_mixed",
                           "kind:gate", "kind:channel", "kind:prep", "kind:measure", "kind:del", "measure_sampled", "non_involutive_target_order",
                           "ps_register_gap", "ps_all_existing_modes_measured", "fock_register_gap", "fock_four_modes", "ps_measure_sampled", "op:Gaussian", "ps_threshold",
                           "fock_homodyne"]}


def selftest():
    refsim.selftest()
    fockref.selftest()


# ---------------------------------------------------------------------------------------------
# phase space
# ---------------------------------------------------------------------------------------------
PS_GATES = ["Dgate", "Sgate", "Rgate", "BSgate", "S2gate", "MZgate", "Xgate", "Zgate", "Pgate", "CXgate", "CZgate", "Fouriergate"]
PS_CHANNELS = ["LossChannel", "ThermalLossChannel"]
PS_PREPS = ["Vacuum", "Coherent", "Squeezed", "DisplacedSqueezed", "Thermal"]


@st.composite
def entangling_prior(draw, n, energy="ps"):
    ops_ = []
    for m in range(n):
        k = draw(st.sampled_from(["Sgate", "Dgate", "Thermal", "Squeezed"]))
        ops_.append([k, draw(gen.op_params(k, energy)), [m], {}])
        if k in ("Thermal",) and draw(st.booleans()):
            ops_.append(["Dgate", draw(gen.op_params("Dgate", energy)), [m], {}])
    pairs = [list(p) for p in itertools.permutations(range(n), 2)]
    chain = draw(st.permutations(list(range(n))))
    for a, b in zip(chain[:-1], chain[1:]):
        k = draw(st.sampled_from(["BSgate", "BSgate", "S2gate"]))
        if k == "BSgate":
            ops_.append([k, [draw(gen.fl(0.3, 1.2)), draw(gen.angle())], [a, b], {}])
        else:
            ops_.append([k, [draw(gen.fl(0.15, 0.6 if energy == "ps" else 0.3)), draw(gen.angle())], [a, b], {}])
    for _ in range(draw(st.integers(0, 2))):
        a, b = draw(st.sampled_from(pairs))
        ops_.append(["BSgate", [draw(gen.angle()), draw(gen.angle())], [a, b], {}])
    return ops_


@st.composite
def gaussian_prep(draw, modes, hbar):
    """multi-mode ``Gaussian(V, r, decomp=False)`` on an ordered mode tuple: the backend API call prepare_gaussian_state
    (gaussian: fromscovmat/fromsmean with ``modes``; bosonic: from_covmat/from_mean), never reached by the
    single-mode preparations"""
    k = len(modes)
    _, V = draw(gen.covariance(k, hbar))
    r = None
    if draw(st.integers(0, 3)) != 0:
        r = spec.enc_vec([draw(gen.fl(-1.5, 1.5)) for _ in range(2 * k)])
    return ["Gaussian", [spec.enc_matrix(V), r], list(modes), {"kw": {"decomp": False}}]


@st.composite
def passive_channel(draw, modes):
    """PassiveChannel(T) with a generated k x k matrix T = U diag(s) W, 0 <= s <= 1 (lossy interferometer)"""
    k = len(modes)
    U = draw(gen.unitary(k))[1]
    W = draw(gen.unitary(k))[1]
    sv = [draw(st.one_of(st.sampled_from([1.0, 0.0]), gen.fl(0.05, 1.0))) for _ in range(k)]
    T = U @ np.diag(sv).astype(complex) @ W
    return ["PassiveChannel", [spec.enc_matrix(T)], list(modes), {}]


@st.composite
def ps_case(draw):
    kind = draw(st.sampled_from(["gate", "gate", "channel", "prep", "prep_multi", "measure", "measure", "del"]))
    n = draw(st.integers(2, 4)) if kind != "prep_multi" else draw(st.sampled_from([3, 4, 4, 5]))
    hbar = draw(st.sampled_from([2.0, 2.0, 1.0, 0.5, 3.3]))
    backend = draw(st.sampled_from(["gaussian", "bosonic"]))
    prior = draw(entangling_prior(n))
    # register with a gap: one or two modes (entangled with the rest by the prior) are deleted BEFORE the operation
    # under test; the operation is generated on the nl remaining modes and mapped to their register indices
    pre = []
    if kind == "measure" and draw(st.integers(0, 5)) == 0:
        # every mode but one deleted: the measurement then acts on ALL existing modes of a register that still has (empty) slots
        # (seeded change C05-F: the bosonic backend decided "are there other modes to update" by counting slots in one place and modes in another)
        pre = sorted(draw(st.permutations(list(range(n))))[:n - 1])
    elif n >= 3 and draw(st.integers(0, 3)) == 0:
        pre = sorted(draw(st.permutations(list(range(n))))[:draw(st.integers(1, n - 2))])
    alive = [m for m in range(n) if m not in pre]
    nl = len(alive)
    rng = 7
    if kind == "gate":
        op = draw(gen.op_spec(nl, PS_GATES, "ps"))
    elif kind == "channel":
        sub = draw(st.sampled_from(["std", "special"]))
        if sub == "std":
            op = draw(gen.op_spec(nl, PS_CHANNELS, "ps"))
        elif backend == "gaussian":
            k = draw(st.integers(1, max(1, min(3, nl - 1))))
            op = draw(passive_channel(list(draw(st.permutations(list(range(nl))))[:k])))
        else:
            # measurement-based squeezing, average map (a Gaussian CPTP map on one mode; bosonic backend only)
            op = ["MSgate", [draw(gen.real(-0.8, 0.8, (0.0,))), draw(gen.angle()), draw(gen.fl(0.5, 3.0)),
                             draw(st.one_of(st.just(1.0), gen.fl(0.5, 1.0))), True], [draw(st.integers(0, nl - 1))], {}]
    elif kind == "prep":
        op = draw(gen.op_spec(nl, PS_PREPS, "ps"))
    elif kind == "prep_multi":
        # Gaussian(V, r, decomp=False) on 1..3 modes listed in any order (3 modes: also the 3-cycles), at least one spectator
        kind = "prep"
        k = draw(st.sampled_from([min(3, nl - 1), min(3, nl - 1), min(3, nl - 1), min(2, nl - 1), 1]))
        modes = list(draw(st.permutations(list(range(nl))))[:k])
        if k == 3 and draw(st.booleans()):
            a, b, c = sorted(modes)
            modes = draw(st.sampled_from([[b, c, a], [c, a, b]]))  # the two orders that are not their own inverse
        op = draw(gaussian_prep(modes, hbar))
    elif kind == "measure":
        m = draw(st.integers(0, nl - 1))
        sampled = draw(st.integers(0, 2)) == 0  # no select: the backend samples; the check conditions on the reported outcome
        if sampled:
            rng = draw(st.integers(0, 9999))
        if backend == "bosonic" and draw(st.integers(0, 2)) == 0:
            # threshold detection of one mode: the bosonic backend updates the state (click: a two-term non-Gaussian state)
            rng = draw(st.integers(0, 9999))
            op = ["MeasureThreshold", [], [m], {}]
            if draw(st.booleans()):  # more photons in the measured mode: otherwise 'no click' is by far the most frequent outcome
                prior = prior + [["Dgate", [draw(gen.fl(0.8, 1.5)), draw(gen.angle())], [alive[m]], {}]]
        elif draw(st.booleans()):
            op = ["MeasureHomodyne", [draw(gen.angle())], [m], {"select": None if sampled else draw(gen.fl(-1.5, 1.5))}]
        else:
            op = ["MeasureHeterodyne", [], [m], {"select": None if sampled else {"re": draw(gen.fl(-0.8, 0.8)), "im": draw(gen.fl(-0.8, 0.8))}}]
    else:
        k = draw(st.integers(1, nl - 1))
        op = ["Del", [], sorted(draw(st.permutations(list(range(nl))))[:k]), {}]
    op[2] = [alive[m] for m in op[2]]
    return {"n": n, "hbar": hbar, "backend": backend, "prior": prior, "kind": kind, "op": op, "pre_del": pre, "rng": rng}


def _threshold_reference(n, prior, t, click, hbar):
    """first and second moments (all n modes, (x.., p..) order) after a threshold detection of mode t of the Gaussian state
    prepared by `prior`: no click = projection on |0><0| (the heterodyne outcome alpha = 0); click = 1 - |0><0|, i.e.
    rho_rest' = (Tr_t rho - p0 <0|rho|0>/p0) / (1 - p0), a difference of two Gaussians; the measured mode is reset to vacuum.
    p0 = <0|rho_t|0> = hbar / sqrt(det(V_t + hbar/2)) exp(-mu_t (V_t + hbar/2)^-1 mu_t / 2)."""
    ref0 = spec.ref_run(n, prior, hbar)
    B = [t, t + n]
    A = [i for i in range(2 * n) if i not in B]
    VB = ref0.V[np.ix_(B, B)] + hbar / 2 * np.eye(2)
    p0 = float(hbar / np.sqrt(np.linalg.det(VB)) * np.exp(-0.5 * ref0.mu[B] @ np.linalg.solve(VB, ref0.mu[B])))
    r0 = spec.ref_run(n, prior + [["MeasureHeterodyne", [], [t], {"select": {"re": 0.0, "im": 0.0}}]], hbar)
    if not click:
        return r0.mu, r0.V, p0
    mA, m0 = ref0.mu[A], r0.mu[A]
    SA = ref0.V[np.ix_(A, A)] + np.outer(mA, mA)
    S0 = r0.V[np.ix_(A, A)] + np.outer(m0, m0)
    q = max(1e-300, 1 - p0)
    m1 = (mA - p0 * m0) / q
    S1 = (SA - p0 * S0) / q
    mu = np.zeros(2 * n)
    V = np.zeros((2 * n, 2 * n))
    mu[A] = m1
    V[np.ix_(A, A)] = S1 - np.outer(m1, m1)
    V[np.ix_(B, B)] = hbar / 2 * np.eye(2)
    return mu, V, p0


def check_ps(ctx, case):
    n, hbar, be, prior, kind, op = case["n"], case["hbar"], case["backend"], case["prior"], case["kind"], case["op"]
    pre = list(case.get("pre_del", []))
    rng = case.get("rng", 7)
    if pre:
        prior = prior + [["Del", [], pre, {}]]
    alive = [m for m in range(n) if m not in pre]
    nl = len(alive)
    keep = alive + [a + n for a in alive]  # rows of the n-mode reference that belong to the modes still in the register
    targets = [alive.index(t) for t in op[2]]  # position of the targets in the returned state (remaining modes, index order)
    spect = [m for m in range(nl) if m not in targets]
    ref0 = spec.ref_run(n, prior, hbar)
    V0r = ref0.V[np.ix_(keep, keep)]
    # correlation between targets and spectators in the prior
    it = targets + [t + nl for t in targets]
    isp = spect + [s + nl for s in spect]
    corr = float(np.max(np.abs(V0r[np.ix_(it, isp)]))) if spect else 0.0
    labels = ["backend:" + be, "kind:" + kind, "op:" + op[0]]
    if op[2][0] != 0:
        labels.append("target_not_first")
    if len(targets) == 2 and any(min(targets) < s < max(targets) for s in spect):
        labels.append("spectator_between_targets")
    if pre:
        labels.append("ps_register_gap")
        if not spect:
            labels.append("ps_all_existing_modes_measured")
        if min(pre) < max(op[2]):
            labels.append("ps_target_after_gap")
    if op[0] == "Gaussian" and len(targets) >= 2:
        labels.append("ps_gaussian_prep_multimode")
        if targets != sorted(targets):
            labels.append("ps_gaussian_prep_unsorted")
        rk = [sorted(targets).index(t) for t in targets]
        if [rk[r] for r in rk] != list(range(len(rk))):
            labels.append("ps_gaussian_prep_3cycle")  # the order is a permutation that is not its own inverse
    threshold = op[0] == "MeasureThreshold"
    sampled = kind == "measure" and not threshold and op[3].get("select") is None
    if sampled:
        labels.append("ps_measure_sampled")
    if threshold:
        labels.append("ps_threshold")
    try:
        s0 = sfrun.run(be, n, prior, hbar, seed=7).state
        res1 = sfrun.run(be, n, prior + [op], hbar, seed=rng)
        s1 = res1.state
    except sfrun.Rejected:
        ctx.note(case, False, ["rejected:" + be])
        return None
    except Exception as exc:  # pylint: disable=broad-except
        return ctx.crash(exc, be + "." + op[0])
    ctx.note(case, nontrivial=corr > 1e-3 * hbar, labels=labels)
    if s0.num_modes != nl:
        return ctx.fail("del.num_modes.%s" % be, "state has %d modes after deleting %s of %d" % (s0.num_modes, pre, n))
    mu0, V0, _ = sfrun.moments_of(s0, be, hbar)
    mu1, V1, _ = sfrun.moments_of(s1, be, hbar)
    sc = 1.0 + float(np.max(np.abs(V0)))
    if kind == "del":
        # returned state holds the remaining modes only, in index order
        if s1.num_modes != len(spect):
            return ctx.fail("del.num_modes.%s" % be, "state has %d modes after deleting %s of %d" % (s1.num_modes, pre + op[2], n))
        d = max(float(np.max(np.abs(mu1 - mu0[isp]))), float(np.max(np.abs(V1 - V0[np.ix_(isp, isp)]))))
        if d > 1e-10 * sc:
            return ctx.fail("del.spectator_changed.%s" % be, "remaining modes changed by %.3g after Del %s" % (d, op[2]))
        return None
    if s1.num_modes != nl:
        return ctx.fail("num_modes_changed.%s.%s" % (be, op[0]), "state has %d modes after %s on a register with %d modes" % (s1.num_modes, op[0], nl))
    if kind in ("gate", "channel", "prep"):
        d = max(float(np.max(np.abs(mu1[isp] - mu0[isp]))), float(np.max(np.abs(V1[np.ix_(isp, isp)] - V0[np.ix_(isp, isp)])))) if spect else 0.0
        if d > 1e-10 * sc:
            return ctx.fail("spectator_changed.%s.%s" % (be, op[0]), "reduced state of modes %s changed by %.3g when %s acted on %s" % ([alive[s] for s in spect], d, op[0], op[2]))
    if kind not in ("prep", "measure"):
        return None
    op_ref = op
    if threshold:
        try:
            click = int(np.ravel(res1.samples_dict[op[2][0]][-1])[0])
        except Exception as exc:  # pylint: disable=broad-except
            return ctx.fail("measure_samples_missing.%s" % be, "no reported outcome for measured mode %s: %r" % (op[2], exc))
        ctx.label("ps_threshold_click" if click else "ps_threshold_noclick")
        mu_t, V_t, p0 = _threshold_reference(n, prior, op[2][0], click, hbar)
        mu1r, V1r = mu_t[keep], V_t[np.ix_(keep, keep)]
        tol = 1e-8 * (1.0 + float(np.max(np.abs(V0r)))) / max(1e-12, (1 - p0) if click else 1.0)
        cross = max(float(np.max(np.abs(V1[np.ix_(it, isp)]))), float(np.max(np.abs(V1[np.ix_(isp, it)])))) if spect else 0.0
        dt = max(float(np.max(np.abs(mu1[it] - mu1r[it]))), float(np.max(np.abs(V1[np.ix_(it, it)] - V1r[np.ix_(it, it)]))))
        dsp = max(float(np.max(np.abs(mu1[isp] - mu1r[isp]))), float(np.max(np.abs(V1[np.ix_(isp, isp)] - V1r[np.ix_(isp, isp)])))) if spect else 0.0
        if cross > tol:
            return ctx.fail("target_still_correlated.%s.%s" % (be, op[0]), "after %s (outcome %d) the target %s remains correlated with the rest (%.3g)" % (op[0], click, op[2], cross))
        if dt > tol:
            return ctx.fail("target_poststate.%s.%s" % (be, op[0]), "after %s (outcome %d) the target is not in the vacuum state (%.3g)" % (op[0], click, dt))
        if dsp > tol:
            return ctx.fail("conditional_update.%s.%s" % (be, op[0]), "after %s with outcome %d (p(no click) = %.6g) mean / covariance of the unmeasured modes differ by %.3g from those of %s"
                            % (op[0], click, p0, dsp, "<0|rho|0>/p0" if not click else "(rho_rest - <0|rho|0>)/(1 - p0)"))
        return None
    if sampled:
        # the outcome the run reported for the measured mode is the one the rest must be conditioned on
        try:
            val = complex(np.ravel(res1.samples_dict[op[2][0]][-1])[0])
        except Exception as exc:  # pylint: disable=broad-except
            return ctx.fail("measure_samples_missing.%s" % be, "no reported outcome for measured mode %s: %r" % (op[2], exc))
        sel = float(val.real) if op[0] == "MeasureHomodyne" else {"re": float(val.real), "im": float(val.imag)}
        op_ref = [op[0], op[1], op[2], {"select": sel}]
    ref1 = spec.ref_run(n, prior + [op_ref], hbar)
    mu1r, V1r = ref1.mu[keep], ref1.V[np.ix_(keep, keep)]
    tol = (1e-8 if kind != "measure" or op[0] == "MeasureHeterodyne" else 2e-5) * (1.0 + float(np.max(np.abs(V1r))))
    # a SAMPLED homodyne is a general-dyne measurement on a state squeezed to variance eps^2 (eps = 2e-4, documented):
    # the unreported conjugate outcome (standard deviation 1/eps) shifts the other means by eps * z * |cov|, z ~ N(0,1)
    tol_mu = tol if not (sampled and op[0] == "MeasureHomodyne") else 1e-2 * (1.0 + float(np.max(np.abs(V1r))))
    # both off-diagonal blocks (the bosonic backend stores each covariance as a full matrix, rows and columns are written separately)
    cross = max(float(np.max(np.abs(V1[np.ix_(it, isp)]))), float(np.max(np.abs(V1[np.ix_(isp, it)])))) if spect else 0.0
    if cross > tol:
        return ctx.fail("target_still_correlated.%s.%s" % (be, op[0]), "after %s the targets %s remain correlated with the rest (%.3g)" % (op[0], op[2], cross))
    dt = max(float(np.max(np.abs(mu1[it] - mu1r[it]))), float(np.max(np.abs(V1[np.ix_(it, it)] - V1r[np.ix_(it, it)]))))
    if dt > tol:
        return ctx.fail("target_poststate.%s.%s" % (be, op[0]), "post-state of the targets differs from the documented one by %.3g" % dt)
    if kind == "measure" and spect:
        dmu = float(np.max(np.abs(mu1[isp] - mu1r[isp])))
        dV = float(np.max(np.abs(V1[np.ix_(isp, isp)] - V1r[np.ix_(isp, isp)])))
        if dV > tol or dmu > tol_mu:
            return ctx.fail("conditional_update.%s.%s" % (be, op[0]), "unmeasured modes differ from the conditional state of the reference by %.3g (means) / %.3g (cov)%s"
                            % (dmu, dV, " [sampled outcome %r]" % (op_ref[3]["select"],) if sampled else ""))
    return None


# ---------------------------------------------------------------------------------------------
# fock
# ---------------------------------------------------------------------------------------------
def basis_states(n, pmax):
    return [idx for idx in itertools.product(range(pmax + 1), repeat=n) if sum(idx) <= pmax]


def ket_from_terms(n, D, terms):
    psi = np.zeros((D,) * n, complex)
    for idx, re, im in terms:
        psi[tuple(idx)] = complex(re, im)
    nrm = np.linalg.norm(psi)
    return psi / nrm


@st.composite
def ket_terms(draw, n, pmax):
    bs = basis_states(n, pmax)
    k = draw(st.integers(2, min(len(bs), 7)))
    chosen = draw(st.permutations(bs))[:k]
    terms = []
    for idx in chosen:
        terms.append([list(idx), draw(gen.fl(0.2, 1.0)) * draw(st.sampled_from([1, -1])), draw(gen.fl(-1.0, 1.0))])
    return terms


F_EXACT = ["Rgate", "Kgate", "BSgate", "MZgate", "CKgate", "LossChannel", "Fouriergate", "sMZgate"]
F_ACTIVE = ["Dgate", "Sgate", "S2gate", "Xgate", "Zgate", "Pgate", "CXgate", "CZgate", "Vgate"]
F_PREPS = ["Vacuum", "Fock", "Coherent", "Squeezed", "Thermal", "Catstate", "DisplacedSqueezed", "Ket1", "Ket2", "DM1", "KetN", "DMN"]


@st.composite
def fock_case(draw):
    n = draw(st.integers(2, 3))
    kind = draw(st.sampled_from(["gate", "gate", "active", "prep", "prep", "prep_all", "measure", "measure", "del", "channel"]))
    if kind == "prep_all":
        n = draw(st.integers(3, 4))
    msub = psub = None
    if kind == "prep" and draw(st.integers(0, 3)) == 0:
        # mixed two-mode DensityMatrix / three-mode Ket on a strict subset of the register, in any order, next to spectators
        psub = "multi"
        n = draw(st.sampled_from([3, 4, 4]))
    if kind == "measure":
        n = draw(st.sampled_from([3, 3, 4, 2]))
        # fock3: three measured modes (any order, mostly the 3-cycles) next to one spectator in a four-mode register
        msub = draw(st.sampled_from(["fock", "fock", "fock3", "homodyne"]))
        if msub == "fock3":
            n = 4
    if kind in ("gate", "channel", "del", "prep") and psub is None and draw(st.integers(0, 5)) == 0:
        n = 4  # two spectators next to a two-mode target, both targets at index >= 2, three-mode preparations on a subset
    # register with a gap: one mode (correlated with the rest by the prior) is deleted BEFORE the operation under test, so
    # that register indices and the backend's internal axes differ; the operation acts on the nl remaining modes
    pre = []
    if kind != "prep_all" and msub != "fock3" and psub is None and draw(st.integers(0, 2)) == 0:
        n = max(n, 3)
        pre = [draw(st.sampled_from([0, 0] + list(range(1, n))))]  # deleting the last mode shifts no index: favour the first
    alive = [m for m in range(n) if m not in pre]
    nl = len(alive)
    if kind == "active":
        D, pmax = (8 if n == 2 else 7), 2
    elif n == 4:
        D, pmax = 4, 3
    else:
        D = draw(st.integers(4, 5))
        pmax = D - 1 if n == 2 else min(D - 1, 3)
    rep = draw(st.sampled_from(["pure", "mixed"]))
    prior = draw(ket_terms(n, pmax))
    prior2 = draw(ket_terms(n, pmax)) if rep == "mixed" else None
    w = draw(gen.fl(0.2, 0.8)) if rep == "mixed" else 1.0
    if kind == "gate":
        op = draw(gen.op_spec(nl, [g for g in F_EXACT if g != "LossChannel"], "fock", no_mz_dagger=True))
    elif kind == "channel":
        op = draw(gen.op_spec(nl, ["LossChannel"], "fock"))
    elif kind == "active":
        op = draw(gen.op_spec(nl, F_ACTIVE, "fock"))
        op[1] = [p * 0.5 if isinstance(p, float) and op[0] in ("Dgate", "Sgate", "S2gate", "Xgate", "Zgate", "Pgate", "CXgate", "CZgate") and i == 0 else p for i, p in enumerate(op[1])]
    elif kind in ("prep", "prep_all"):
        names = F_PREPS if kind == "prep" else ["KetN", "DMN"]
        if psub == "multi":
            names = ["DM2"] if nl == 3 else ["Ket3", "Ket3", "DM2"]
        nm = draw(st.sampled_from(names))
        kind = "prep"
        if nm in ("Ket1", "DM1"):
            m = draw(st.integers(0, nl - 1))
            t1 = draw(ket_terms(1, D - 1))
            t2 = draw(ket_terms(1, D - 1)) if nm == "DM1" else None
            op = [nm, [t1, t2, draw(gen.fl(0.2, 0.8))], [m], {}]
        elif nm == "Ket2":
            modes = list(draw(st.permutations(list(range(nl))))[:2])
            op = [nm, [draw(ket_terms(2, D - 1))], modes, {}]
        elif nm in ("DM2", "Ket3"):
            k = 2 if nm == "DM2" else 3
            modes = list(draw(st.permutations(list(range(nl))))[:k])
            if k == 3 and draw(st.booleans()):
                a, b, c = sorted(modes)
                modes = draw(st.sampled_from([[b, c, a], [c, a, b]]))
            op = [nm, [draw(ket_terms(k, D - 1)), draw(ket_terms(k, D - 1)) if nm == "DM2" else None, draw(gen.fl(0.2, 0.8))], modes, {}]
        elif nm in ("KetN", "DMN"):
            # multi-mode ket / density matrix on ALL modes (still) in the register, listed in any order (3-cycles for 3 modes)
            modes = list(draw(st.permutations(list(range(nl)))))
            op = [nm, [draw(ket_terms(nl, pmax)), draw(ket_terms(nl, pmax)) if nm == "DMN" else None, draw(gen.fl(0.2, 0.8))], modes, {}]
        else:
            op = draw(gen.op_spec(nl, [nm], "fock"))
            if nm == "Fock":
                op[1][0] = min(op[1][0], D - 1)
    elif kind == "measure" and msub == "homodyne":
        # post-selected homodyne measurement of one mode (projector applied to one axis of the ket / density tensor)
        op = ["MeasureHomodyne", [draw(gen.angle())], [draw(st.integers(0, nl - 1))], {"select": draw(gen.real(-1.5, 1.5, (0.0,)))}]
    elif kind == "measure":
        k = draw(st.sampled_from([nl - 1, nl - 1, 1])) if msub != "fock3" else 3
        modes = list(draw(st.permutations(list(range(nl))))[:k])
        if k == 2 and draw(st.booleans()):
            modes = sorted(modes, reverse=True)
        if k == 3 and draw(st.booleans()):
            a, b, c = sorted(modes)
            modes = draw(st.sampled_from([[b, c, a], [c, a, b]]))  # the two orders that are not their own inverse
        # post-selected, or sampled (select_list None): the outcome the run reports is then the one the rest is conditioned on
        op = ["MeasureFock", [], modes, {"select_list": [draw(st.integers(0, 2)) for _ in modes] if draw(st.integers(0, 1 if msub != "fock3" else 2)) == 0 else None}]
    else:
        k = draw(st.integers(1, nl - 1))
        op = ["Del", [], sorted(draw(st.permutations(list(range(nl))))[:k]), {}]
    op[2] = [alive[m] for m in op[2]]
    return {"n": n, "cutoff": D, "rep": rep, "prior": prior, "prior2": prior2, "w": w, "kind": kind, "op": op, "pre_del": pre,
            "rng": draw(st.integers(0, 999)) if kind == "measure" else 11}


def _prior_tensor(case):
    n, D = case["n"], case["cutoff"]
    psi = ket_from_terms(n, D, case["prior"])
    if case["rep"] == "pure":
        return psi, fockref.ket_to_dm(psi)
    psi2 = ket_from_terms(n, D, case["prior2"])
    rho = case["w"] * fockref.ket_to_dm(psi) + (1 - case["w"]) * fockref.ket_to_dm(psi2)
    return None, rho


def _product(rho_rest, rest, sigma, targets, n):
    """tensor of all n modes = rho_rest on modes `rest` (x) sigma on `targets` (sigma's k-th mode -> targets[k])"""
    t = np.tensordot(rho_rest, sigma, axes=0) if rest else sigma
    order = list(rest) + list(targets)
    perm = [2 * order.index(m) + i for m in range(n) for i in (0, 1)]
    return np.transpose(t, perm)


def _run_fock(n, D, pure, build, rng=11):
    import strawberryfields as sf

    prog = sf.Program(n)
    with prog.context as q:
        build(q)
    eng = sf.Engine("fock", backend_options={"cutoff_dim": D, "pure": pure})
    np.random.seed(rng)
    res = eng.run(prog)
    _LAST["samples_dict"] = res.samples_dict
    return res.state


_LAST = {}


def _apply_test_op(q, op, D):
    from strawberryfields import ops

    name, params, modes = op[0], op[1], op[2]
    flags = op[3] if len(op) > 3 else {}
    regs = tuple(q[m] for m in modes)
    if name == "Ket1":
        ops.Ket(ket_from_terms(1, D, params[0])) | regs[0]
    elif name == "DM1":
        a, b, w = ket_from_terms(1, D, params[0]), ket_from_terms(1, D, params[1]), params[2]
        ops.DensityMatrix(w * np.outer(a, a.conj()) + (1 - w) * np.outer(b, b.conj())) | regs[0]
    elif name == "Ket2":
        ops.Ket(ket_from_terms(2, D, params[0])) | regs
    elif name in ("KetN", "Ket3"):
        ops.Ket(ket_from_terms(len(modes), D, params[0])) | regs
    elif name in ("DMN", "DM2"):
        a, b, w = ket_from_terms(len(modes), D, params[0]), ket_from_terms(len(modes), D, params[1]), params[2]
        ops.DensityMatrix(w * fockref.ket_to_dm(a) + (1 - w) * fockref.ket_to_dm(b)) | regs
    elif name == "MeasureFock":
        ops.MeasureFock(select=None if flags["select_list"] is None else list(flags["select_list"])) | regs
    elif name == "Del":
        ops.Del | regs
    else:
        o = spec.make_op(ops, name, params, flags)
        o | (regs if len(regs) > 1 else regs[0])


_LET = "abcdefghijklmnopqrstuvwxyz"


def _homodyne_projector(D, phi, x):
    """P = |e><e| / <e|e> for the vector e the backend projects on in MeasureHomodyne(phi, select=x) at cutoff D, read off
    a canonical run: the measured mode is mode 0 of a two-mode pure register in the state sum_k |k,k>/sqrt(D), which leaves
    mode 1 in conj(e)/|e|.  Returns None if that run does not leave |0> (x) pure state."""
    from strawberryfields import ops

    psi = np.zeros((D, D), complex)
    for k in range(D):
        psi[k, k] = 1 / np.sqrt(D)

    def build(q):
        ops.Ket(psi) | (q[0], q[1])
        ops.MeasureHomodyne(phi, select=x) | q[0]

    rho = fockref.state_dm(_run_fock(2, D, True, build))
    sig = fockref.reduce_dm(rho, 2, [1])
    vac = np.zeros((D, D), complex)
    vac[0, 0] = 1
    if float(np.max(np.abs(rho - _product(sig, [1], vac, [0], 2)))) > 1e-9 or abs(np.trace(sig @ sig).real - 1) > 1e-9:
        return None
    return sig.T


def check_fock(ctx, case):
    from strawberryfields import ops
    from strawberryfields.backends.base import NotApplicableError

    n_reg, D, rep, kind, op = case["n"], case["cutoff"], case["rep"], case["kind"], case["op"]
    pre = list(case.get("pre_del", []))
    alive = [m for m in range(n_reg) if m not in pre]
    n = len(alive)  # modes in the register when the operation under test acts; below, modes are numbered by their position among them
    targets = [alive.index(t) for t in op[2]]
    spect = [m for m in range(n) if m not in targets]
    psi0, rho_reg = _prior_tensor(case)
    # state the operation acts on: the prior with the deleted modes traced out (computed from the JSON by fockref)
    rho0 = fockref.reduce_dm(rho_reg, n_reg, alive) if pre else rho_reg

    def build(q):
        if rep == "pure":
            ops.Ket(psi0) | tuple(q)
        else:
            ops.DensityMatrix(rho_reg) | tuple(q)
        if pre:
            ops.Del | tuple(q[m] for m in pre)
        _apply_test_op(q, op, D)

    labels = ["backend:fock", "fock_" + rep, "kind:" + kind, "op:" + op[0]]
    if op[2][0] != 0:
        labels.append("target_not_first")
    if len(targets) == 2 and targets[0] > targets[1]:
        labels.append("descending_pair")
    rk = [sorted(targets).index(t) for t in targets]
    if len(targets) >= 3 and [rk[r] for r in rk] != list(range(len(rk))):
        labels.append("non_involutive_target_order")
    if pre:
        labels.append("fock_register_gap")
        if pre[0] < max(op[2]):
            labels.append("fock_target_after_gap")  # internal axis of a target differs from its register index
    if n_reg == 4 and kind != "prep" or n_reg == 4 and op[0] not in ("KetN", "DMN"):
        labels.append("fock_four_modes")
    if len(targets) >= 2 and spect and op[0] in ("Ket2", "Ket3", "DM2"):
        labels.append("fock_multimode_prep_on_subset")
    # non-trivial: prior not a product across the cut (purity of the spectator marginal of each pure component < 1)
    r_sp = fockref.reduce_dm(rho0, n, spect)
    r_t = fockref.reduce_dm(rho0, n, targets)
    prod = _product(r_sp, spect, r_t, targets, n)
    entangled = float(np.max(np.abs(prod - rho0))) > 1e-3
    homodyne = kind == "measure" and op[0] == "MeasureHomodyne"
    sampled = kind == "measure" and not homodyne and op[3]["select_list"] is None
    if sampled:
        labels.append("measure_sampled")
        if "non_involutive_target_order" in labels:
            labels.append("measure_sampled_3cycle")
    if homodyne:
        labels.append("fock_homodyne")
    sel = cond = pr = None
    if kind == "measure" and not sampled:
        if homodyne:
            sel = op[3]["select"]
            try:
                P = _homodyne_projector(D, op[1][0], sel)
            except Exception as exc:  # pylint: disable=broad-except
                return ctx.crash(exc, "fock.MeasureHomodyne")
            if P is None:
                ctx.note(case, entangled, labels)
                return ctx.fail("measure_poststate.fock.homodyne_canonical", "MeasureHomodyne(%r, select=%r) on mode 0 of sum_k |k,k> does not leave |0> (x) a pure state" % (op[1][0], sel))
            t = targets[0]
            ins = "".join(_LET[2 * m] + _LET[2 * m + 1] for m in range(n))
            out = "".join(_LET[2 * m] + _LET[2 * m + 1] for m in range(n) if m != t)
            cond = np.einsum("%s,%s->%s" % (ins, _LET[2 * t + 1] + _LET[2 * t], out), rho0, P)  # Tr_t(rho P) = <e|rho|e>/<e|e>
        else:
            sel = op[3]["select_list"]
            idx = []
            for m in range(n):
                if m in targets:
                    s = sel[targets.index(m)]
                    idx += [s, s]
                else:
                    idx += [slice(None), slice(None)]
            cond = rho0[tuple(idx)]
        pr = fockref.trace(cond, len(spect)) if spect else float(np.real(cond))
        if pr < 1e-4:
            ctx.note(case, False, ["measure_prob_too_small"])
            return None
    try:
        st1 = _run_fock(n_reg, D, rep == "pure", build, case.get("rng", 11))
    except (NotApplicableError, NotImplementedError):
        ctx.note(case, False, ["rejected:fock"])
        return None
    except Exception as exc:  # pylint: disable=broad-except
        return ctx.crash(exc, "fock." + op[0])
    ctx.note(case, nontrivial=entangled, labels=labels)
    rho1 = fockref.state_dm(st1)
    if kind == "del":
        if st1.num_modes != len(spect):
            return ctx.fail("del.num_modes.fock", "state has %d modes after deleting %s of %d" % (st1.num_modes, pre + op[2], n_reg))
        d = float(np.max(np.abs(rho1 - r_sp)))
        if d > 1e-10:
            return ctx.fail("del.spectator_changed.fock", "remaining modes differ from the partial trace of the prior by %.3g" % d)
        return None
    if st1.num_modes != n:
        return ctx.fail("num_modes_changed.fock.%s" % op[0], "state has %d modes after %s on a register with %d modes" % (st1.num_modes, op[0], n))
    tr1 = fockref.trace(rho1, n)
    if kind in ("gate", "channel", "active"):
        r1 = fockref.reduce_dm(rho1, n, spect)
        d = float(np.max(np.abs(r1 - r_sp)))
        tol = 1e-10 if kind != "active" else 1e-6 + 20 * max(0.0, 1 - tr1)
        if kind != "active" and abs(tr1 - 1) > 1e-10:
            return ctx.fail("trace_changed.fock.%s" % op[0], "trace %.12f after %s on a prior with < cutoff photons" % (tr1, op[0]))
        if d > tol:
            return ctx.fail("spectator_changed.fock.%s" % op[0], "reduced state of modes %s changed by %.3g (tol %.2g) when %s acted on %s [%s]" % ([alive[s] for s in spect], d, tol, op[0], op[2], rep))
        return None
    if kind == "prep":
        # sigma from the same preparation on a register of its own (position independence)
        k = len(targets)
        local = [op[0], op[1], list(range(k)), op[3] if len(op) > 3 else {}]
        sig = fockref.state_dm(_run_fock(k, D, True, lambda q: _apply_test_op(q, local, D)))
        exp = _product(r_sp, spect, sig, targets, n)
        d = float(np.max(np.abs(rho1 - exp)))
        if d > 1e-9:
            # which part is wrong?
            r1 = fockref.reduce_dm(rho1, n, spect)
            c = fockref.trace(sig, k)
            if float(np.max(np.abs(r1 - c * r_sp))) > 1e-9:
                return ctx.fail("spectator_changed.fock.%s" % op[0], "preparation %s on %s changed the other modes (%.3g)" % (op[0], op[2], float(np.max(np.abs(r1 - c * r_sp)))))
            return ctx.fail("prep_not_product.fock.%s" % op[0], "state after %s on %s is not rho_rest (x) prepared state (%.3g)" % (op[0], op[2], d))
        # closed forms of the documented post-state
        closed = None
        if op[0] == "Vacuum":
            closed = np.zeros(D, complex)
            closed[0] = 1
        elif op[0] == "Fock":
            closed = np.zeros(D, complex)
            closed[int(op[1][0])] = 1
        elif op[0] == "Coherent":
            from math import factorial

            al = op[1][0] * np.exp(1j * op[1][1])
            closed = np.array([np.exp(-abs(al) ** 2 / 2) * al ** j / np.sqrt(factorial(j)) for j in range(D)])
        elif op[0] == "Ket1":
            closed = ket_from_terms(1, D, op[1][0])
        if closed is not None:
            dc = float(np.max(np.abs(sig - fockref.ket_to_dm(closed))))
            if dc > 1e-9:
                return ctx.fail("prep_state.fock.%s" % op[0], "prepared state differs from the documented one by %.3g" % dc)
        if op[0] in ("Ket2", "Ket3", "DM2"):
            arg = fockref.ket_to_dm(ket_from_terms(k, D, op[1][0]))
            if op[0] == "DM2":
                arg = op[1][2] * arg + (1 - op[1][2]) * fockref.ket_to_dm(ket_from_terms(k, D, op[1][1]))
            dc = float(np.max(np.abs(sig - arg)))
            if dc > 1e-9:
                return ctx.fail("prep_state.fock.%s" % op[0], "%d-mode preparation differs from its argument by %.3g" % (k, dc))
        if op[0] in ("KetN", "DMN"):
            arg = fockref.ket_to_dm(ket_from_terms(k, D, op[1][0]))
            if op[0] == "DMN":
                arg = op[1][2] * arg + (1 - op[1][2]) * fockref.ket_to_dm(ket_from_terms(k, D, op[1][1]))
            dc = float(np.max(np.abs(rho1 - _product(None, [], arg, targets, n))))
            if dc > 1e-9:
                return ctx.fail("prep_state.fock.%s" % op[0], "%d-mode preparation on modes %s: subsystem s of the argument is not in mode modes[s] (%.3g)" % (k, op[2], dc))
        return None
    if sampled:
        # condition on the outcome the run reported for each measured mode
        try:
            sel = [int(np.ravel(_LAST["samples_dict"][m][-1])[0]) for m in op[2]]
        except Exception as exc:  # pylint: disable=broad-except
            return ctx.fail("measure_samples_missing.fock", "no reported outcome for measured modes %s: %r" % (op[2], exc))
        idx = []
        for m in range(n):
            if m in targets:
                s = sel[targets.index(m)]
                idx += [s, s]
            else:
                idx += [slice(None), slice(None)]
        cond = rho0[tuple(idx)]
        pr = fockref.trace(cond, len(spect)) if spect else float(np.real(cond))
        if len(targets) >= 2 and targets != sorted(targets) and len(set(sel)) > 1:
            ctx.label("measure_sampled_unsorted_unequal_outcomes")
        if pr < 1e-9:
            return ctx.fail("measure_impossible_outcome.fock", "MeasureFock on %s reported outcome %s which has probability %.3g in the prior" % (op[2], sel, pr))
    if kind == "measure":
        k = len(targets)
        vac = np.zeros((D,) * (2 * k), complex)
        vac[(0,) * (2 * k)] = 1
        exp = _product(cond / pr, spect, vac, targets, n)
        d = float(np.max(np.abs(rho1 - exp)))
        if d > 1e-8:
            if homodyne:
                return ctx.fail("measure_poststate.fock.homodyne", "after MeasureHomodyne(%r, select=%r) on mode %s of %d [%s] the state differs by %.3g from <e|rho|e>/p (x) vacuum, "
                                "e = the vector the same measurement projects on at mode 0 of a two-mode register" % (op[1][0], sel, op[2], n, rep, d))
            return ctx.fail("measure_poststate.fock", "after MeasureFock(select=%s) on %s the state differs from <k|rho|k>/p (x) vacuum by %.3g" % (sel, op[2], d))
        return None
    return None


# ---------------------------------------------------------------------------------------------
# bosonic with non-Gaussian spectators
# ---------------------------------------------------------------------------------------------
@st.composite
def bng_case(draw):
    n = draw(st.integers(2, 3))
    preps = []
    for m in range(n):
        kind = draw(st.sampled_from(["Catstate", "Fock", "Squeezed", "Coherent"]))
        if kind == "Catstate":
            preps.append(["Catstate", [draw(gen.fl(0.4, 1.2)), draw(st.sampled_from([0.0, 1.0]))], [m], {}])
        elif kind == "Fock":
            preps.append(["Fock", [draw(st.integers(1, 2))], [m], {}])
        else:
            preps.append([kind, draw(gen.op_params(kind, "ps")), [m], {}])
    okind = draw(st.sampled_from(["gate", "gate", "gate", "prep", "prep_multi"]))
    if okind == "gate":
        op = draw(gen.op_spec(n, ["Dgate", "Sgate", "Rgate", "BSgate", "LossChannel", "ThermalLossChannel", "S2gate", "MZgate", "Xgate", "Pgate"], "ps"))
    elif okind == "prep":
        # a Gaussian preparation in the middle of the circuit, on a mode that may hold a cat / Fock state (many weights)
        op = draw(gen.op_spec(n, PS_PREPS, "ps"))
    else:
        k = draw(st.integers(1, n - 1))
        op = draw(gaussian_prep(list(draw(st.permutations(list(range(n))))[:k]), 2.0))
    pre = draw(st.booleans())
    ent = []
    if pre:
        a, b = draw(st.permutations(list(range(n))))[:2]
        ent = [["BSgate", [draw(gen.fl(0.3, 1.2)), draw(gen.angle())], [a, b], {}]]
    return {"n": n, "preps": preps, "ent": ent, "op": op}


def check_bng(ctx, case):
    n, op = case["n"], case["op"]
    prior = case["preps"] + case["ent"]
    targets = list(op[2])
    spect = [m for m in range(n) if m not in targets]
    if not spect:
        ctx.note(case, False, ["no_spectator"])
        return None
    try:
        s0 = sfrun.run("bosonic", n, prior, 2.0).state
        s1 = sfrun.run("bosonic", n, prior + [op], 2.0).state
    except sfrun.Rejected:
        ctx.note(case, False, ["rejected:bosonic"])
        return None
    except Exception as exc:  # pylint: disable=broad-except
        return ctx.crash(exc, "bosonic." + op[0])
    w0, m0, c0 = np.asarray(s0.weights()), np.asarray(s0.means()), np.asarray(s0.covs())
    w1, m1, c1 = np.asarray(s1.weights()), np.asarray(s1.means()), np.asarray(s1.covs())
    is_prep = op[0] in PS_PREPS or op[0] == "Gaussian"
    ctx.note(case, nontrivial=len(w0) > 1, labels=["backend:bosonic", "bosonic_multiweight" if len(w0) > 1 else "bosonic_oneweight", "op:" + op[0]]
             + (["bosonic_nongauss_prep"] if is_prep and len(w0) > 1 else []))
    idx = [i for s in spect for i in (2 * s, 2 * s + 1)]
    if len(w0) != len(w1):
        return ctx.fail("bosonic.num_weights_changed.%s" % op[0], "%d -> %d weights" % (len(w0), len(w1)))
    d = max(float(np.max(np.abs(w1 - w0))), float(np.max(np.abs(m1[:, idx] - m0[:, idx]))))
    c0b = np.broadcast_to(c0, (len(w0),) + c0.shape[1:]) if c0.shape[0] == 1 else c0
    c1b = np.broadcast_to(c1, (len(w1),) + c1.shape[1:]) if c1.shape[0] == 1 else c1
    d = max(d, float(np.max(np.abs(c1b[:, idx][:, :, idx] - c0b[:, idx][:, :, idx]))))
    if d > 1e-10 * (1 + float(np.max(np.abs(c0)))):
        return ctx.fail("spectator_changed.bosonic_nongauss.%s" % op[0], "per-weight data of modes %s changed by %.3g when %s acted on %s" % (spect, d, op[0], targets))
    if is_prep:
        # every term of the linear combination carries the documented prepared state on the targets, uncorrelated with the rest
        ref = spec.ref_run(n, [op], 2.0)
        o = sfrun.XPXP(n)
        mu_r, V_r = ref.mu[o], ref.V[np.ix_(o, o)]
        tix = [i for t in sorted(targets) for i in (2 * t, 2 * t + 1)]
        dt = max(float(np.max(np.abs(m1[:, tix] - mu_r[tix]))), float(np.max(np.abs(c1b[:, tix][:, :, tix] - V_r[np.ix_(tix, tix)]))))
        cross = max(float(np.max(np.abs(c1b[:, tix][:, :, idx]))), float(np.max(np.abs(c1b[:, idx][:, :, tix]))))
        if cross > 1e-9:
            return ctx.fail("target_still_correlated.bosonic_nongauss.%s" % op[0], "after %s the targets %s remain correlated with the rest in some term (%.3g)" % (op[0], targets, cross))
        if dt > 1e-9 * (1 + float(np.max(np.abs(V_r)))):
            return ctx.fail("target_poststate.bosonic_nongauss.%s" % op[0], "per-term state of the targets differs from the documented one by %.3g" % dt)
    return None


SUBS = [
    Sub("ps_spectator", check=check_ps, strategy=lambda ctx: ps_case(), examples={"quick": 800, "thorough": 5000},
        shards={"quick": 2, "thorough": 16}, rule="gaussian/bosonic: entangling prior (+ optional Del of some modes) + one op on ordered targets; sampled measurements conditioned on the reported outcome"),
    Sub("fock_spectator", check=check_fock, strategy=lambda ctx: fock_case(), examples={"quick": 300, "thorough": 2000},
        shards={"quick": 3, "thorough": 16}, rule="fock pure/mixed: generated bounded-photon prior (+ optional Del of one mode) + one op; oracle computed from the JSON prior by fockref"),
    Sub("bosonic_nongauss", check=check_bng, strategy=lambda ctx: bng_case(), examples={"quick": 120, "thorough": 500},
        shards={"quick": 1, "thorough": 8}, rule="bosonic with cat/Fock spectators: per-weight spectator data unchanged; mid-circuit Gaussian preparations per term"),
]

MANIFEST = {
    "technique": "Hypothesis metamorphic testing (prior vs prior+operation) with fockref / refsim oracles for spectator and target blocks",
    "text": ("A generated correlated prior is followed by one operation on every ordered target choice; the spectators' reduced state "
             "must be unchanged (1e-10; Fock priors are photon-number bounded so that truncation cannot interfere), preparations / "
             "Del / post-selected or sampled measurements must leave exactly rho_rest (x) documented post-state (sampled: conditioned on "
             "the reported outcome). The same holds after some modes of the register were deleted. Oracles are computed from the "
             "JSON prior by fockref or by refsim, not by the backend under test (fock homodyne: projection vector taken from one "
             "canonical run of the same measurement, so that position / representation independence is what is decided)."),
}
