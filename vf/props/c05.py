"""C05 - operations act only on their target modes.

Sub-checks
  ps_spectator     gaussian / bosonic: correlated multi-mode prior, then one operation on an ordered target
                   choice; reduced (mean, cov) of the complement must be *unchanged* (1e-10, same backend) and
                   equal the independent reference; preparations / Del / post-selected measurements: target block
                   is the documented post-state, cross-correlations vanish, complement = reference conditional.
  fock_spectator   fock pure and mixed: the prior is a generated photon-number-bounded ket / mixture written
                   straight into the register, so the expected spectator state is computed by fockref from the
                   JSON, not by the backend.  Passive / diagonal gates and loss are exact on such priors (1e-10);
                   active gates get a tolerance proportional to the measured trace loss; preparations must give
                   exactly rho_rest (x) sigma; MeasureFock(select) must give the projected state (x) vacuum.
  bosonic_nongauss bosonic backend with cat/Fock spectators (many weights): per-weight data of spectators unchanged.
"""
from __future__ import annotations

import itertools

import numpy as np
from hypothesis import strategies as st

from vf import fockref, gen, refsim, sfrun, spec
from vf.core import Sub

RULE = ("a correlated prior state (entangling Gaussian circuit, or a generated bounded-photon ket/mixture on all modes) "
        "followed by ONE operation under test on an ordered target tuple in a register of 2..4 modes; non-trivial = the "
        "prior correlates a target with a spectator (phase space: |cov off-block| > 1e-3; Fock: prior is not a product "
        "across the target/spectator cut) ; distinct = distinct JSON")
ASSUMPTIONS = [
    "TensorFlow backend not exercised (not installed)",
    "Fock: passive/diagonal gates and loss are exact on priors with total photon number < cutoff, so spectators must be "
    "unchanged to 1e-10; active gates: tolerance 1e-6 + 20*(trace lost by truncation), measured per case",
    "a truncated Coherent/Thermal/Cat/Squeezed preparation is sub-normalised: the product rho_rest (x) sigma is compared "
    "with sigma obtained from the same preparation on a one-mode register (position independence) and, where a closed "
    "form is documented (Vacuum, Fock, Ket, DensityMatrix, Coherent), with that closed form",
    "gaussian-backend MeasureFock/MeasureThreshold do not update the state (documented): excluded",
]
REQUIRED_LABELS = {"all": ["backend:gaussian", "backend:bosonic", "backend:fock", "target_not_first", "fock_pure", "fock_mixed",
                           "kind:gate", "kind:channel", "kind:prep", "kind:measure", "kind:del", "measure_sampled", "non_involutive_target_order"]}


def selftest():
    refsim.selftest()
    fockref.selftest()


# ---------------------------------------------------------------------------------------------
# phase space
# ---------------------------------------------------------------------------------------------
PS_GATES = ["Dgate", "Sgate", "Rgate", "BSgate", "S2gate", "MZgate", "Xgate", "Zgate", "Pgate", "CXgate", "CZgate", "Fouriergate"]
PS_CHANNELS = ["LossChannel", "ThermalLossChannel"]
PS_PREPS = ["Vacuum", "Coherent", "Squeezed", "DisplacedSqueezed", "Thermal"]


@st.composite
def entangling_prior(draw, n, energy="ps"):
    ops_ = []
    for m in range(n):
        k = draw(st.sampled_from(["Sgate", "Dgate", "Thermal", "Squeezed"]))
        ops_.append([k, draw(gen.op_params(k, energy)), [m], {}])
        if k in ("Thermal",) and draw(st.booleans()):
            ops_.append(["Dgate", draw(gen.op_params("Dgate", energy)), [m], {}])
    pairs = [list(p) for p in itertools.permutations(range(n), 2)]
    chain = draw(st.permutations(list(range(n))))
    for a, b in zip(chain[:-1], chain[1:]):
        k = draw(st.sampled_from(["BSgate", "BSgate", "S2gate"]))
        if k == "BSgate":
            ops_.append([k, [draw(gen.fl(0.3, 1.2)), draw(gen.angle())], [a, b], {}])
        else:
            ops_.append([k, [draw(gen.fl(0.15, 0.6 if energy == "ps" else 0.3)), draw(gen.angle())], [a, b], {}])
    for _ in range(draw(st.integers(0, 2))):
        a, b = draw(st.sampled_from(pairs))
        ops_.append(["BSgate", [draw(gen.angle()), draw(gen.angle())], [a, b], {}])
    return ops_


@st.composite
def ps_case(draw):
    n = draw(st.integers(2, 4))
    hbar = draw(st.sampled_from([2.0, 2.0, 1.0, 0.5, 3.3]))
    backend = draw(st.sampled_from(["gaussian", "bosonic"]))
    prior = draw(entangling_prior(n))
    kind = draw(st.sampled_from(["gate", "gate", "channel", "prep", "measure", "del"]))
    if kind == "gate":
        op = draw(gen.op_spec(n, PS_GATES, "ps"))
    elif kind == "channel":
        op = draw(gen.op_spec(n, PS_CHANNELS, "ps"))
    elif kind == "prep":
        op = draw(gen.op_spec(n, PS_PREPS, "ps"))
    elif kind == "measure":
        m = draw(st.integers(0, n - 1))
        if draw(st.booleans()):
            op = ["MeasureHomodyne", [draw(gen.angle())], [m], {"select": draw(gen.fl(-1.5, 1.5))}]
        else:
            op = ["MeasureHeterodyne", [], [m], {"select": {"re": draw(gen.fl(-0.8, 0.8)), "im": draw(gen.fl(-0.8, 0.8))}}]
    else:
        k = draw(st.integers(1, n - 1))
        op = ["Del", [], sorted(draw(st.permutations(list(range(n))))[:k]), {}]
    return {"n": n, "hbar": hbar, "backend": backend, "prior": prior, "kind": kind, "op": op}


def check_ps(ctx, case):
    n, hbar, be, prior, kind, op = case["n"], case["hbar"], case["backend"], case["prior"], case["kind"], case["op"]
    targets = list(op[2])
    spect = [m for m in range(n) if m not in targets]
    ref0 = spec.ref_run(n, prior, hbar)
    # correlation between targets and spectators in the prior
    it = targets + [t + n for t in targets]
    isp = spect + [s + n for s in spect]
    corr = float(np.max(np.abs(ref0.V[np.ix_(it, isp)]))) if spect else 0.0
    labels = ["backend:" + be, "kind:" + kind, "op:" + op[0]]
    if targets[0] != 0:
        labels.append("target_not_first")
    if len(targets) == 2 and any(min(targets) < s < max(targets) for s in spect):
        labels.append("spectator_between_targets")
    try:
        s0 = sfrun.run(be, n, prior, hbar, seed=7).state
        s1 = sfrun.run(be, n, prior + [op], hbar, seed=7).state
    except sfrun.Rejected:
        ctx.note(case, False, ["rejected:" + be])
        return None
    except Exception as exc:  # pylint: disable=broad-except
        return ctx.crash(exc, be + "." + op[0])
    ctx.note(case, nontrivial=corr > 1e-3 * hbar, labels=labels)
    mu0, V0, _ = sfrun.moments_of(s0, be, hbar)
    mu1, V1, _ = sfrun.moments_of(s1, be, hbar)
    sc = 1.0 + float(np.max(np.abs(V0)))
    if kind == "del":
        # returned state holds the remaining modes only, in index order
        if s1.num_modes != len(spect):
            return ctx.fail("del.num_modes.%s" % be, "state has %d modes after deleting %s of %d" % (s1.num_modes, targets, n))
        d = max(float(np.max(np.abs(mu1 - mu0[isp]))), float(np.max(np.abs(V1 - V0[np.ix_(isp, isp)]))))
        if d > 1e-10 * sc:
            return ctx.fail("del.spectator_changed.%s" % be, "remaining modes changed by %.3g after Del %s" % (d, targets))
        return None
    if kind in ("gate", "channel", "prep"):
        d = max(float(np.max(np.abs(mu1[isp] - mu0[isp]))), float(np.max(np.abs(V1[np.ix_(isp, isp)] - V0[np.ix_(isp, isp)])))) if spect else 0.0
        if d > 1e-10 * sc:
            return ctx.fail("spectator_changed.%s.%s" % (be, op[0]), "reduced state of modes %s changed by %.3g when %s acted on %s" % (spect, d, op[0], targets))
    ref1 = spec.ref_run(n, prior + [op], hbar)
    tol = (1e-8 if kind != "measure" or op[0] == "MeasureHeterodyne" else 2e-5) * (1.0 + float(np.max(np.abs(ref1.V))))
    if kind in ("prep", "measure"):
        cross = float(np.max(np.abs(V1[np.ix_(it, isp)]))) if spect else 0.0
        if cross > tol:
            return ctx.fail("target_still_correlated.%s.%s" % (be, op[0]), "after %s the targets %s remain correlated with the rest (%.3g)" % (op[0], targets, cross))
        dt = max(float(np.max(np.abs(mu1[it] - ref1.mu[it]))), float(np.max(np.abs(V1[np.ix_(it, it)] - ref1.V[np.ix_(it, it)]))))
        if dt > tol:
            return ctx.fail("target_poststate.%s.%s" % (be, op[0]), "post-state of the targets differs from the documented one by %.3g" % dt)
    if kind == "measure" and spect:
        dsp = max(float(np.max(np.abs(mu1[isp] - ref1.mu[isp]))), float(np.max(np.abs(V1[np.ix_(isp, isp)] - ref1.V[np.ix_(isp, isp)]))))
        if dsp > tol:
            return ctx.fail("conditional_update.%s.%s" % (be, op[0]), "unmeasured modes differ from the conditional state of the reference by %.3g" % dsp)
    return None


# ---------------------------------------------------------------------------------------------
# fock
# ---------------------------------------------------------------------------------------------
def basis_states(n, pmax):
    return [idx for idx in itertools.product(range(pmax + 1), repeat=n) if sum(idx) <= pmax]


def ket_from_terms(n, D, terms):
    psi = np.zeros((D,) * n, complex)
    for idx, re, im in terms:
        psi[tuple(idx)] = complex(re, im)
    nrm = np.linalg.norm(psi)
    return psi / nrm


@st.composite
def ket_terms(draw, n, pmax):
    bs = basis_states(n, pmax)
    k = draw(st.integers(2, min(len(bs), 7)))
    chosen = draw(st.permutations(bs))[:k]
    terms = []
    for idx in chosen:
        terms.append([list(idx), draw(gen.fl(0.2, 1.0)) * draw(st.sampled_from([1, -1])), draw(gen.fl(-1.0, 1.0))])
    return terms


F_EXACT = ["Rgate", "Kgate", "BSgate", "MZgate", "CKgate", "LossChannel", "Fouriergate", "sMZgate"]
F_ACTIVE = ["Dgate", "Sgate", "S2gate", "Xgate", "Zgate", "Pgate", "CXgate", "CZgate", "Vgate"]
F_PREPS = ["Vacuum", "Fock", "Coherent", "Squeezed", "Thermal", "Catstate", "DisplacedSqueezed", "Ket1", "Ket2", "DM1", "KetN", "DMN"]


@st.composite
def fock_case(draw):
    n = draw(st.integers(2, 3))
    kind = draw(st.sampled_from(["gate", "gate", "active", "prep", "prep", "prep_all", "measure", "measure", "del", "channel"]))
    if kind == "prep_all":
        n = draw(st.integers(3, 4))
    if kind == "measure":
        n = draw(st.sampled_from([3, 3, 3, 2]))
    if kind == "active":
        D, pmax = (8 if n == 2 else 7), 2
    elif n == 4:
        D, pmax = 4, 3
    else:
        D = draw(st.integers(4, 5))
        pmax = D - 1 if n == 2 else min(D - 1, 3)
    rep = draw(st.sampled_from(["pure", "mixed"]))
    prior = draw(ket_terms(n, pmax))
    prior2 = draw(ket_terms(n, pmax)) if rep == "mixed" else None
    w = draw(gen.fl(0.2, 0.8)) if rep == "mixed" else 1.0
    if kind == "gate":
        op = draw(gen.op_spec(n, [g for g in F_EXACT if g != "LossChannel"], "fock", no_mz_dagger=True))
    elif kind == "channel":
        op = draw(gen.op_spec(n, ["LossChannel"], "fock"))
    elif kind == "active":
        op = draw(gen.op_spec(n, F_ACTIVE, "fock"))
        op[1] = [p * 0.5 if isinstance(p, float) and op[0] in ("Dgate", "Sgate", "S2gate", "Xgate", "Zgate", "Pgate", "CXgate", "CZgate") and i == 0 else p for i, p in enumerate(op[1])]
    elif kind in ("prep", "prep_all"):
        nm = draw(st.sampled_from(F_PREPS if kind == "prep" else ["KetN", "DMN"]))
        kind = "prep"
        if nm in ("Ket1", "DM1"):
            m = draw(st.integers(0, n - 1))
            t1 = draw(ket_terms(1, D - 1))
            t2 = draw(ket_terms(1, D - 1)) if nm == "DM1" else None
            op = [nm, [t1, t2, draw(gen.fl(0.2, 0.8))], [m], {}]
        elif nm == "Ket2":
            modes = list(draw(st.permutations(list(range(n))))[:2])
            op = [nm, [draw(ket_terms(2, D - 1))], modes, {}]
        elif nm in ("KetN", "DMN"):
            # multi-mode ket / density matrix on ALL modes of the register, listed in any order (3-cycles for n = 3)
            modes = list(draw(st.permutations(list(range(n)))))
            op = [nm, [draw(ket_terms(n, pmax)), draw(ket_terms(n, pmax)) if nm == "DMN" else None, draw(gen.fl(0.2, 0.8))], modes, {}]
        else:
            op = draw(gen.op_spec(n, [nm], "fock"))
            if nm == "Fock":
                op[1][0] = min(op[1][0], D - 1)
    elif kind == "measure":
        k = draw(st.sampled_from([n - 1, n - 1, 1]))
        modes = list(draw(st.permutations(list(range(n))))[:k])
        if k == 2 and draw(st.booleans()):
            modes = sorted(modes, reverse=True)
        # post-selected, or sampled (select_list None): the outcome the run reports is then the one the rest is conditioned on
        op = ["MeasureFock", [], modes, {"select_list": [draw(st.integers(0, 2)) for _ in modes] if draw(st.booleans()) else None}]
    else:
        k = draw(st.integers(1, n - 1))
        op = ["Del", [], sorted(draw(st.permutations(list(range(n))))[:k]), {}]
    return {"n": n, "cutoff": D, "rep": rep, "prior": prior, "prior2": prior2, "w": w, "kind": kind, "op": op,
            "rng": draw(st.integers(0, 999)) if kind == "measure" else 11}


def _prior_tensor(case):
    n, D = case["n"], case["cutoff"]
    psi = ket_from_terms(n, D, case["prior"])
    if case["rep"] == "pure":
        return psi, fockref.ket_to_dm(psi)
    psi2 = ket_from_terms(n, D, case["prior2"])
    rho = case["w"] * fockref.ket_to_dm(psi) + (1 - case["w"]) * fockref.ket_to_dm(psi2)
    return None, rho


def _product(rho_rest, rest, sigma, targets, n):
    """tensor of all n modes = rho_rest on modes `rest` (x) sigma on `targets` (sigma's k-th mode -> targets[k])"""
    t = np.tensordot(rho_rest, sigma, axes=0) if rest else sigma
    order = list(rest) + list(targets)
    perm = [2 * order.index(m) + i for m in range(n) for i in (0, 1)]
    return np.transpose(t, perm)


def _run_fock(n, D, pure, build, rng=11):
    import strawberryfields as sf

    prog = sf.Program(n)
    with prog.context as q:
        build(q)
    eng = sf.Engine("fock", backend_options={"cutoff_dim": D, "pure": pure})
    np.random.seed(rng)
    res = eng.run(prog)
    _LAST["samples_dict"] = res.samples_dict
    return res.state


_LAST = {}


def _apply_test_op(q, op, D):
    from strawberryfields import ops

    name, params, modes = op[0], op[1], op[2]
    flags = op[3] if len(op) > 3 else {}
    regs = tuple(q[m] for m in modes)
    if name == "Ket1":
        ops.Ket(ket_from_terms(1, D, params[0])) | regs[0]
    elif name == "DM1":
        a, b, w = ket_from_terms(1, D, params[0]), ket_from_terms(1, D, params[1]), params[2]
        ops.DensityMatrix(w * np.outer(a, a.conj()) + (1 - w) * np.outer(b, b.conj())) | regs[0]
    elif name == "Ket2":
        ops.Ket(ket_from_terms(2, D, params[0])) | regs
    elif name == "KetN":
        ops.Ket(ket_from_terms(len(modes), D, params[0])) | regs
    elif name == "DMN":
        a, b, w = ket_from_terms(len(modes), D, params[0]), ket_from_terms(len(modes), D, params[1]), params[2]
        ops.DensityMatrix(w * fockref.ket_to_dm(a) + (1 - w) * fockref.ket_to_dm(b)) | regs
    elif name == "MeasureFock":
        ops.MeasureFock(select=None if flags["select_list"] is None else list(flags["select_list"])) | regs
    elif name == "Del":
        ops.Del | regs
    else:
        o = spec.make_op(ops, name, params, flags)
        o | (regs if len(regs) > 1 else regs[0])


def check_fock(ctx, case):
    from strawberryfields import ops
    from strawberryfields.backends.base import NotApplicableError

    n, D, rep, kind, op = case["n"], case["cutoff"], case["rep"], case["kind"], case["op"]
    targets = list(op[2])
    spect = [m for m in range(n) if m not in targets]
    psi0, rho0 = _prior_tensor(case)

    def build(q):
        if rep == "pure":
            ops.Ket(psi0) | tuple(q)
        else:
            ops.DensityMatrix(rho0) | tuple(q)
        _apply_test_op(q, op, D)

    labels = ["backend:fock", "fock_" + rep, "kind:" + kind, "op:" + op[0]]
    if targets[0] != 0:
        labels.append("target_not_first")
    if len(targets) == 2 and targets[0] > targets[1]:
        labels.append("descending_pair")
    if len(targets) >= 3 and [targets[t] for t in targets] != list(range(len(targets))) and sorted(targets) == list(range(len(targets))):
        labels.append("non_involutive_target_order")
    # non-trivial: prior not a product across the cut (purity of the spectator marginal of each pure component < 1)
    r_sp = fockref.reduce_dm(rho0, n, spect)
    r_t = fockref.reduce_dm(rho0, n, targets)
    prod = _product(r_sp, spect, r_t, targets, n)
    entangled = float(np.max(np.abs(prod - rho0))) > 1e-3
    sampled = kind == "measure" and op[3]["select_list"] is None
    if sampled:
        labels.append("measure_sampled")
    if kind == "measure" and not sampled:
        sel = op[3]["select_list"]
        idx = []
        for m in range(n):
            if m in targets:
                s = sel[targets.index(m)]
                idx += [s, s]
            else:
                idx += [slice(None), slice(None)]
        cond = rho0[tuple(idx)]
        pr = fockref.trace(cond, len(spect)) if spect else float(np.real(cond))
        if pr < 1e-4:
            ctx.note(case, False, ["measure_prob_too_small"])
            return None
    try:
        st1 = _run_fock(n, D, rep == "pure", build, case.get("rng", 11))
    except (NotApplicableError, NotImplementedError):
        ctx.note(case, False, ["rejected:fock"])
        return None
    except Exception as exc:  # pylint: disable=broad-except
        return ctx.crash(exc, "fock." + op[0])
    ctx.note(case, nontrivial=entangled, labels=labels)
    rho1 = fockref.state_dm(st1)
    if kind == "del":
        if st1.num_modes != len(spect):
            return ctx.fail("del.num_modes.fock", "state has %d modes after deleting %s of %d" % (st1.num_modes, targets, n))
        d = float(np.max(np.abs(rho1 - r_sp)))
        if d > 1e-10:
            return ctx.fail("del.spectator_changed.fock", "remaining modes differ from the partial trace of the prior by %.3g" % d)
        return None
    tr1 = fockref.trace(rho1, n)
    if kind in ("gate", "channel", "active"):
        r1 = fockref.reduce_dm(rho1, n, spect)
        d = float(np.max(np.abs(r1 - r_sp)))
        tol = 1e-10 if kind != "active" else 1e-6 + 20 * max(0.0, 1 - tr1)
        if kind != "active" and abs(tr1 - 1) > 1e-10:
            return ctx.fail("trace_changed.fock.%s" % op[0], "trace %.12f after %s on a prior with < cutoff photons" % (tr1, op[0]))
        if d > tol:
            return ctx.fail("spectator_changed.fock.%s" % op[0], "reduced state of modes %s changed by %.3g (tol %.2g) when %s acted on %s [%s]" % (spect, d, tol, op[0], targets, rep))
        return None
    if kind == "prep":
        # sigma from the same preparation on a register of its own (position independence)
        k = len(targets)
        local = [op[0], op[1], list(range(k)), op[3] if len(op) > 3 else {}]
        sig = fockref.state_dm(_run_fock(k, D, True, lambda q: _apply_test_op(q, local, D)))
        exp = _product(r_sp, spect, sig, targets, n)
        d = float(np.max(np.abs(rho1 - exp)))
        if d > 1e-9:
            # which part is wrong?
            r1 = fockref.reduce_dm(rho1, n, spect)
            c = fockref.trace(sig, k)
            if float(np.max(np.abs(r1 - c * r_sp))) > 1e-9:
                return ctx.fail("spectator_changed.fock.%s" % op[0], "preparation %s on %s changed the other modes (%.3g)" % (op[0], targets, float(np.max(np.abs(r1 - c * r_sp)))))
            return ctx.fail("prep_not_product.fock.%s" % op[0], "state after %s on %s is not rho_rest (x) prepared state (%.3g)" % (op[0], targets, d))
        # closed forms of the documented post-state
        closed = None
        if op[0] == "Vacuum":
            closed = np.zeros(D, complex)
            closed[0] = 1
        elif op[0] == "Fock":
            closed = np.zeros(D, complex)
            closed[int(op[1][0])] = 1
        elif op[0] == "Coherent":
            from math import factorial

            al = op[1][0] * np.exp(1j * op[1][1])
            closed = np.array([np.exp(-abs(al) ** 2 / 2) * al ** j / np.sqrt(factorial(j)) for j in range(D)])
        elif op[0] == "Ket1":
            closed = ket_from_terms(1, D, op[1][0])
        if closed is not None:
            dc = float(np.max(np.abs(sig - fockref.ket_to_dm(closed))))
            if dc > 1e-9:
                return ctx.fail("prep_state.fock.%s" % op[0], "prepared state differs from the documented one by %.3g" % dc)
        if op[0] == "Ket2":
            psi = ket_from_terms(2, D, op[1][0])
            dc = float(np.max(np.abs(sig - fockref.ket_to_dm(psi))))
            if dc > 1e-9:
                return ctx.fail("prep_state.fock.Ket2", "two-mode Ket preparation differs from its argument by %.3g" % dc)
        if op[0] in ("KetN", "DMN"):
            arg = fockref.ket_to_dm(ket_from_terms(k, D, op[1][0]))
            if op[0] == "DMN":
                arg = op[1][2] * arg + (1 - op[1][2]) * fockref.ket_to_dm(ket_from_terms(k, D, op[1][1]))
            dc = float(np.max(np.abs(rho1 - _product(None, [], arg, targets, n))))
            if dc > 1e-9:
                return ctx.fail("prep_state.fock.%s" % op[0], "%d-mode preparation on modes %s: subsystem s of the argument is not in mode modes[s] (%.3g)" % (k, targets, dc))
        return None
    if sampled:
        # condition on the outcome the run reported for each measured mode
        try:
            sel = [int(np.ravel(_LAST["samples_dict"][m][-1])[0]) for m in targets]
        except Exception as exc:  # pylint: disable=broad-except
            return ctx.fail("measure_samples_missing.fock", "no reported outcome for measured modes %s: %r" % (targets, exc))
        idx = []
        for m in range(n):
            if m in targets:
                s = sel[targets.index(m)]
                idx += [s, s]
            else:
                idx += [slice(None), slice(None)]
        cond = rho0[tuple(idx)]
        pr = fockref.trace(cond, len(spect)) if spect else float(np.real(cond))
        if len(targets) >= 2 and targets != sorted(targets) and len(set(sel)) > 1:
            ctx.label("measure_sampled_unsorted_unequal_outcomes")
        if pr < 1e-9:
            return ctx.fail("measure_impossible_outcome.fock", "MeasureFock on %s reported outcome %s which has probability %.3g in the prior" % (targets, sel, pr))
    if kind == "measure":
        k = len(targets)
        vac = np.zeros((D,) * (2 * k), complex)
        vac[(0,) * (2 * k)] = 1
        exp = _product(cond / pr, spect, vac, targets, n)
        d = float(np.max(np.abs(rho1 - exp)))
        if d > 1e-8:
            return ctx.fail("measure_poststate.fock", "after MeasureFock(select=%s) on %s the state differs from <k|rho|k>/p (x) vacuum by %.3g" % (sel, targets, d))
        return None
    return None


# ---------------------------------------------------------------------------------------------
# bosonic with non-Gaussian spectators
# ---------------------------------------------------------------------------------------------
@st.composite
def bng_case(draw):
    n = draw(st.integers(2, 3))
    preps = []
    for m in range(n):
        kind = draw(st.sampled_from(["Catstate", "Fock", "Squeezed", "Coherent"]))
        if kind == "Catstate":
            preps.append(["Catstate", [draw(gen.fl(0.4, 1.2)), draw(st.sampled_from([0.0, 1.0]))], [m], {}])
        elif kind == "Fock":
            preps.append(["Fock", [draw(st.integers(1, 2))], [m], {}])
        else:
            preps.append([kind, draw(gen.op_params(kind, "ps")), [m], {}])
    op = draw(gen.op_spec(n, ["Dgate", "Sgate", "Rgate", "BSgate", "LossChannel", "ThermalLossChannel", "S2gate", "MZgate", "Xgate", "Pgate"], "ps"))
    pre = draw(st.booleans())
    ent = []
    if pre:
        a, b = draw(st.permutations(list(range(n))))[:2]
        ent = [["BSgate", [draw(gen.fl(0.3, 1.2)), draw(gen.angle())], [a, b], {}]]
    return {"n": n, "preps": preps, "ent": ent, "op": op}


def check_bng(ctx, case):
    n, op = case["n"], case["op"]
    prior = case["preps"] + case["ent"]
    targets = list(op[2])
    spect = [m for m in range(n) if m not in targets]
    if not spect:
        ctx.note(case, False, ["no_spectator"])
        return None
    try:
        s0 = sfrun.run("bosonic", n, prior, 2.0).state
        s1 = sfrun.run("bosonic", n, prior + [op], 2.0).state
    except sfrun.Rejected:
        ctx.note(case, False, ["rejected:bosonic"])
        return None
    except Exception as exc:  # pylint: disable=broad-except
        return ctx.crash(exc, "bosonic." + op[0])
    w0, m0, c0 = np.asarray(s0.weights()), np.asarray(s0.means()), np.asarray(s0.covs())
    w1, m1, c1 = np.asarray(s1.weights()), np.asarray(s1.means()), np.asarray(s1.covs())
    ctx.note(case, nontrivial=len(w0) > 1, labels=["backend:bosonic", "bosonic_multiweight" if len(w0) > 1 else "bosonic_oneweight", "op:" + op[0]])
    idx = [i for s in spect for i in (2 * s, 2 * s + 1)]
    if len(w0) != len(w1):
        return ctx.fail("bosonic.num_weights_changed.%s" % op[0], "%d -> %d weights" % (len(w0), len(w1)))
    d = max(float(np.max(np.abs(w1 - w0))), float(np.max(np.abs(m1[:, idx] - m0[:, idx]))))
    c0b = np.broadcast_to(c0, (len(w0),) + c0.shape[1:]) if c0.shape[0] == 1 else c0
    c1b = np.broadcast_to(c1, (len(w1),) + c1.shape[1:]) if c1.shape[0] == 1 else c1
    d = max(d, float(np.max(np.abs(c1b[:, idx][:, :, idx] - c0b[:, idx][:, :, idx]))))
    if d > 1e-10 * (1 + float(np.max(np.abs(c0)))):
        return ctx.fail("spectator_changed.bosonic_nongauss.%s" % op[0], "per-weight data of modes %s changed by %.3g when %s acted on %s" % (spect, d, op[0], targets))
    return None


SUBS = [
    Sub("ps_spectator", check=check_ps, strategy=lambda ctx: ps_case(), examples={"quick": 600, "thorough": 5000},
        shards={"quick": 2, "thorough": 16}, rule="gaussian/bosonic: entangling prior + one op on ordered targets"),
    Sub("fock_spectator", check=check_fock, strategy=lambda ctx: fock_case(), examples={"quick": 300, "thorough": 2000},
        shards={"quick": 3, "thorough": 16}, rule="fock pure/mixed: generated bounded-photon prior + one op; oracle computed from the JSON prior by fockref"),
    Sub("bosonic_nongauss", check=check_bng, strategy=lambda ctx: bng_case(), examples={"quick": 60, "thorough": 500},
        shards={"quick": 1, "thorough": 8}, rule="bosonic with cat/Fock spectators: per-weight spectator data unchanged"),
]

MANIFEST = {
    "technique": "Hypothesis metamorphic testing (prior vs prior+operation) with fockref / refsim oracles for spectator and target blocks",
    "text": ("A generated correlated prior is followed by one operation on every ordered target choice; the spectators' reduced state "
             "must be unchanged (1e-10; Fock priors are photon-number bounded so that truncation cannot interfere), preparations / "
             "Del / post-selected measurements must leave exactly rho_rest (x) documented post-state. Oracles are computed from the "
             "JSON prior by fockref or by refsim, not by the backend under test."),
}
