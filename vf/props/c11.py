"""C11 - Gaussian-merging compilers return a program with the same net action.

  gaussian_unitary / passive   source circuit on an arbitrary SUBSET of a register of up to 12 modes (non-contiguous, with
                               indices >= 8 whose set-iteration order differs from numeric order), ordered targets, .H;
                               refsim map of the source == refsim map of the compiled output (GaussianTransform + Dgates,
                               resp. one PassiveChannel) on the full register; output acts on exactly the used modes.
  gaussian_merge               hybrid circuits (passive Gaussian gates + Kerr/cross-Kerr) on the fock backend from a random
                               bounded-photon ket: both sides exact in the truncated space; non-Gaussian subsequence per mode kept.
"""
from __future__ import annotations

import numpy as np
from hypothesis import strategies as st

from vf import fockref, gen, refsim, spec
from vf.core import Sub

RULE = ("gaussian_unitary/passive: 1..10 commands over the accepted alphabet (incl. operations that are decomposed first) on a "
        "generated subset (size 1..5) of a register of up to 12 modes, ordered targets, .H; gaussian_merge: 2..9 commands mixing "
        "passive Gaussian gates with Kgate/CKgate on 1..3 modes; non-trivial = >= 2 source commands merged into one block on >= 2 modes")
ASSUMPTIONS = [
    "maps compared at 1e-8 absolute (X, Y) and 1e-7 (d); refsim encodes the documented maps (self-tested)",
    "sMZgate has no documented matrix: the oracle uses its decomposition BS(pi/4,pi/2) R(p1-pi/2)|1 R(p0-pi/2)|0 BS(pi/4,pi/2)",
    "gaussian_merge variant P: only passive Gaussian gates and number-diagonal non-Gaussian gates on kets with < cutoff photons, so both "
    "programs are exact in the truncated space (tolerance 1e-8)",
]
REQUIRED_LABELS = {"all": ["hash_order_differs", "noncontiguous", "dagger", "block_ge3", "compiler:gaussian_unitary", "compiler:passive",
                           "compiler:gaussian_merge", "merged_ge2"]}

GU_ALPH = ["Dgate", "Sgate", "Rgate", "BSgate", "S2gate", "MZgate", "sMZgate", "Xgate", "Zgate", "Pgate", "CXgate", "CZgate", "Fouriergate",
           "Interferometer", "GaussianTransform"]
PA_ALPH = ["Rgate", "LossChannel", "BSgate", "MZgate", "sMZgate", "Interferometer", "PassiveChannel"]

SUBSETS = [[0], [3], [8], [0, 1], [1, 8], [8, 1], [0, 9, 3], [2, 5], [0, 1, 2], [1, 8, 9], [3, 11, 8], [0, 8], [7, 8, 9, 10], [9, 1, 4, 0], [0, 1, 2, 3, 4], [2, 10, 8, 11, 1]]


def selftest():
    refsim.selftest()


@st.composite
def subset_case(draw, alphabet, energy="ps"):
    if draw(st.booleans()):
        modes = list(draw(st.sampled_from(SUBSETS)))
    else:
        k = draw(st.integers(1, 5))
        modes = list(draw(st.permutations(list(range(12))))[:k])
    N = max(max(modes) + 1 + draw(st.integers(0, 1)), 1)
    k = len(modes)
    ops_ = []
    for _ in range(draw(st.integers(1, 10))):
        names = [a for a in alphabet if gen.n_modes_of(a) <= k]
        name = draw(st.sampled_from(names))
        if name in ("Interferometer", "PassiveChannel", "GaussianTransform"):
            sz = draw(st.integers(1, min(k, 4)))
            tm = list(draw(st.permutations(modes))[:sz])
            if name == "Interferometer":
                M = draw(gen.unitary(sz))[1]
            elif name == "PassiveChannel":
                M = draw(gen.unitary(sz))[1] * draw(st.sampled_from([1.0, 0.8, 0.5]))
                if draw(st.booleans()):
                    M = M @ np.diag(draw(st.lists(gen.fl(0.3, 1.0), min_size=sz, max_size=sz)))
            else:
                M = draw(gen.symplectic(sz, 0.6))[2]
            ops_.append([name, [spec.enc_matrix(M)], tm, {}])
            continue
        o = draw(gen.op_spec(k, [name], energy))
        o[2] = [modes[i] for i in o[2]]
        ops_.append(o)
    return {"N": N, "modes": modes, "ops": ops_}


def _labels(case, compiler):
    used = sorted({m for o in case["ops"] for m in o[2]})
    labs = ["compiler:" + compiler] + gen.labels_of(case["ops"])
    if list(set(used)) != used:
        labs.append("hash_order_differs")
    if used and used != list(range(used[0], used[0] + len(used))):
        labs.append("noncontiguous")
    if any(len(o[2]) >= 3 for o in case["ops"]):
        labs.append("block_ge3")
    return labs, used


def _compile(case, compiler):
    prog = spec.build_program(case["N"], case["ops"])
    return prog.compile(compiler=compiler)


def check_gu(ctx, case):
    from strawberryfields.program_utils import CircuitError

    N = case["N"]
    labels, used = _labels(case, "gaussian_unitary")
    doc = spec.ref_run(N, case["ops"], 2.0)
    try:
        comp = _compile(case, "gaussian_unitary")
    except CircuitError:
        ctx.note(case, False, ["rejected"])
        return None
    except Exception as exc:  # pylint: disable=broad-except
        ctx.note(case, True, labels)
        return ctx.crash(exc, "gaussian_unitary")
    merged = len(case["ops"]) >= 2 and len(used) >= 2
    ctx.note(case, nontrivial=merged, labels=labels + (["merged_ge2"] if merged else []))
    specs = spec.circuit_to_specs(comp.circuit)
    names = [s[0] for s in specs]
    if names.count("GaussianTransform") > 1 or any(nm not in ("GaussianTransform", "Dgate") for nm in names):
        return ctx.fail("gaussian_unitary.output_form", "compiled circuit is %s, expected one GaussianTransform followed by Dgates" % names)
    for s in specs:
        if s[0] == "GaussianTransform" and sorted(s[2]) != used:  # any order is fine as long as the matrix matches it (checked below)
            return ctx.fail("gaussian_unitary.output_register", "GaussianTransform acts on %s, the source used %s" % (s[2], used))
        if s[0] == "Dgate" and s[2][0] not in used:
            return ctx.fail("gaussian_unitary.output_register", "Dgate on unused mode %s" % s[2])
    got = spec.ref_run(N, specs, 2.0)
    dX = float(np.max(np.abs(doc.X - got.X)))
    dd = float(np.max(np.abs(doc.d - got.d)))
    if dX > 1e-8 * (1 + float(np.max(np.abs(doc.X)))) or dd > 1e-7 * (1 + float(np.max(np.abs(doc.d)))):
        return ctx.fail(_classify(case, "gaussian_unitary", doc, N), "compiled map differs from the ordered product of the source operations: |dS|=%.3g |dd|=%.3g (used modes %s)" % (dX, dd, used))
    return None


def _classify(case, compiler, doc, N):
    """root-cause label: does the failure go away without daggers / on a contiguous relabelling?"""
    ops_ = case["ops"]
    has_dag = any((o[3] if len(o) > 3 else {}).get("H") for o in ops_)
    used = sorted({m for o in ops_ for m in o[2]})
    reorder = list(set(used)) != used
    small = 0 < _small_identity_dist(doc)
    tag = []
    if has_dag:
        tag.append("dagger")
    if reorder:
        tag.append("set_order")
    if small:
        tag.append("near_identity")
    return "%s.wrong_map.%s" % (compiler, "+".join(tag) if tag else "plain")


def _small_identity_dist(doc):
    d = float(np.max(np.abs(doc.X - np.eye(len(doc.X)))))
    return d if d < 1e-4 else 0.0


def check_pa(ctx, case):
    from strawberryfields.program_utils import CircuitError

    N = case["N"]
    labels, used = _labels(case, "passive")
    doc = spec.ref_run(N, case["ops"], 2.0)
    try:
        comp = _compile(case, "passive")
    except CircuitError:
        ctx.note(case, False, ["rejected"])
        return None
    except Exception as exc:  # pylint: disable=broad-except
        ctx.note(case, True, labels)
        return ctx.crash(exc, "passive")
    merged = len(case["ops"]) >= 2 and len(used) >= 2
    ctx.note(case, nontrivial=merged, labels=labels + (["merged_ge2"] if merged else []))
    specs = spec.circuit_to_specs(comp.circuit)
    if [s[0] for s in specs] != ["PassiveChannel"]:
        return ctx.fail("passive.output_form", "compiled circuit is %s, expected one PassiveChannel" % [s[0] for s in specs])
    if sorted(specs[0][2]) != used:
        return ctx.fail("passive.output_register", "PassiveChannel acts on %s, the source used %s" % (specs[0][2], used))
    got = spec.ref_run(N, specs, 2.0)
    d = max(float(np.max(np.abs(doc.X - got.X))), float(np.max(np.abs(doc.Y - got.Y))))
    if d > 1e-8:
        return ctx.fail(_classify(case, "passive", doc, N), "compiled transfer matrix differs from the ordered product of the source operations by %.3g (used modes %s)" % (d, used))
    return None


# ---------------------------------------------------------------------------------------------
# gaussian_merge
# ---------------------------------------------------------------------------------------------
@st.composite
def gm_case(draw):
    from vf.props.c05 import ket_terms

    n = draw(st.integers(1, 3))
    D = draw(st.integers(4, 5))
    active = draw(st.booleans())  # variant A: small displacements / squeezers as well (larger cutoff, truncation tolerance)
    alph = ["Rgate", "Rgate", "BSgate", "MZgate", "Kgate", "CKgate", "Interferometer"] if n > 1 else ["Rgate", "Kgate"]
    if active:
        alph = alph + ["Dgate", "Dgate", "Sgate"]
        D = 8 if n < 3 else 7
    ops_ = []
    # layered circuits: blocks of Gaussian gates separated by layers of non-Gaussian gates on several modes (the shape the merge is made for);
    # otherwise a flat random sequence
    layered = n > 1 and draw(st.booleans())
    names = []
    if layered:
        gl = [a for a in alph if a not in ("Kgate", "CKgate")]
        for _ in range(draw(st.integers(1, 3))):
            names += [draw(st.sampled_from(gl)) for _ in range(draw(st.integers(1, 4)))]
            names += [draw(st.sampled_from(["Kgate", "Kgate", "CKgate"])) for _ in range(draw(st.integers(1, 3)))]
        names = names[:11]
    else:
        names = [draw(st.sampled_from(alph)) for _ in range(draw(st.integers(2, 9)))]
    for name in names:
        if name in ("Dgate", "Sgate"):
            m = draw(st.integers(0, n - 1))
            ops_.append([name, [draw(gen.fl(0.05, 0.2)) * (1 if name == "Dgate" else draw(st.sampled_from([1, -1]))), draw(gen.angle())], [m], {"H": True} if draw(st.integers(0, 3)) == 0 else {}])
            continue
        if name == "Interferometer":
            tm = list(draw(st.permutations(list(range(n))))[: draw(st.integers(1, n))])
            ops_.append([name, [spec.enc_matrix(draw(gen.unitary(len(tm)))[1])], tm, {}])
        else:
            o = draw(gen.op_spec(n, [name], "fock", dagger=True, no_mz_dagger=True))
            ops_.append(o)
    meas = draw(st.sampled_from([None, None, "fock"]))
    return {"n": n, "cutoff": D, "ket": draw(ket_terms(n, min(D - 1, 2) if not active else 1)), "ops": ops_, "measure": meas, "active": active, "layered": layered}


def check_gm(ctx, case):
    import networkx as nx
    import strawberryfields as sf
    from strawberryfields import ops
    from strawberryfields.program_utils import CircuitError
    from vf.props.c05 import ket_from_terms

    n, D = case["n"], case["cutoff"]
    psi = ket_from_terms(n, D, case["ket"])

    def build():
        prog = sf.Program(n)
        with prog.context as q:
            ops.Ket(psi) | tuple(q)
            for o in case["ops"]:
                op = spec.make_op(ops, o[0], o[1], o[3] if len(o) > 3 else {})
                regs = tuple(q[m] for m in o[2])
                op | (regs if len(regs) > 1 else regs[0])
        return prog

    labels = ["compiler:gaussian_merge"] + gen.labels_of(case["ops"])
    if case.get("active"):
        labels.append("variant_active")
    nongauss = [o for o in case["ops"] if o[0] in ("Kgate", "CKgate")]
    gauss_runs = 0
    run = 0
    for o in case["ops"]:
        run = run + 1 if o[0] not in ("Kgate", "CKgate") else 0
        gauss_runs = max(gauss_runs, run)
    if nongauss and gauss_runs >= 1:
        labels.append("hybrid_nongaussian_between_blocks")
    try:
        comp = build().compile(compiler="gaussian_merge")
    except CircuitError:
        ctx.note(case, False, ["rejected"])
        return None
    except nx.NetworkXUnfeasible as exc:
        ctx.note(case, True, labels)
        return ctx.fail("F36.gaussian_merge_networkx_unfeasible", "gaussian_merge's DAG surgery created a cycle: %s" % str(exc)[:80])
    except Exception as exc:  # pylint: disable=broad-except
        ctx.note(case, True, labels)
        return ctx.crash(exc, "gaussian_merge")
    ctx.note(case, nontrivial=gauss_runs >= 2 and n >= 2, labels=labels + (["merged_ge2"] if gauss_runs >= 2 else []))
    # structural: non-Gaussian commands per mode keep their order and parameters
    def ng_seq(circ):
        out = {m: [] for m in range(n)}
        for c in circ:
            nm = c.op.__class__.__name__
            if nm in ("Kgate", "CKgate"):
                for r in c.reg:
                    out[r.ind].append((nm, float(c.op.p[0]), bool(c.op.dagger), tuple(x.ind for x in c.reg)))
        return out

    src_prog = build()
    if ng_seq(src_prog.circuit) != ng_seq(comp.circuit):
        return ctx.fail("gaussian_merge.nongaussian_sequence_changed", "per-mode sequence of non-Gaussian commands differs between source and compiled program")
    try:
        s0 = sf.Engine("fock", backend_options={"cutoff_dim": D}).run(src_prog).state
        s1 = sf.Engine("fock", backend_options={"cutoff_dim": D}).run(comp).state
    except ValueError as exc:
        if "not unitary" in str(exc) or "symplectic" in str(exc):
            return ctx.fail("gaussian_merge.output_not_decomposable", "the merged GaussianTransform cannot be applied: %s" % str(exc)[:100])
        return ctx.crash(exc, "run_compiled")
    except Exception as exc:  # pylint: disable=broad-except
        return ctx.crash(exc, "run_compiled")
    d = float(np.max(np.abs(fockref.state_dm(s0) - fockref.state_dm(s1))))
    tol = 1e-8
    if case.get("active"):
        # active Gaussian gates: both programs are truncated differently; allow what the trace loss explains
        tr = min(fockref.trace(fockref.state_dm(s0), n), fockref.trace(fockref.state_dm(s1), n))
        tol = 2e-3 + 4 * np.sqrt(max(0.0, 1 - tr))  # amplitude errors scale with the square root of the lost weight
        if tol > 0.05:
            ctx.label("truncation_dominated")
            return None
    if d > tol:
        return ctx.fail("gaussian_merge.wrong_program", "states of source and compiled program differ by %.3g; compiled: %s" % (d, [str(c.op)[:24] + str([r.ind for r in c.reg]) for c in comp.circuit][1:]))
    return None


SUBS = [
    Sub("gaussian_unitary", check=check_gu, strategy=lambda ctx: subset_case(GU_ALPH), examples={"quick": 1200, "thorough": 12000},
        shards={"quick": 2, "thorough": 16}, rule="gaussian_unitary on generated index subsets with .H: maps of source and output equal"),
    Sub("passive", check=check_pa, strategy=lambda ctx: subset_case(PA_ALPH), examples={"quick": 1200, "thorough": 12000},
        shards={"quick": 1, "thorough": 16}, rule="passive compiler: transfer matrix and loss noise of source and output equal"),
    Sub("gaussian_merge", check=check_gm, strategy=lambda ctx: gm_case(), examples={"quick": 300, "thorough": 2500},
        shards={"quick": 4, "thorough": 16}, rule="hybrid circuits (passive gates + Kerr / cross-Kerr; variant A adds small displacements and squeezers): fock states of source and gaussian_merge output equal"),
]

MANIFEST = {
    "technique": "Hypothesis differential testing: compiled output vs ordered product of the source operations as phase-space maps (refsim); hybrid circuits as exact Fock states",
    "text": ("The GaussianTransform + displacements (or the single PassiveChannel) returned by the compiler is interpreted by refsim on the modes "
             "it names and compared with refsim's composition of the source commands (honouring .H) on the full register, for generated index "
             "subsets including non-contiguous ones and ones whose set order differs from numeric order; gaussian_merge outputs are compared "
             "with their sources as Fock states on bounded-photon kets where both are exact."),
}
