"""C11 - Gaussian-merging compilers return a program with the same net action.

  gaussian_unitary / passive   source circuit on an arbitrary SUBSET of a register of up to 12 modes (non-contiguous, with
                               indices >= 8 whose set-iteration order differs from numeric order), ordered targets, .H;
                               refsim map of the source == refsim map of the compiled output (GaussianTransform + Dgates,
                               resp. one PassiveChannel) on the full register; output acts on exactly the used modes.
                               Varied besides the circuit: one operation OBJECT applied several times, first parameters that are
                               bound free parameters (par, -par, 2*par), tiny displacements / tiny first parameters, sf.hbar,
                               compile(optimize=True); after the compile the source must still have its action, a second compile
                               of the same Program and a compile of the compiled program must give the same map.
  gaussian_merge               hybrid circuits (passive Gaussian gates + Kerr/cross-Kerr, one seeded photon-number measurement) on the
                               fock backend on 1..4 modes from bounded-photon kets prepared by ONE Ket on all modes, by single-mode
                               Kets on some modes, by a Ket on two of three modes or (active variant) not at all: both sides exact in
                               the truncated space; non-Gaussian subsequence per mode kept; the merge loop terminates.
"""
from __future__ import annotations

import numpy as np
from hypothesis import strategies as st

from vf import fockref, gen, refsim, sfrun, spec
from vf.core import Sub, chash, jdump

RULE = ("gaussian_unitary/passive: 1..10 commands over the accepted alphabet (incl. operations that are decomposed first) on a "
        "generated subset (size 1..5) of a register of up to 12 modes, ordered targets, .H, the same operation object applied several times, "
        "bound free parameters, tiny parameters, hbar in {2, 1, 0.5, 1.7}, optimize=True, second compile / compile of the output; "
        "gaussian_merge: 2..12 commands mixing Gaussian gates (passive ones, GaussianTransform, decomposed ones; variant A: small displacements "
        "and squeezers) with Kgate/CKgate and at most one MeasureFock on 1..4 modes, preparation by one Ket, several single-mode Kets, a "
        "two-mode Ket or none; non-trivial = >= 2 source commands merged into one block on >= 2 modes")
ASSUMPTIONS = [
    "maps compared at 1e-8 absolute (X, Y) and 1e-7 (d); refsim encodes the documented maps (self-tested)",
    "sMZgate has no documented matrix: the oracle uses its decomposition BS(pi/4,pi/2) R(p1-pi/2)|1 R(p0-pi/2)|0 BS(pi/4,pi/2)",
    "gaussian_merge variant P: only passive Gaussian gates and number-diagonal non-Gaussian gates on kets with < cutoff photons, so both "
    "programs are exact in the truncated space (tolerance 1e-8)",
    "with optimize=True an operation pair that cancels may leave a mode unused: the output register may then be a subset of the used modes",
    "free parameters get names that are unique per case (sympy hands out cached expressions by symbol name, open finding F7)",
    "gaussian_merge: the one MeasureFock is unconditioned and both programs are run with the same numpy seed; outcomes whose probability the "
    "backend itself treats as zero (< 1e-8) are never drawn, so both programs project on the same outcome",
    "gaussian_merge terminates: more than 300 passes of its merge loop over a circuit of <= 12 commands count as non-termination (the "
    "unchanged tree needs <= 10); a count of passes, not a wall-clock limit",
]
REQUIRED_LABELS = {"all": ["hash_order_differs", "noncontiguous", "dagger", "block_ge3", "compiler:gaussian_unitary", "compiler:passive",
                           "compiler:gaussian_merge", "merged_ge2", "same_object_twice", "free_parameter", "hbar_not_2", "compile_optimize",
                           "again:twice", "again:recompile", "tiny_disp", "tiny_all"]}

GU_ALPH = ["Dgate", "Sgate", "Rgate", "BSgate", "S2gate", "MZgate", "sMZgate", "Xgate", "Zgate", "Pgate", "CXgate", "CZgate", "Fouriergate",
           "Interferometer", "GaussianTransform"]
PA_ALPH = ["Rgate", "LossChannel", "BSgate", "MZgate", "sMZgate", "Interferometer", "PassiveChannel"]

SUBSETS = [[0], [3], [8], [0, 1], [1, 8], [8, 1], [0, 9, 3], [2, 5], [0, 1, 2], [1, 8, 9], [3, 11, 8], [0, 8], [7, 8, 9, 10], [9, 1, 4, 0], [0, 1, 2, 3, 4], [2, 10, 8, 11, 1]]


def selftest():
    refsim.selftest()


# first parameters between the compilers' own "is it the identity / is it zero" thresholds (1e-13 resp. 1e-8) and the 1e-4 where a
# dropped operation is far above the tolerance of the comparison: a net map this close to the identity must still be returned
TINY = [3e-7, -3e-7, 5e-7, 1e-6, -1e-6, 2e-6, 1e-5, -1e-5]
TINY_ALL = ["Dgate", "Xgate", "Zgate", "Sgate", "Pgate", "Rgate", "BSgate", "S2gate", "CXgate", "CZgate"]
TINY_DISP = ["Dgate", "Xgate", "Zgate"]
HBARS = [2.0, 2.0, 2.0, 1.0, 0.5, 1.7]
REGOPS = False  # AUDIT-FINDING del-new-dropped: Del / New inside the circuit (primitives "_Delete", "_New_modes" of all three compilers)


@st.composite
def subset_case(draw, alphabet, energy="ps", compiler="gaussian_unitary"):
    if draw(st.booleans()):
        modes = list(draw(st.sampled_from(SUBSETS)))
    else:
        k = draw(st.integers(1, 5))
        modes = list(draw(st.permutations(list(range(12))))[:k])
    N = max(max(modes) + 1 + draw(st.integers(0, 1)), 1)
    k = len(modes)
    # tiny: every first parameter ("all") or every displacement ("disp") is tiny but far above the tolerance of the comparison
    tiny = draw(st.sampled_from([None] * 6 + ["all", "disp"])) if compiler == "gaussian_unitary" else None
    if tiny == "all":
        alphabet = TINY_ALL
    ops_ = []
    reuse, free = {}, {}
    with_free = draw(st.integers(0, 3)) == 0
    for _ in range(draw(st.integers(1, 10))):
        if ops_ and draw(st.integers(0, 5)) == 0:
            # the SAME operation object applied a second time (BS = BSgate(..); BS | (a, b); BS | (c, d)), in general to other modes
            j = draw(st.integers(0, len(ops_) - 1))
            src = ops_[j]
            if len(src[2]) <= k:
                tm = list(draw(st.permutations(modes))[: len(src[2])])
                ops_.append([src[0], src[1], tm, dict(src[3])])
                reuse[str(len(ops_) - 1)] = reuse.get(str(j), j)
                continue
        names = [a for a in alphabet if gen.n_modes_of(a) <= k]
        name = draw(st.sampled_from(names))
        if name in ("Interferometer", "PassiveChannel", "GaussianTransform"):
            sz = draw(st.integers(1, min(k, 4)))
            tm = list(draw(st.permutations(modes))[:sz])
            if name == "Interferometer":
                M = draw(gen.unitary(sz))[1]
            elif name == "PassiveChannel":
                M = draw(gen.unitary(sz))[1] * draw(st.sampled_from([1.0, 0.8, 0.5]))
                if draw(st.booleans()):
                    M = M @ np.diag(draw(st.lists(gen.fl(0.3, 1.0), min_size=sz, max_size=sz)))
            else:
                M = draw(gen.symplectic(sz, 0.6))[2]
            ops_.append([name, [spec.enc_matrix(M)], tm, {}])
            continue
        o = draw(gen.op_spec(k, [name], energy))
        o[2] = [modes[i] for i in o[2]]
        if tiny == "all" or (tiny == "disp" and name in TINY_DISP):
            o[1][0] = abs(draw(st.sampled_from(TINY))) if name == "Dgate" else draw(st.sampled_from(TINY))
        if with_free and o[1] and draw(st.integers(0, 2)) == 0:
            # the first parameter is a bound free parameter of the program: par, -par or 2*par (bound so that the value is o[1][0])
            free[str(len(ops_))] = draw(st.sampled_from(["id", "neg", "twice"]))
        ops_.append(o)
    case = {"N": N, "modes": modes, "ops": ops_, "reuse": reuse, "free": free, "tiny": tiny,
            "hbar": draw(st.sampled_from(HBARS)), "optimize": draw(st.integers(0, 5)) == 0,
            "again": draw(st.sampled_from([None, None, None, None, None, "twice", "recompile"]))}
    if REGOPS and draw(st.integers(0, 3)) == 0:
        if draw(st.booleans()):
            ops_.append(["Del", [], [draw(st.sampled_from(modes))], {}])  # a used mode is deleted at the end
        else:
            # a mode is added in the middle (its index is N) and coupled to a used mode afterwards
            ops_.insert(draw(st.integers(0, len(ops_))), ["New", [], [N], {}])
            ops_.append(["BSgate", [draw(gen.angle()), draw(gen.angle())], [draw(st.sampled_from(modes)), N], {}])
            case["reuse"], case["free"] = {}, {}
        case["regops"] = True
    return case


def _gate_ops(case):
    return [o for o in case["ops"] if o[0] not in ("Del", "New")]


def _labels(case, compiler):
    used = sorted({m for o in case["ops"] for m in o[2]})
    labs = ["compiler:" + compiler] + gen.labels_of(_gate_ops(case))
    if list(set(used)) != used:
        labs.append("hash_order_differs")
    if used and used != list(range(used[0], used[0] + len(used))):
        labs.append("noncontiguous")
    if any(len(o[2]) >= 3 for o in case["ops"]):
        labs.append("block_ge3")
    if case.get("reuse"):
        labs.append("same_object_twice")
    if case.get("free"):
        labs.append("free_parameter")
    if case.get("tiny"):
        labs.append("tiny_" + case["tiny"])
    if case.get("hbar", 2.0) != 2.0:
        labs.append("hbar_not_2")
    if case.get("optimize"):
        labs.append("compile_optimize")
    if case.get("again"):
        labs.append("again:" + case["again"])
    if case.get("regops"):
        labs.append("register_ops")
    return labs, used


def _build(case):
    """the source Program; honours reuse (one operation object applied several times) and free (bound free parameters)"""
    import strawberryfields as sf
    from strawberryfields import ops

    prog = sf.Program(case["N"])
    reuse, free = case.get("reuse") or {}, case.get("free") or {}
    objs, binding = {}, {}
    # sympy caches expressions by symbol NAME (open finding F7): an expression such as 2*par built for an earlier program with an equally
    # named parameter would be handed out again together with that program's value, so the names are made unique per case
    tag = chash(case)[:10] if free else ""
    with prog.context as q:
        regs_ = list(q)
        for i, o in enumerate(case["ops"]):
            if o[0] == "Del":
                ops.Del | regs_[o[2][0]]
                continue
            if o[0] == "New":
                regs_ += list(ops.New(1))
                continue
            flags = o[3] if len(o) > 3 else {}
            if str(i) in reuse:
                op = objs[reuse[str(i)]]
            elif str(i) in free:
                par = prog.params("a%d_%s" % (i, tag))
                v = float(o[1][0])
                expr, bound = {"id": (par, v), "neg": (-par, -v), "twice": (2 * par, v / 2)}[free[str(i)]]
                binding["a%d_%s" % (i, tag)] = bound
                op = getattr(ops, o[0])(expr, *[spec.dec_param(p) for p in o[1][1:]])
                if flags.get("H"):
                    op = op.H
            else:
                op = spec.make_op(ops, o[0], o[1], flags)
            objs[i] = op
            regs = tuple(regs_[m] for m in o[2])
            op | (regs if len(regs) != 1 else regs[0])
    if binding:
        prog.bind_params(binding)
    return prog


def _ref(case, specs, h):
    n_new = sum(1 for o in case["ops"] if o[0] == "New")
    return spec.ref_run(case["N"] + n_new, [s for s in specs if s[0] not in ("New", "_New_modes")], h)


def _register_ops_kept(ctx, case, compiler, specs):
    """Del / New cannot be part of a Gaussian transformation: they have to be in the output, and every matrix must fit its registers"""
    for src, out in (("Del", "_Delete"), ("New", "_New_modes")):
        a, b = sum(1 for o in case["ops"] if o[0] == src), sum(1 for s in specs if s[0] == out)
        if a != b:
            return ctx.fail(compiler + ".register_op_dropped", "the source has %d %s command(s), the compiled program %d: %s" % (a, src, b, [(s[0], s[2]) for s in specs]))
    for s in specs:
        if s[0] in ("GaussianTransform", "PassiveChannel"):
            M = spec.dec_param(s[1][0])
            if M.shape[0] != len(s[2]) * (2 if s[0] == "GaussianTransform" else 1):
                return ctx.fail(compiler + ".matrix_register_mismatch", "%s with a %dx%d matrix is applied to the %d mode(s) %s" % (s[0], M.shape[0], M.shape[1], len(s[2]), s[2]))
    return None


def _check_subset(ctx, case, compiler, verify):
    """shared driver: compile (options from the case), verify the output, then the statefulness part: the source program is unchanged,
    a second compile of the same Program object / a compile of the compiled program give the same map"""
    from strawberryfields.program_utils import CircuitError

    h = float(case.get("hbar", 2.0))
    labels, used = _labels(case, compiler)
    kw = {"optimize": True} if case.get("optimize") else {}
    with sfrun.HbarCtx(h):
        doc = _ref(case, case["ops"], h)
        prog = _build(case)
        before = jdump(spec.circuit_to_specs(prog.circuit))
        try:
            comp = prog.compile(compiler=compiler, **kw)
        except CircuitError:
            ctx.note(case, False, ["rejected"])
            return None
        except Exception as exc:  # pylint: disable=broad-except
            ctx.note(case, True, labels)
            return ctx.crash(exc, compiler)
        merged = len(_gate_ops(case)) >= 2 and len(used) >= 2
        ctx.note(case, nontrivial=merged, labels=labels + (["merged_ge2"] if merged else []))
        verify(ctx, case, comp, doc, used, "")
        after = spec.circuit_to_specs(prog.circuit)
        if jdump(after) != before:
            # the source was rewritten in place: it is only a failure if the source no longer has the action it had (= the one of the output)
            now = _ref(case, after, h)
            dev = max(float(np.max(np.abs(doc.X - now.X))), float(np.max(np.abs(doc.Y - now.Y))), float(np.max(np.abs(doc.d - now.d))))
            if dev > 1e-8 * (1 + float(np.max(np.abs(doc.X)))):
                return ctx.fail(compiler + ".source_modified", "after compile() the SOURCE program has another action than before (and than the compiled program): its map moved by %.3g" % dev)
        again = case.get("again")
        if again:
            try:
                comp2 = prog.compile(compiler=compiler, **kw) if again == "twice" else comp.compile(compiler=compiler)
            except Exception as exc:  # pylint: disable=broad-except
                return ctx.crash(exc, compiler + "_" + again)
            verify(ctx, case, comp2, doc, used, {"twice": "second compile of the same Program: ", "recompile": "compile of the compiled program: "}[again])
    return None


def _verify_gu(ctx, case, comp, doc, used, what):
    N = case["N"]
    h = float(case.get("hbar", 2.0))
    sfx = ".again" if what else ""
    specs = spec.circuit_to_specs(comp.circuit)
    if case.get("regops"):
        _register_ops_kept(ctx, case, "gaussian_unitary", specs)
    names = [s[0] for s in specs if s[0] not in ("_Delete", "_New_modes")]
    if names.count("GaussianTransform") > 1 or any(nm not in ("GaussianTransform", "Dgate") for nm in names):
        return ctx.fail("gaussian_unitary.output_form" + sfx, what + "compiled circuit is %s, expected one GaussianTransform followed by Dgates" % names)
    for s in specs:
        # any order is fine as long as the matrix matches it (checked below); optimize=True may cancel every operation on a mode
        if s[0] == "GaussianTransform" and (sorted(s[2]) != used if not case.get("optimize") else not set(s[2]) <= set(used)):
            return ctx.fail("gaussian_unitary.output_register" + sfx, what + "GaussianTransform acts on %s, the source used %s" % (s[2], used))
        if s[0] == "Dgate" and s[2][0] not in used:
            return ctx.fail("gaussian_unitary.output_register" + sfx, what + "Dgate on unused mode %s" % s[2])
    got = _ref(case, specs, h)
    dX = float(np.max(np.abs(doc.X - got.X)))
    dd = float(np.max(np.abs(doc.d - got.d)))
    if dX > 1e-8 * (1 + float(np.max(np.abs(doc.X)))) or dd > 1e-7 * (1 + float(np.max(np.abs(doc.d)))):
        sig = _classify(case, "gaussian_unitary", doc, N) if not what else "gaussian_unitary.wrong_map.again"
        return ctx.fail(sig, what + "compiled map differs from the ordered product of the source operations: |dS|=%.3g |dd|=%.3g (used modes %s)" % (dX, dd, used))
    return None


def check_gu(ctx, case):
    return _check_subset(ctx, case, "gaussian_unitary", _verify_gu)


def _classify(case, compiler, doc, N):
    """root-cause label: does the failure go away without daggers / on a contiguous relabelling?"""
    ops_ = _gate_ops(case)
    has_dag = any((o[3] if len(o) > 3 else {}).get("H") for o in ops_)
    used = sorted({m for o in ops_ for m in o[2]})
    reorder = list(set(used)) != used
    small = 0 < _small_identity_dist(doc)
    tag = []
    if has_dag:
        tag.append("dagger")
    if reorder:
        tag.append("set_order")
    if small:
        tag.append("near_identity")
    return "%s.wrong_map.%s" % (compiler, "+".join(tag) if tag else "plain")


def _small_identity_dist(doc):
    d = float(np.max(np.abs(doc.X - np.eye(len(doc.X)))))
    return d if d < 1e-4 else 0.0


def _verify_pa(ctx, case, comp, doc, used, what):
    N = case["N"]
    h = float(case.get("hbar", 2.0))
    sfx = ".again" if what else ""
    specs = spec.circuit_to_specs(comp.circuit)
    if case.get("regops"):
        _register_ops_kept(ctx, case, "passive", specs)
        specs_g = [s for s in specs if s[0] not in ("_Delete", "_New_modes")]
    else:
        specs_g = specs
    if [s[0] for s in specs_g] != ["PassiveChannel"]:
        return ctx.fail("passive.output_form" + sfx, what + "compiled circuit is %s, expected one PassiveChannel" % [s[0] for s in specs])
    if sorted(specs_g[0][2]) != used if not case.get("optimize") else not set(specs_g[0][2]) <= set(used):
        return ctx.fail("passive.output_register" + sfx, what + "PassiveChannel acts on %s, the source used %s" % (specs_g[0][2], used))
    got = _ref(case, specs, h)
    d = max(float(np.max(np.abs(doc.X - got.X))), float(np.max(np.abs(doc.Y - got.Y))))
    if d > 1e-8:
        sig = _classify(case, "passive", doc, N) if not what else "passive.wrong_map.again"
        return ctx.fail(sig, what + "compiled transfer matrix differs from the ordered product of the source operations by %.3g (used modes %s)" % (d, used))
    return None


def check_pa(ctx, case):
    return _check_subset(ctx, case, "passive", _verify_pa)


# ---------------------------------------------------------------------------------------------
# gaussian_merge
# ---------------------------------------------------------------------------------------------
GM_FEEDFORWARD = False  # AUDIT-FINDING gm-measured-parameter: a Gaussian gate whose parameter is a measured value next to another Gaussian gate
NONGAUSS = ("Kgate", "CKgate", "MeasureFock")


@st.composite
def gm_case(draw):
    from vf.props.c05 import ket_terms

    n = draw(st.sampled_from([1, 2, 2, 3, 3, 3, 4]))
    D = draw(st.integers(4, 5))
    # variant A (active): small displacements / squeezers as well (larger cutoff, truncation tolerance).  One mode without active gates
    # has only Rgate and Kgate, which commute (no order could be seen): always A.  Four modes: never A (size of the density matrix).
    active = n == 1 or (n < 4 and draw(st.booleans()))
    single = ["Rgate", "Rgate", "Fouriergate", "Kgate", "Kgate"]
    alph = single + ["BSgate", "BSgate", "MZgate", "sMZgate", "CKgate", "Interferometer", "GaussianTransform"] if n > 1 else single
    if active:
        alph = alph + ["Dgate", "Dgate", "Sgate", "Xgate", "Zgate"]
        D = 8 if n < 3 else 7
    # one unconditioned photon-number measurement in the middle (seeded; the same seed for both programs): a non-Gaussian command on 1..3 modes.
    # Not with active gates: the state is renormalised afterwards, so its trace no longer tells how much the truncation cost.
    measure = not active and draw(st.integers(0, 2)) == 0
    ng = ["Kgate", "Kgate", "CKgate"]
    ops_ = []
    # layered circuits: blocks of Gaussian gates separated by layers of non-Gaussian gates on several modes (the shape the merge is made for);
    # otherwise a flat random sequence
    layered = n > 1 and draw(st.booleans())
    names = []
    if layered:
        gl = [a for a in alph if a not in NONGAUSS]
        for _ in range(draw(st.integers(1, 3))):
            names += [draw(st.sampled_from(gl)) for _ in range(draw(st.integers(1, 4)))]
            names += [draw(st.sampled_from(ng)) for _ in range(draw(st.integers(1, 3)))]
        names = names[:11]
    else:
        names = [draw(st.sampled_from(alph)) for _ in range(draw(st.integers(2, 9)))]
    if measure:
        # exactly ONE measurement command: two of them on different modes may be sorted either way, and the seeded random numbers would then
        # be used for different modes in the two programs
        names.insert(draw(st.integers(0, len(names))), "MeasureFock")
    reuse = {}
    measured = []
    sign = st.sampled_from([1, -1])
    dag = st.integers(0, 3).map(lambda v: {"H": True} if v == 0 else {})
    for name in names:
        if ops_ and draw(st.integers(0, 5)) == 0:
            # the SAME operation object applied again, in general to other modes
            j = draw(st.integers(0, len(ops_) - 1))
            src = ops_[j]
            if src[0] != "MeasureFock" and "mpar" not in src[3]:
                tm = list(draw(st.permutations(list(range(n))))[: len(src[2])])
                ops_.append([src[0], src[1], tm, dict(src[3])])
                reuse[str(len(ops_) - 1)] = reuse.get(str(j), j)
                continue
        if name in ("Dgate", "Sgate"):
            m = draw(st.integers(0, n - 1))
            ops_.append([name, [draw(gen.fl(0.05, 0.2)) * (1 if name == "Dgate" else draw(sign)), draw(gen.angle())], [m], draw(dag)])
        elif name in ("Xgate", "Zgate"):
            ops_.append([name, [draw(gen.fl(0.1, 0.4)) * draw(sign)], [draw(st.integers(0, n - 1))], draw(dag)])
        elif name == "S2gate":
            ops_.append([name, [draw(gen.fl(0.05, 0.15)) * draw(sign), draw(gen.angle())], list(draw(st.permutations(list(range(n))))[:2]), draw(dag)])
        elif name in ("Interferometer", "GaussianTransform"):
            tm = list(draw(st.permutations(list(range(n))))[: draw(st.integers(1, n))])
            U = draw(gen.unitary(len(tm)))[1]
            ops_.append([name, [spec.enc_matrix(U if name == "Interferometer" else gen.orth_symplectic(U))], tm, {}])
        elif name == "MeasureFock":
            tm = list(draw(st.permutations(list(range(n))))[: draw(st.integers(1, min(n, 3)))])
            ops_.append([name, [], tm, {}])
            measured += [m for m in tm if m not in measured]
        else:
            o = draw(gen.op_spec(n, [name], "fock", dagger=True, no_mz_dagger=True))
            if GM_FEEDFORWARD and name == "Rgate" and measured and draw(st.booleans()):
                o[3]["mpar"] = draw(st.sampled_from(measured))  # Rgate(q[m].par): the angle is the number of photons found in mode m
            ops_.append(o)
    pmax = 1 if active else min(D - 1, 2)
    # a Ket on a part of the register makes the simulator switch to density matrices: only where those are small (no active gates, <= 3 modes)
    small = not active and n <= 3
    kinds = (["all", "per_mode", "per_mode"] + (["partial", "partial"] if n >= 3 else [])) if small and n >= 2 else ["all", "all"] + (["none"] if active else [])
    pk = draw(st.sampled_from(kinds))
    if pk == "all":
        prep = [[list(range(n)), draw(ket_terms(n, pmax))]]
    elif pk == "per_mode":
        # one single-mode Ket command per prepared mode (superpositions of |0> and |1>), the other modes start in the vacuum without any command
        order = list(draw(st.permutations(list(range(n)))))
        cnt = draw(st.integers(1, min(n, D - 1)))
        prep = [[[m], draw(ket_terms(1, 1))] for m in order[:cnt]]
    elif pk == "partial":
        prep = [[list(draw(st.permutations(list(range(n))))[:2]), draw(ket_terms(2, pmax))]]
    else:
        prep = []
    return {"n": n, "cutoff": D, "prep": prep, "prep_kind": pk, "ops": ops_, "reuse": reuse, "seed": draw(st.integers(0, 2 ** 31 - 1)),
            "active": active, "layered": layered}


MERGE_CAP = 300  # passes of GaussianMerge.merge_a_gaussian_op; circuits have <= 12 commands and the unchanged tree needs <= 10 passes


class _NoTermination(Exception):
    pass


def _capped_merge():
    """the 'gaussian_merge' compiler object with a counter on its merge loop: an endless loop becomes a reportable failure instead of a hang
    (a count of passes, not a wall-clock limit)"""
    from strawberryfields.compilers.gaussian_merge import GaussianMerge

    class Capped(GaussianMerge):
        passes = 0
        last_block = ()

        def organize_merge_ops(self, merged_gaussian_ops):  # called once per merge with the commands that are merged
            out = super().organize_merge_ops(merged_gaussian_ops)
            self.last_block = tuple((c.op.__class__.__name__, tuple(r.ind for r in c.reg)) for c in out)
            return out

        def merge_a_gaussian_op(self, registers):
            self.passes += 1
            if self.passes > MERGE_CAP:
                raise _NoTermination(self.last_block)
            return super().merge_a_gaussian_op(registers)

    return Capped()


def check_gm(ctx, case):
    import networkx as nx
    import strawberryfields as sf
    from strawberryfields import ops
    from strawberryfields.program_utils import CircuitError
    from vf.props.c05 import ket_from_terms

    n, D = case["n"], case["cutoff"]
    prep = case.get("prep")
    if prep is None:  # replay files written before the preparation became part of the case: one Ket on all modes
        prep = [[list(range(n)), case["ket"]]]
    reuse = case.get("reuse") or {}

    def build():
        prog = sf.Program(n)
        objs = {}
        with prog.context as q:
            for modes, terms in prep:
                regs = tuple(q[m] for m in modes)
                ops.Ket(ket_from_terms(len(modes), D, terms)) | (regs if len(regs) > 1 else regs[0])
            for i, o in enumerate(case["ops"]):
                flags = o[3] if len(o) > 3 else {}
                if str(i) in reuse:
                    op = objs[reuse[str(i)]]
                elif o[0] == "MeasureFock":
                    op = ops.MeasureFock()
                elif "mpar" in flags:
                    op = getattr(ops, o[0])(q[flags["mpar"]].par)
                else:
                    op = spec.make_op(ops, o[0], o[1], flags)
                objs[i] = op
                regs = tuple(q[m] for m in o[2])
                op | (regs if len(regs) > 1 else regs[0])
        return prog

    labels = ["compiler:gaussian_merge", "prep:" + case.get("prep_kind", "all")] + gen.labels_of([o for o in case["ops"] if o[0] != "MeasureFock"])
    if case.get("active"):
        labels.append("variant_active")
    if reuse:
        labels.append("same_object_twice")
    if n >= 4:
        labels.append("modes_ge4")
    has_meas = any(o[0] == "MeasureFock" for o in case["ops"])
    if has_meas:
        labels.append("measure_fock_midcircuit")
    if any("mpar" in (o[3] if len(o) > 3 else {}) for o in case["ops"]):
        labels.append("measured_parameter")
    nongauss = [o for o in case["ops"] if o[0] in NONGAUSS]
    gauss_runs = 0
    run = 0
    for o in case["ops"]:
        run = run + 1 if o[0] not in NONGAUSS else 0
        gauss_runs = max(gauss_runs, run)
    if nongauss and gauss_runs >= 1:
        labels.append("hybrid_nongaussian_between_blocks")
    capped = _capped_merge()
    try:
        comp = build().compile(compiler=capped)
    except CircuitError:
        ctx.note(case, False, ["rejected"])
        return None
    except _NoTermination as exc:
        block = exc.args[0] if exc.args else ()
        # (finding F74, fixed: a "merge" of displacement gates on different modes returned the same gates, was reported as progress and
        # compile() never returned; such cases are no longer set aside)
        ctx.note(case, True, labels)
        return ctx.fail("gaussian_merge.does_not_terminate", "gaussian_merge was still merging after %d passes over a circuit of %d commands; last merged block %s" % (MERGE_CAP, len(case["ops"]), list(block)))
    except nx.NetworkXUnfeasible as exc:
        ctx.note(case, True, labels)
        return ctx.fail("F36.gaussian_merge_networkx_unfeasible", "gaussian_merge's DAG surgery created a cycle: %s" % str(exc)[:80])
    except Exception as exc:  # pylint: disable=broad-except
        ctx.note(case, True, labels)
        return ctx.crash(exc, "gaussian_merge")
    ctx.note(case, nontrivial=gauss_runs >= 2 and n >= 2, labels=labels + (["merged_ge2"] if gauss_runs >= 2 else []))
    # structural: non-Gaussian commands per mode keep their order and parameters
    def ng_seq(circ):
        out = {m: [] for m in range(n)}
        for c in circ:
            nm = c.op.__class__.__name__
            if nm in NONGAUSS:
                for r in c.reg:
                    out[r.ind].append((nm, float(c.op.p[0]) if nm != "MeasureFock" else 0.0, bool(getattr(c.op, "dagger", False)), tuple(x.ind for x in c.reg)))
        return out

    src_prog = build()
    if ng_seq(src_prog.circuit) != ng_seq(comp.circuit):
        return ctx.fail("gaussian_merge.nongaussian_sequence_changed", "per-mode sequence of non-Gaussian commands differs between source and compiled program")
    try:
        np.random.seed(int(case.get("seed", 0)))
        r0 = sf.Engine("fock", backend_options={"cutoff_dim": D}).run(src_prog)
        np.random.seed(int(case.get("seed", 0)))
        r1 = sf.Engine("fock", backend_options={"cutoff_dim": D}).run(comp)
        s0, s1 = r0.state, r1.state
    except ValueError as exc:
        if "not unitary" in str(exc) or "symplectic" in str(exc):
            return ctx.fail("gaussian_merge.output_not_decomposable", "the merged GaussianTransform cannot be applied: %s" % str(exc)[:100])
        return ctx.crash(exc, "run_compiled")
    except Exception as exc:  # pylint: disable=broad-except
        return ctx.crash(exc, "run_compiled")
    def compiled_txt():
        return [str(c.op)[:24] + str([r.ind for r in c.reg]) for c in comp.circuit][len(prep):]

    if has_meas and not np.array_equal(np.asarray(r0.samples), np.asarray(r1.samples)):
        return ctx.fail("gaussian_merge.wrong_program", "with the same seed the source measures %s, the compiled program %s; compiled: %s" % (np.asarray(r0.samples).tolist(), np.asarray(r1.samples).tolist(), compiled_txt()))
    d = float(np.max(np.abs(fockref.state_dm(s0) - fockref.state_dm(s1))))
    tol = 1e-8
    if case.get("active"):
        # active Gaussian gates: both programs are truncated differently; allow what the trace loss explains
        tr = min(fockref.trace(fockref.state_dm(s0), n), fockref.trace(fockref.state_dm(s1), n))
        tol = 2e-3 + 4 * np.sqrt(max(0.0, 1 - tr))  # amplitude errors scale with the square root of the lost weight
        if tol > 0.05:
            ctx.label("truncation_dominated")
            return None
    if d > tol:
        return ctx.fail("gaussian_merge.wrong_program", "states of source and compiled program differ by %.3g; compiled: %s" % (d, compiled_txt()))
    return None


SUBS = [
    Sub("gaussian_unitary", check=check_gu, strategy=lambda ctx: subset_case(GU_ALPH), examples={"quick": 1200, "thorough": 12000},
        shards={"quick": 2, "thorough": 16}, rule="gaussian_unitary on generated index subsets with .H, shared operation objects, free parameters, tiny parameters, hbar, optimize: maps of source and output equal; source unchanged; recompilation"),
    Sub("passive", check=check_pa, strategy=lambda ctx: subset_case(PA_ALPH, compiler="passive"), examples={"quick": 1200, "thorough": 12000},
        shards={"quick": 1, "thorough": 16}, rule="passive compiler (same variations): transfer matrix and loss noise of source and output equal; source unchanged; recompilation"),
    Sub("gaussian_merge", check=check_gm, strategy=lambda ctx: gm_case(), examples={"quick": 400, "thorough": 2500},
        shards={"quick": 3, "thorough": 16}, rule="hybrid circuits (passive gates + Kerr / cross-Kerr / one seeded MeasureFock; variant A adds small displacements and squeezers) on 1..4 modes with several preparation layouts: fock states of source and gaussian_merge output equal"),
]

MANIFEST = {
    "technique": "Hypothesis differential testing: compiled output vs ordered product of the source operations as phase-space maps (refsim); hybrid circuits as exact Fock states",
    "text": ("The GaussianTransform + displacements (or the single PassiveChannel) returned by the compiler is interpreted by refsim on the modes "
             "it names and compared with refsim's composition of the source commands (honouring .H) on the full register, for generated index "
             "subsets including non-contiguous ones and ones whose set order differs from numeric order; gaussian_merge outputs are compared "
             "with their sources as Fock states on bounded-photon kets where both are exact.  The source program is also compiled a "
             "second time, the output is compiled again, operation objects are shared between commands and parameters may be bound free "
             "parameters; Del/New inside the circuit and measured parameters next to Gaussian gates are NOT generated (audit findings)."),
}
