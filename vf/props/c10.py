"""C10 - symbolic parameters behave exactly like the values they stand for.

  substitution   a program whose parameters are expression trees over free parameters runs (args=...) to the same state as its
                 numerically substituted twin (refsim of the harness-evaluated expressions), through every compile target (engine default,
                 gaussian, bosonic, fock, gaussian_unitary, passive), decomposition and optimisation; compile-then-bind == bind-then-compile;
                 the SAME program bound again to other values is the circuit with the new values; array-valued parameters (object arrays,
                 elementwise sf.math functions); neighbouring same-family operations with symbolic parameters (what merge sees: symbolic sum,
                 exact cancellation, first parameters cancel but the others differ); an explicit FreeParameter.default; hbar in {2, 1, 0.5, 1.7}
  measured       gates parameterised by (expressions of) measured values: with select fixing the outcomes the applied gate uses the
                 MOST RECENT outcome of the mode (measure -> use -> re-prepare -> re-measure -> use); use before measurement raises.
                 Outcomes are real (homodyne) or complex (heterodyne: re, im, Abs, arg); measured and free parameters mixed in one
                 expression; the measurement angle itself symbolic (adaptive measurement); array-valued; registers with two-digit names;
                 1..3 program segments on one engine, as separate run calls or as ONE list; after Engine.reset the outcomes are gone
  errors         unbound parameters, unknown names: ParameterError, never a silent default or a value leaked from another program
  isolation      creating / binding / running program B must not change program A (finding F7: symbols are cached by name)
  measured_multi one MeasureFock / MeasureThreshold command on several modes listed in any order, outcomes then used as parameters
  par_convert    parameters.par_convert (how loaded Blackbird / XIR programs get their parameters): q<N> -> the measured value of
                 subsystem N for every N (two and three digits too), other symbols -> free parameters; value = the harness' arithmetic
"""
from __future__ import annotations

import math

import numpy as np
from hypothesis import strategies as st

from vf import gen, refsim, sfrun, spec
from vf.core import Sub, Violation

RULE = ("programs of 1..3 modes, 1..6 commands over every parameterised Gaussian operation family with .H; each real parameter is, with "
        "probability 1/2, an expression tree (sum, product, negation, sin, cos, exp, sqrt, Abs, atan2) over free parameters a, b, c and "
        "constants; optionally a pair of neighbouring same-family single-mode operations with symbolic parameters (same other parameters / exact "
        "cancellation / cancelling first parameters with different other parameters / mixed dagger), a Gaussian(V, r) whose vector of means is "
        "an array-valued symbolic parameter, an explicit FreeParameter.default (bound or not), a second binding of the same program object; "
        "compile targets {engine default, gaussian, bosonic, fock, gaussian_unitary and passive (bound first)} x optimize; hbar in {2, 1, 0.5, 1.7}; "
        "measured-parameter histories of measure/use/re-prepare/re-measure over homodyne (real) and heterodyne (complex: re, im, Abs, arg) outcomes, "
        "free and measured symbols in one expression, symbolic measurement angles, registers of 2, 3 or 12 modes, 1..3 segments run call by call or "
        "as one list, Engine.reset followed by the last segment; non-trivial = an expression with >= 1 symbol and >= 1 arithmetic node whose value is not 0")
ASSUMPTIONS = [
    "expression trees are evaluated by the harness with plain Python/numpy (never by sympy) for the numeric twin",
    "states compared with refsim at 1e-7 (1e-5 with post-selected homodyne); compile targets that reject a program (CircuitError) are skipped",
    "array-valued parameters are exercised as numpy object arrays (vector of means of Gaussian(V, r), elementwise sf.math functions); batched "
    "parameters and TensorFlow tensors are not (tensorflow is not installed); non-Gaussian operations (Kgate, Vgate, CKgate, Catstate, MSgate) are "
    "not exercised: their parameters go through the same par_evaluate call as the Gaussian families",
    "F7 (open): free/measured parameter symbols are cached by name across Programs; the substitution and measured sub-checks keep exactly one "
    "symbolic program alive at a time so that they test what the property states rather than F7 (multi-segment cases: feed-forward only in the "
    "last segment, free parameters only in single-segment cases)",
    "Engine.reset: 'All registers of previously run Programs are cleared of measured values' (docstring): a segment that uses an outcome measured "
    "before the reset and not since must raise ParameterError when it is run alone afterwards",
    "FreeParameter.default is the documented 'default value of the parameter, used if unbound': an explicitly set default is not a silent default",
    "sf.hbar is switched per case (restored afterwards); select values, measured values and the vector of means are in units of the current hbar",
]
REQUIRED_LABELS = {"all": ["free", "measured", "decomposed_symbolic", "optimised_symbolic", "remeasure", "use_before_measure", "unbound", "unknown_name",
                           "target:gaussian_unitary", "target:bosonic", "fn:atan2", "two_segments", "optimised_measured", "multi_mode_measurement", "error_then_rerun_dagger",
                           "rebind", "symbolic_merge_pair_optimised", "array_valued", "hbar_not_2", "target:passive", "mixed_free_measured", "heterodyne_complex",
                           "symbolic_measurement_angle", "three_segments", "program_list", "par_convert:two_digit_mode_index", "par_convert:free_and_measured"]}

FAMS = ["Dgate", "Sgate", "Rgate", "BSgate", "S2gate", "MZgate", "Xgate", "Zgate", "Pgate", "CXgate", "CZgate", "LossChannel", "ThermalLossChannel",
        "Coherent", "Squeezed", "DisplacedSqueezed", "Thermal", "sMZgate"]
DECOMPOSED = {"Xgate", "Zgate", "Pgate", "CXgate", "CZgate", "S2gate", "MZgate", "sMZgate", "DisplacedSqueezed"}
NONNEG = {("LossChannel", 0), ("ThermalLossChannel", 0), ("ThermalLossChannel", 1), ("Thermal", 0), ("Dgate", 0), ("Coherent", 0), ("DisplacedSqueezed", 0)}


def selftest():
    refsim.selftest()
    assert abs(evaluate(["add", ["mul", 2.0, ["free", "a"]], ["fn", "sin", ["free", "b"]]], {"a": 0.5, "b": 0.3}) - (1.0 + math.sin(0.3))) < 1e-15
    assert abs(evaluate(["fn2", "atan2", ["free", "a"], -1.0], {"a": 0.5}) - math.atan2(0.5, -1.0)) < 1e-15


# ---------------------------------------------------------------------------------------------
# expression trees
# ---------------------------------------------------------------------------------------------
def evaluate(ast, env):
    if not isinstance(ast, list):
        return float(ast)
    k = ast[0]
    if k == "free":
        return float(env[ast[1]])
    if k == "meas":
        return float(env["q%d" % ast[1]])
    if k == "add":
        return evaluate(ast[1], env) + evaluate(ast[2], env)
    if k == "mul":
        return evaluate(ast[1], env) * evaluate(ast[2], env)
    if k == "neg":
        return -evaluate(ast[1], env)
    if k == "fn":
        x = evaluate(ast[2], env)
        return {"sin": math.sin, "cos": math.cos, "exp": math.exp, "sqrt": lambda v: math.sqrt(abs(v)), "Abs": abs, "tanh": math.tanh}[ast[1]](x)
    if k == "fn2":
        # sympy does not distinguish -0.0 from 0.0 (atan2(-0.0, -1) = pi there, -pi in IEEE arithmetic): normalise the sign of zero
        return math.atan2(evaluate(ast[2], env) + 0.0, evaluate(ast[3], env) + 0.0)
    if k == "cfn":
        # real-valued function of a COMPLEX measured value (heterodyne outcome): ["cfn", "re"|"im"|"Abs"|"arg", ["meas", m]]
        z = env["q%d" % ast[2][1]]
        z = complex(z["re"], z["im"]) if isinstance(z, dict) else complex(z)
        return {"re": z.real, "im": z.imag, "Abs": abs(z), "arg": math.atan2(z.imag, z.real)}[ast[1]]
    raise ValueError(ast)


# array-valued parameters: ["vec", [e0, e1, ..]] | ["vscale", scalar_ast, V] | ["vadd", V, W] | ["vfn", name, V].  The harness evaluates them
# element by element through the scalar evaluator; the program builds them with numpy/sympy array arithmetic (object arrays) and the
# elementwise sf.math wrappers
VEC_KINDS = ("vec", "vscale", "vadd", "vfn")


def is_vec(p):
    return isinstance(p, list) and len(p) > 0 and p[0] in VEC_KINDS


def vec_elems(v):
    """the scalar expression tree of every element"""
    k = v[0]
    if k == "vec":
        return list(v[1])
    if k == "vscale":
        return [["mul", v[1], e] for e in vec_elems(v[2])]
    if k == "vadd":
        return [["add", a, b] for a, b in zip(vec_elems(v[1]), vec_elems(v[2]))]
    if k == "vfn":
        return [["fn", v[1], e] for e in vec_elems(v[2])]
    raise ValueError(v)


def vec_sympy(v, prog, q):
    import strawberryfields as sf

    k = v[0]
    if k == "vec":
        return np.array([to_sympy(e, prog, q) for e in v[1]])  # dtype object as soon as one element is symbolic
    if k == "vscale":
        return to_sympy(v[1], prog, q) * vec_sympy(v[2], prog, q)
    if k == "vadd":
        return vec_sympy(v[1], prog, q) + vec_sympy(v[2], prog, q)
    if k == "vfn":
        return getattr(sf.math, v[1])(vec_sympy(v[2], prog, q))
    raise ValueError(v)


def gauss_cov(gv, hbar):
    """covariance (x.., p.. order, units of hbar) of a mixed Gaussian state of len(gv["nb"]) modes built by refsim: thermal states, one squeezer
    per mode and (two modes) a beamsplitter"""
    k = len(gv["nb"])
    ref = refsim.Ref(k, hbar)
    for i in range(k):
        ref.apply("Thermal", [gv["nb"][i]], [i])
        ref.apply("Sgate", [gv["r"][i], gv["th"][i]], [i])
    if k == 2:
        ref.apply("BSgate", list(gv["bs"]), [0, 1])
    return np.array(ref.V)


def to_sympy(ast, prog, q):
    import strawberryfields as sf

    if not isinstance(ast, list):
        return float(ast)
    k = ast[0]
    if k == "free":
        return prog.params(ast[1])
    if k == "meas":
        return q[ast[1]].par
    if k == "add":
        return to_sympy(ast[1], prog, q) + to_sympy(ast[2], prog, q)
    if k == "mul":
        return to_sympy(ast[1], prog, q) * to_sympy(ast[2], prog, q)
    if k == "neg":
        return -to_sympy(ast[1], prog, q)
    if k == "fn":
        x = to_sympy(ast[2], prog, q)
        if ast[1] == "sqrt":
            return sf.math.sqrt(sf.math.Abs(x))
        return getattr(sf.math, ast[1])(x)
    if k == "fn2":
        return sf.math.atan2(to_sympy(ast[2], prog, q), to_sympy(ast[3], prog, q))
    if k == "cfn":
        return getattr(sf.math, ast[1])(q[ast[2][1]].par)
    raise ValueError(ast)


def symbols_of(ast):
    if not isinstance(ast, list):
        return set()
    if len(ast) == 2 and ast[0] == "free":
        return {ast[1]}
    if len(ast) == 2 and ast[0] == "meas":
        return {"q%d" % ast[1]}
    out = set()
    for x in ast:
        out |= symbols_of(x)
    return out


def live_symbols(ast):
    """symbols the expression really depends on after algebraic simplification (q0 * 0.0 or q0 - q0 do not depend on q0):
    decided with plain sympy symbols on the harness side, never with the repo's parameter classes"""
    import sympy

    if is_vec(ast):
        return set().union(*[live_symbols(e) for e in vec_elems(ast)] or [set()])

    def conv(a):
        if not isinstance(a, list):
            return sympy.Float(a) if a != 0 else sympy.Integer(0) * 1.0
        k = a[0]
        if k == "free":
            return sympy.Symbol("free_" + a[1], real=True)
        if k == "meas":
            return sympy.Symbol("q%d" % a[1], real=True)
        if k == "add":
            return conv(a[1]) + conv(a[2])
        if k == "mul":
            return conv(a[1]) * conv(a[2])
        if k == "neg":
            return -conv(a[1])
        if k == "fn":
            x = conv(a[2])
            return sympy.sqrt(sympy.Abs(x)) if a[1] == "sqrt" else getattr(sympy, a[1])(x)
        if k == "cfn":
            return getattr(sympy, a[1])(sympy.Symbol("q%d" % a[2][1]))  # a complex symbol
        return sympy.atan2(conv(a[2]), conv(a[3]))

    return {str(x).replace("free_", "") for x in conv(ast).free_symbols}


def has_arith(ast):
    return isinstance(ast, list) and ast[0] not in ("free", "meas")


def fns_of(ast):
    if not isinstance(ast, list):
        return set()
    out = {ast[1]} if ast[0] in ("fn", "fn2", "cfn", "vfn") and isinstance(ast[1], str) else set()
    for x in ast:
        out |= fns_of(x)
    return out


@st.composite
def expr(draw, leaves, depth=2):
    if depth == 0 or draw(st.integers(0, 3)) == 0:
        return draw(st.one_of(st.sampled_from(leaves), gen.fl(-1.0, 1.0)))
    k = draw(st.sampled_from(["add", "mul", "neg", "fn", "fn", "fn2"]))
    if k in ("add", "mul"):
        return [k, draw(expr(leaves, depth - 1)), draw(expr(leaves, depth - 1))]
    if k == "neg":
        return ["neg", draw(expr(leaves, depth - 1))]
    if k == "fn":
        return ["fn", draw(st.sampled_from(["sin", "cos", "exp", "sqrt", "Abs", "tanh"])), draw(expr(leaves, depth - 1))]
    # atan2(0, 0) is undefined in sympy (nan), and on the branch cut (y = +-0, x < 0) symbolic and IEEE evaluation legitimately
    # differ in the sign of zero: keep the second argument a positive constant (atan2 is continuous there)
    return ["fn2", "atan2", draw(expr(leaves, depth - 1)), draw(gen.fl(0.2, 1.0))]


def fit(ast, name, pos, envs, energy_cap):
    """wrap the expression so that its value lies in the operation's accepted domain (same wrapping on both sides), for every binding
    the case is going to use"""
    if (name, pos) in NONNEG:
        ast = ["fn", "Abs", ast]
    if name in ("LossChannel", "ThermalLossChannel") and pos == 0:
        ast = ["fn", "Abs", ["fn", "cos", ast]]  # in [0, 1]
    else:
        v = max(abs(evaluate(ast, e)) for e in envs)
        if v > energy_cap:
            ast = ["mul", energy_cap / (v + 1e-9), ast]
    return ast


# ---------------------------------------------------------------------------------------------
# substitution
# ---------------------------------------------------------------------------------------------
SQUEEZE_LIKE = ("Sgate", "S2gate", "Squeezed", "Pgate", "CXgate", "CZgate")
PAIR_FAMS = ["Dgate", "Sgate", "Rgate", "Dgate", "Xgate", "Sgate", "Zgate", "Pgate", "LossChannel", "ThermalLossChannel"]  # single-mode, mergeable
HBARS = [2.0, 2.0, 2.0, 1.0, 0.5, 1.7]
PASSIVE_FAMS = ["BSgate", "Rgate", "MZgate", "sMZgate", "LossChannel"]


def _cap(name, j):
    return 0.8 if name in SQUEEZE_LIKE or (name == "DisplacedSqueezed" and j == 2) else 3.0


@st.composite
def merge_pair(draw, n, leaves, envs):
    """two neighbouring single-mode operations of ONE family on ONE mode with symbolic parameters: what Gate.merge / Channel.merge see when
    the circuit is optimised.  kinds: same_tail (other parameters identical -> merged into one operation with a symbolic sum / product),
    cancel (same expression, opposite dagger -> the identity), tail_differs (first parameters cancel but the other parameters differ:
    must not be merged), dagger_mixed (different expressions, opposite dagger)"""
    fam = draw(st.sampled_from(PAIR_FAMS))
    m = draw(st.integers(0, n - 1))
    gate = fam not in ("LossChannel", "ThermalLossChannel")
    kind = draw(st.sampled_from(["tail_differs", "cancel", "same_tail", "dagger_mixed"] if gate else ["same_tail"]))
    two = fam in ("Dgate", "Sgate", "ThermalLossChannel")
    if not two and kind == "tail_differs":
        kind = "cancel"

    def first():
        e = draw(expr(leaves))
        if not symbols_of(e):
            e = ["add", e, draw(st.sampled_from(leaves))]
        return fit(e, fam, 0, envs, 0.5 * _cap(fam, 0))

    def tail():
        if not two:
            return []
        t = draw(st.one_of(gen.fl(0.1, 1.0), expr(leaves, 1)))
        return [fit(t, fam, 1, envs, 2.0) if isinstance(t, list) else t]

    e1, t1 = first(), tail()
    e2 = e1 if kind in ("cancel", "tail_differs") else first()
    t2 = t1
    if kind == "tail_differs":
        t2 = [["add", t1[0], 0.25]] if isinstance(t1[0], list) else [t1[0] + 0.25]
    h1 = gate and draw(st.booleans())
    h2 = (not h1) if kind in ("cancel", "tail_differs", "dagger_mixed") else h1
    return kind, [[fam, [e1] + t1, [m], {"H": True} if h1 else {}], [fam, [e2] + list(t2), [m], {"H": True} if h2 else {}]]


@st.composite
def gaussian_array_op(draw, n, leaves):
    """Gaussian(V, r) on 1..2 modes (any listed order) whose vector of means r is an array-valued symbolic parameter"""
    k = draw(st.integers(1, min(2, n)))
    modes = list(draw(st.permutations(list(range(n))))[:k])
    gv = {"nb": [draw(gen.fl(0.2, 0.5)), draw(gen.fl(0.6, 1.0))][:k], "r": [draw(gen.fl(-0.4, 0.4)) for _ in range(k)],
          "th": [draw(gen.fl(-3.0, 3.0)) for _ in range(k)], "bs": [draw(gen.fl(0.1, 1.4)), draw(gen.fl(-3.0, 3.0))]}
    consts = ["vec", [draw(gen.fl(-1.0, 1.0)) for _ in range(2 * k)]]
    form = draw(st.sampled_from(["scale", "scale_plus_fn", "elements", "fn_of_numeric"]))
    s1 = draw(st.sampled_from(leaves))
    if form == "scale":
        vec = ["vscale", draw(expr(leaves, 1)) if draw(st.booleans()) else s1, consts]
    elif form == "scale_plus_fn":
        vec = ["vadd", ["vscale", s1, consts], ["vfn", draw(st.sampled_from(["sin", "cos", "tanh"])),
                                                 ["vscale", draw(st.sampled_from(leaves)), ["vec", [draw(gen.fl(-2.0, 2.0)) for _ in range(2 * k)]]]]]
    elif form == "elements":
        vec = ["vec", [draw(expr(leaves, 1)) for _ in range(2 * k)]]
        if not symbols_of(vec):
            vec[1][0] = s1
    else:  # an elementwise function of a numeric array (atom-free symbolic elements) plus a symbolic multiple
        vec = ["vadd", ["vfn", draw(st.sampled_from(["sin", "cos", "exp"])), consts], ["vscale", s1, ["vec", [1.0] + [0.0] * (2 * k - 1)]]]
    return ["Gaussian", [{"gv": gv}, vec], modes, {"kw": {"decomp": draw(st.booleans())}}]


@st.composite
def sub_case(draw):
    n = draw(st.integers(1, 3))
    env = {"a": draw(gen.fl(-1.0, 1.0)), "b": draw(gen.fl(-1.0, 1.0)), "c": draw(st.sampled_from([0.0, 0.5, -0.7]))}
    # a second binding of the same program object (same names, other values): the case runs the program again after re-binding
    rebind = draw(st.sampled_from([None, None, "args", "bind_params"]))
    env2 = {"a": draw(gen.fl(-1.0, 1.0)), "b": draw(gen.fl(-1.0, 1.0)), "c": draw(st.sampled_from([0.5, 0.0, -0.7]))} if rebind else None
    # FreeParameter.default ("default value of the parameter, used if unbound"): an explicitly set default stands for the parameter while it
    # is not bound (bound False), a bound value takes precedence over it (bound True)
    dflt = draw(st.sampled_from([None, None, None, "a", "b"]))
    default = {"name": dflt, "value": draw(gen.fl(-1.0, 1.0)), "bound": draw(st.booleans())} if dflt else None
    envs = [env] + ([env2] if env2 else []) + ([dict(env, **{dflt: default["value"]})] if dflt else [])
    leaves = [["free", "a"], ["free", "b"], ["free", "c"]]
    target = draw(st.sampled_from(["default", "default", "gaussian", "bosonic", "fock", "gaussian_unitary", "passive"]))
    # the passive target turns a circuit of passive operations into ONE PassiveChannel (it evaluates the parameters: bound first); the
    # state it acts on is prepared by a numeric first segment run on the same engine
    prep = draw(gen.op_list(n, ["Coherent", "Squeezed", "DisplacedSqueezed"], "ps", 1, 3)) if target == "passive" else []
    ops_ = draw(gen.op_list(n, PASSIVE_FAMS if target == "passive" else FAMS, "ps", 1, 6))
    for o in ops_:
        for j, p in enumerate(o[1]):
            if isinstance(p, float) and draw(st.booleans()):
                o[1][j] = fit(draw(expr(leaves)), o[0], j, envs, _cap(o[0], j))
    extra = draw(st.sampled_from([None, None, None, "pair", "pair", "array"])) if target != "passive" else None
    pair_kind = None
    if extra == "pair":
        pair_kind, two = draw(merge_pair(n, leaves, envs))
        at = draw(st.integers(0, len(ops_)))
        ops_[at:at] = two
    elif extra == "array":
        ops_.insert(draw(st.integers(0, len(ops_))), draw(gaussian_array_op(n, leaves)))
    optimize = draw(st.booleans())
    if extra == "pair" and draw(st.integers(0, 3)) > 0:
        optimize = True  # the pair exists to be merged
        if target == "gaussian_unitary":
            target = "gaussian"
    return {"n": n, "env": env, "ops": ops_, "target": target, "optimize": optimize, "bind_first": draw(st.booleans()),
            "by_object": draw(st.booleans()), "env2": env2, "rebind": rebind, "pair": pair_kind, "hbar": draw(st.sampled_from(HBARS)), "prep": prep, "default": default}


def num_param(p, env, hbar=2.0):
    if is_vec(p):
        return spec.enc_vec([evaluate(e, env) for e in vec_elems(p)])
    if isinstance(p, list):
        return evaluate(p, env)
    if isinstance(p, dict) and "gv" in p:
        return spec.enc_matrix(gauss_cov(p["gv"], hbar))
    return p


def numeric_twin(ops_, env, hbar=2.0):
    out = []
    for o in ops_:
        out.append([o[0], [num_param(p, env, hbar) for p in o[1]], o[2], o[3] if len(o) > 3 else {}])
    return out


def sym_param(p, prog, q):
    import strawberryfields as sf

    if is_vec(p):
        return vec_sympy(p, prog, q)
    if isinstance(p, list):
        return to_sympy(p, prog, q)
    if isinstance(p, dict) and "gv" in p:
        return gauss_cov(p["gv"], sf.hbar)
    return spec.dec_param(p)


def build_symbolic(n, ops_, parent=None):
    import strawberryfields as sf
    from strawberryfields import ops

    prog = sf.Program(n) if parent is None else sf.Program(parent)
    with prog.context as q:
        for o in ops_:
            ps = [sym_param(p, prog, q) for p in o[1]]
            flags = o[3] if len(o) > 3 else {}
            kw = dict(flags.get("kw", {}))
            if flags.get("select") is not None:
                kw["select"] = spec.dec_param(flags["select"])
            op = getattr(ops, o[0])(*ps, **kw)
            if flags.get("H"):
                op = op.H
            regs = tuple(q[m] for m in o[2])
            op | (regs if len(regs) > 1 else regs[0])
    return prog


def check_sub(ctx, case):
    hbar = float(case.get("hbar", 2.0))
    with sfrun.HbarCtx(hbar):
        return _check_sub(ctx, case, hbar)


def _check_sub(ctx, case, hbar):
    import warnings

    import strawberryfields as sf
    from strawberryfields.program_utils import CircuitError

    n, env, ops_, target = case["n"], dict(case["env"]), case["ops"], case["target"]
    used = set().union(*[symbols_of(p) for o in ops_ for p in o[1]] or [set()])
    labels = ["target:" + target] + (["free"] if used else []) + (["hbar_not_2"] if hbar != 2.0 else [])
    default = case.get("default") if (case.get("default") or {}).get("name") in used else None
    unbound = set()
    if default:
        labels.append("default_set:" + ("bound" if default["bound"] else "unbound"))
        if not default["bound"]:
            unbound = {default["name"]}
            env[default["name"]] = default["value"]  # what the parameter stands for while it is unbound
    nontriv = False
    for o in ops_:
        for p in o[1]:
            if is_vec(p):
                if symbols_of(p):
                    labels += ["array_valued"] + ["vfn:" + f for f in fns_of(p)]
                    nontriv = nontriv or any(abs(evaluate(e, env)) > 1e-9 for e in vec_elems(p))
            elif isinstance(p, list) and symbols_of(p):
                labels += ["fn:" + f for f in fns_of(p)]
                if o[0] in DECOMPOSED:
                    labels.append("decomposed_symbolic")
                if has_arith(p) and abs(evaluate(p, env)) > 1e-9:
                    nontriv = True
    if case["optimize"] and used:
        labels.append("optimised_symbolic")
    if case.get("pair"):
        labels += ["symbolic_merge_pair", "merge:" + case["pair"]] + (["symbolic_merge_pair_optimised"] if case["optimize"] else [])
    env2, how = case.get("env2"), case.get("rebind")
    rebind = bool(env2 and how and used and target not in ("gaussian_unitary", "passive"))  # (these evaluate the numbers when they compile)
    if rebind:
        labels += ["rebind", "rebind:" + how]
    prep = list(case.get("prep") or [])
    ref = spec.ref_run(n, prep + numeric_twin(ops_, env, hbar), hbar)
    bind = {k: env[k] for k in used if k not in unbound}
    with warnings.catch_warnings():
        warnings.simplefilter("ignore")
        try:
            first = spec.build_program(n, prep) if target == "passive" else None
            prog = build_symbolic(n, ops_, parent=first)
            if default:
                prog.free_params[default["name"]].default = default["value"]
            if case["by_object"]:
                bind_arg = {prog.free_params[k]: v for k, v in bind.items()}
            else:
                bind_arg = dict(bind)
            backend = "gaussian" if target in ("default", "gaussian", "gaussian_unitary", "fock", "passive") else "bosonic"
            run_prog = prog
            if target != "default":
                if target in ("gaussian_unitary", "passive") or case["bind_first"]:
                    prog.bind_params(bind_arg)
                run_prog = prog.compile(compiler=target, optimize=case["optimize"])
            eng = sf.Engine(backend)
            np.random.seed(3)
            opts = {"optimize": True} if (case["optimize"] and target == "default") else None
            if target == "passive":
                eng.run(first)
                res = eng.run(run_prog)
                mu, V, _ = sfrun.moments_of(res.state, backend, hbar)
            elif target == "fock":
                # the fock target keeps MZgate/S2gate native: run the compiled circuit's specs through refsim instead of a backend
                run_prog.bind_params(bind_arg) if not case["bind_first"] else None
                got = spec.ref_run(n, spec.circuit_to_specs(run_prog.circuit), hbar)
                mu, V = got.mu, got.V
            else:
                res = eng.run(run_prog, args=bind_arg if not (target != "default" and (target == "gaussian_unitary" or case["bind_first"])) else None,
                              compile_options=opts)
                mu, V, _ = sfrun.moments_of(res.state, backend, hbar)
        except CircuitError:
            ctx.note(case, False, ["rejected:" + target])
            return None
        except (NotImplementedError,) as exc:
            ctx.note(case, False, ["rejected:" + target])
            return None
        except Exception as exc:  # pylint: disable=broad-except
            # the property compares with the numerically substituted circuit: if that one is rejected in the same way (same exception
            # type through the same target), the symbolic program behaved exactly like it (the rejection itself is another property's subject)
            try:
                if target == "passive":
                    t1 = spec.build_program(n, prep)
                    e2 = sf.Engine(backend)
                    e2.run(t1)
                    e2.run(build_symbolic(n, numeric_twin(ops_, env, hbar), parent=t1).compile(compiler=target, optimize=case["optimize"]))
                else:
                    twin = spec.build_program(n, numeric_twin(ops_, env, hbar))
                    if target != "default":
                        twin = twin.compile(compiler=target, optimize=case["optimize"])
                    if target != "fock":
                        sf.Engine(backend).run(twin, compile_options={"optimize": True} if (case["optimize"] and target == "default") else None)
                twin_exc = None
            except Exception as exc2:  # pylint: disable=broad-except
                twin_exc = exc2
            if twin_exc is not None and type(twin_exc) is type(exc):
                ctx.note(case, False, labels + ["both_raise:" + type(exc).__name__])
                return None
            ctx.note(case, True, labels)
            tiny = any(isinstance(v, float) and 0 < abs(v) < 1e-5 for o in numeric_twin(ops_, env, hbar) for v in o[1])
            if target == "gaussian_unitary" and isinstance(exc, ValueError) and "not unitary" in str(exc) and tiny:
                # C17 finding N3: bloch_messiah on a symplectic matrix with a squeezing of ~1e-9 is numerically chaotic
                return ctx.fail("bloch_messiah.near_degenerate_cluster_split_by_rounding", "gaussian_unitary output with a nearly vanishing squeezing cannot be decomposed: " + str(exc)[:60])
            return ctx.crash(exc, "symbolic." + target)
        ctx.note(case, nontrivial=nontriv, labels=labels)
        d = max(float(np.max(np.abs(mu - ref.mu))), float(np.max(np.abs(V - ref.V))))
        if d > 1e-7 * (1 + float(np.max(np.abs(ref.V)))):
            return ctx.fail("substitution.state_differs.%s%s" % (target, ".optimize" if case["optimize"] else ""), "symbolic program (bound %s, hbar %g) differs from its numerically substituted twin by %.3g" % (bind, hbar, d))
        if not rebind:
            return None
        # the SAME program object (and its compiled copy), bound to other values, is the circuit with those values substituted
        bind2 = {k: env2[k] for k in used}
        ref2 = spec.ref_run(n, numeric_twin(ops_, env2, hbar), hbar)
        try:
            b2 = {prog.free_params[k]: v for k, v in bind2.items()} if case["by_object"] else dict(bind2)
            np.random.seed(3)
            if target == "fock":
                (run_prog if how == "args" else prog).bind_params(b2)
                got = spec.ref_run(n, spec.circuit_to_specs(run_prog.circuit), hbar)
                mu, V = got.mu, got.V
            else:
                if how == "args":
                    res = sf.Engine(backend).run(run_prog, args=b2, compile_options=opts)
                else:
                    prog.bind_params(b2)  # through the original program: a compiled copy shares its parameters
                    res = sf.Engine(backend).run(run_prog, compile_options=opts)
                mu, V, _ = sfrun.moments_of(res.state, backend, hbar)
        except Exception as exc:  # pylint: disable=broad-except
            return ctx.crash(exc, "symbolic.rebind." + target)
        d = max(float(np.max(np.abs(mu - ref2.mu))), float(np.max(np.abs(V - ref2.V))))
        if d > 1e-7 * (1 + float(np.max(np.abs(ref2.V)))):
            d1 = max(float(np.max(np.abs(mu - ref.mu))), float(np.max(np.abs(V - ref.V))))
            return ctx.fail("substitution.rebind_state_differs.%s" % target, "the program run again after re-binding (%s) %s -> %s differs from the twin with the NEW values by %.3g (from the twin with the old values by %.3g)" % (how, bind, bind2, d, d1))
    return None


# ---------------------------------------------------------------------------------------------
# measured parameters
# ---------------------------------------------------------------------------------------------
@st.composite
def meas_case(draw):
    n = draw(st.sampled_from([2, 3, 12, 3, 2]))
    # 12 modes: two-digit register names (q10, q11 next to q1, q0)
    mode_st = st.integers(0, n - 1) if n <= 3 else st.sampled_from([10, 1, 11, 0, 2])
    steps = []
    vals = {}  # mode -> kind of its most recent measurement: "hom" (real outcome) | "het" (complex outcome)
    pre = draw(gen.op_list(n, ["Sgate", "BSgate", "Dgate", "Rgate"], "ps", 1, 3))
    # several segments: the leading segments (no feed-forward in them, see F7) measure / re-prepare / re-measure, the last segment,
    # built with Program(previous), uses the outcomes.  Three segments: a value measured in the first one has to survive the second
    nseg = draw(st.sampled_from([1, 1, 1, 1, 1, 2, 2, 3, 3]))
    lead = [] if nseg == 1 else ([draw(st.integers(1, 4))] if nseg == 2 else [draw(st.integers(1, 3)), draw(st.integers(0, 2))])
    # free parameters next to measured ones in ONE expression (single program only: a successor program has its own parameters, F7)
    use_free = nseg == 1 and draw(st.integers(0, 2)) > 0
    env = {"a": draw(gen.fl(-1.0, 1.0))} if use_free else {}

    def base_leaves(src):
        if vals.get(src) == "het":
            return [["cfn", f, ["meas", src]] for f in ("re", "im", "Abs", "arg")]
        return [["meas", src]]

    def meas_expr(src, depth=1):
        base = base_leaves(src)
        e = draw(expr(base + ([["free", "a"]] if use_free else []), depth))
        if "q%d" % src not in symbols_of(e):
            e = ["mul", 0.5, draw(st.sampled_from(base))]
        if use_free and "a" not in symbols_of(e) and draw(st.integers(0, 3)) > 0:
            e = [draw(st.sampled_from(["add", "mul"])), e, ["free", "a"]]
        return e

    def measure(m, kind, phi):
        if kind == "het":
            z = {"re": draw(st.sampled_from([-1.0, 1.0])) * draw(gen.fl(0.1, 0.6)), "im": draw(st.sampled_from([1.0, -1.0])) * draw(gen.fl(0.1, 0.6))}
            steps.append(["MeasureHeterodyne", [], [m], {"select": z}])
        else:
            steps.append(["MeasureHomodyne", [phi], [m], {"select": draw(gen.fl(-0.8, 0.8))}])
        vals[m] = kind

    cuts = []
    for seg in range(nseg):
        final = seg == nseg - 1
        if final and not vals and draw(st.integers(0, 3)) > 0:
            measure(draw(mode_st), draw(st.sampled_from(["hom", "hom", "het"])), draw(st.sampled_from([0.0, 0.7])))  # (else: mostly use before measurement)
        for _it in range(draw(st.integers(1, 5)) if final else lead[seg]):
            if not final:
                k = draw(st.sampled_from(["measure", "measure", "measure_het", "remeasure", "remeasure", "reprepare", "gate"]))
            else:
                k = draw(st.sampled_from(["measure", "measure", "measure_het", "measure_sym", "remeasure", "use", "use", "use", "use_twice", "use_array",
                                          "reprepare", "gate"]))
            if k in ("measure", "remeasure", "measure_het"):
                m = draw(st.sampled_from(sorted(vals))) if k == "remeasure" and vals else draw(mode_st)
                kind = "het" if k == "measure_het" or (k == "remeasure" and draw(st.integers(0, 3)) == 0) else "hom"
                measure(m, kind, draw(st.sampled_from([0.0, 0.7])))
            elif k == "measure_sym":
                # the measurement angle itself is symbolic: a function of an earlier outcome (adaptive measurement) and / or a free parameter
                m = draw(mode_st)
                if vals and (not use_free or draw(st.integers(0, 3)) > 0):
                    phi = meas_expr(draw(st.sampled_from(sorted(vals))))  # may be the previous outcome of mode m itself
                elif use_free:
                    phi = draw(expr([["free", "a"]], 1))
                    phi = phi if symbols_of(phi) else ["add", phi, ["free", "a"]]
                else:
                    phi = meas_expr(draw(mode_st))  # nothing measured yet: use before measurement
                measure(m, "hom", phi)
            elif k == "use":
                srcs = sorted(vals) if vals and draw(st.integers(0, 5)) > 0 else (list(range(n)) if n <= 3 else [10, 1, 11, 0, 2])
                src = draw(st.sampled_from(srcs))
                tgt = draw(st.sampled_from([j for j in (range(n) if n <= 3 else [11, 0, 10, 1, 3]) if j != src] or [src]))
                fam = draw(st.sampled_from(["Dgate", "Rgate", "Sgate", "Xgate", "Zgate", "BSgate"]))
                e = meas_expr(src)
                if fam == "Dgate":
                    ps = [["fn", "Abs", e], 0.3]
                elif fam == "Sgate":
                    ps = [["fn", "tanh", e], 0.2]
                elif fam == "BSgate":
                    ps = [e, 0.1]
                else:
                    ps = [e]
                modes = [tgt] if fam != "BSgate" else [tgt, [j for j in range(n) if j != tgt][0]]
                steps.append([fam, ps, modes, {"H": True} if draw(st.integers(0, 3)) == 0 else {}])
            elif k == "use_twice":
                # two neighbouring gates of one family on one mode, both fed by the same measured mode (what an optimiser may try to merge)
                srcs = sorted(vals) or list(range(min(n, 3)))
                src = draw(st.sampled_from(srcs))
                tgt = draw(st.sampled_from([j for j in range(min(n, 3)) if j != src] or [src]))
                fam = draw(st.sampled_from(["Rgate", "Xgate", "Zgate", "Dgate"]))
                for _k in range(2):
                    e = meas_expr(src)
                    steps.append([fam, [["fn", "Abs", e], 0.3] if fam == "Dgate" else [e], [tgt], {}])
            elif k == "use_array":
                # an array-valued parameter whose elements depend on a measured value: the vector of means of Gaussian(V, r)
                srcs = sorted(vals) or list(range(min(n, 3)))
                src = draw(st.sampled_from(srcs))
                tgt = draw(st.sampled_from([j for j in range(min(n, 3)) if j != src] or [src]))
                gv = {"nb": [draw(gen.fl(0.2, 1.0))], "r": [draw(gen.fl(-0.4, 0.4))], "th": [draw(gen.fl(-3.0, 3.0))], "bs": [0.0, 0.0]}
                if draw(st.booleans()):
                    vec = ["vec", [meas_expr(src), draw(st.one_of(gen.fl(-1.0, 1.0), st.just(["meas", src]))) if vals.get(src) != "het" else ["cfn", "im", ["meas", src]]]]
                else:
                    vec = ["vscale", meas_expr(src), ["vec", [draw(gen.fl(-1.0, 1.0)), draw(gen.fl(-1.0, 1.0))]]]
                steps.append(["Gaussian", [{"gv": gv}, vec], [tgt], {"kw": {"decomp": draw(st.booleans())}}])
            elif k == "reprepare":
                m = draw(mode_st)
                steps.append(["Squeezed", [draw(gen.fl(-0.5, 0.5)), 0.3], [m], {}])
            else:
                steps += draw(gen.op_list(n, ["BSgate", "Rgate"], "ps", 1, 1))
        if not final:
            cuts.append(len(steps))
    return {"n": n, "pre": pre, "steps": steps, "target": draw(st.sampled_from(["default", "default", "gaussian", "bosonic"])),
            "optimize": draw(st.sampled_from([None, None, "optimize", "compile"])), "cuts": cuts, "form": draw(st.sampled_from(["list", "calls"])),
            "env": env, "hbar": draw(st.sampled_from(HBARS)), "reset_rerun": draw(st.booleans())}


def walk_measured(n, steps, env_free, hbar, vals=None):
    """oracle: walk the steps substituting the MOST RECENT outcome of every mode (and the free-parameter values); a parameter that (after
    algebraic simplification) depends on a mode not measured so far ends the walk: early = True.  Returns (numeric steps, early, labels)"""
    vals = dict(vals or {})
    nmeas = {}
    numeric, labels = [], []
    for o in steps:
        syms = set().union(*[live_symbols(p) for p in o[1] if isinstance(p, list)] or [set()])
        qsyms = {s for s in syms if s not in env_free}
        if any(s not in vals for s in qsyms):
            return numeric, True, labels
        if qsyms and any(nmeas.get(int(s[1:]), 0) >= 2 for s in qsyms):
            labels.append("remeasure")
        if qsyms and (syms - qsyms):
            labels.append("mixed_free_measured")
        if any(int(s[1:]) >= 10 for s in qsyms):
            labels.append("two_digit_mode")
        if any(isinstance(p, list) and "cfn" in jflat(p) for p in o[1]) and qsyms:
            labels.append("heterodyne_complex")
        if any(is_vec(p) for p in o[1]) and qsyms:
            labels.append("array_valued_measured")
        full = dict({"q%d" % j: 0.0 for j in range(n)}, **vals)  # symbols that cancel out may be unmeasured
        full.update(env_free)
        numeric.append([o[0], [num_param(p, full, hbar) for p in o[1]], o[2], o[3]])
        if o[0] in ("MeasureHomodyne", "MeasureHeterodyne"):
            if syms:
                labels.append("symbolic_measurement_angle")
            vals["q%d" % o[2][0]] = o[3]["select"]
            nmeas[o[2][0]] = nmeas.get(o[2][0], 0) + 1
    return numeric, False, labels


def jflat(x):
    out = []
    for y in x:
        out += jflat(y) if isinstance(y, list) else [y]
    return out


def check_meas(ctx, case):
    hbar = float(case.get("hbar", 2.0))
    with sfrun.HbarCtx(hbar):
        return _check_meas(ctx, case, hbar)


def _check_meas(ctx, case, hbar):
    import warnings

    import strawberryfields as sf
    from strawberryfields.parameters import ParameterError

    n, steps, target = case["n"], case["steps"], case["target"]
    env_free = dict(case.get("env") or {})
    numeric_steps, early, wl = walk_measured(n, steps, env_free, hbar)
    numeric = list(case["pre"]) + numeric_steps
    labels = ["measured", "target:" + target] + wl + (["hbar_not_2"] if hbar != 2.0 else [])
    if early:
        labels.append("use_before_measure")
    used_free = sorted(symbols_of(steps) & set(env_free))
    args = {k: env_free[k] for k in used_free} or None
    reset_ran = False
    with warnings.catch_warnings():
        warnings.simplefilter("ignore")
        try:
            backend = "bosonic" if target == "bosonic" else "gaussian"
            cuts = case.get("cuts")
            if cuts is None:
                cuts = [case["cut"]] if case.get("cut") is not None else []  # (replay files written before "cuts" existed)
            cuts = list(cuts)
            opt = case.get("optimize")
            form = case.get("form", "calls")
            if cuts and backend == "bosonic":
                cuts = []  # F10 (open): the bosonic engine restarts per program; a single program is run there
            if cuts:
                labels += ["two_segments"] if len(cuts) == 1 else ["three_segments"]
                if form == "list":
                    labels.append("program_list")
            if opt:
                labels.append("optimised_measured")

            def prepare(pr):
                if opt == "optimize":
                    pr = pr.optimize()
                if opt == "compile":
                    return pr.compile(compiler=target if target != "default" else backend, optimize=True)
                return pr if target == "default" else pr.compile(compiler=target)

            np.random.seed(3)
            eng = sf.Engine(backend)
            bounds = [0] + cuts + [len(steps)]
            seg_ops = [steps[bounds[i]:bounds[i + 1]] for i in range(len(bounds) - 1)]
            last = None
            if not cuts:
                res = eng.run(prepare(build_symbolic(n, list(case["pre"]) + steps)), args=args)
            elif form == "list":
                # every segment is built first (only the last one contains feed-forward) and ONE run call gets the list
                progs = []
                for k, so in enumerate(seg_ops):
                    progs.append(build_symbolic(n, (list(case["pre"]) if k == 0 else []) + so, parent=progs[-1] if progs else None))
                prepared = [prepare(pr) for pr in progs]
                last = prepared[-1]
                res = eng.run(prepared)
            else:
                parent = None
                for k, so in enumerate(seg_ops):
                    parent = build_symbolic(n, (list(case["pre"]) if k == 0 else []) + so, parent=parent)
                    last = prepare(parent)
                    res = eng.run(last)
        except ParameterError as exc:
            ctx.note(case, True, labels)
            if early:
                return None
            return ctx.fail("measured.parameter_error_on_valid_program", "ParameterError although every measured parameter is used after its measurement: %s" % str(exc)[:120])
        except Exception as exc:  # pylint: disable=broad-except
            ctx.note(case, True, labels)
            return ctx.crash(exc, "measured." + target)
        do_reset = bool(cuts) and bool(case.get("reset_rerun")) and not early
        ctx.note(case, nontrivial=True, labels=labels + (["reset_then_last_segment"] if do_reset else []))
        if early:
            return ctx.fail("measured.used_before_measurement_accepted", "a gate used the measured value of a mode before any measurement of it and the program ran")
        ref = spec.ref_run(n, numeric, hbar)
        mu, V, _ = sfrun.moments_of(res.state, backend, hbar)
        d = max(float(np.max(np.abs(mu - ref.mu))), float(np.max(np.abs(V - ref.V))))
        if d > 2e-5 * (1 + float(np.max(np.abs(ref.V)))):
            return ctx.fail("measured.state_differs.%s" % target, "program with measured parameters differs from the twin with the most recent outcomes substituted by %.3g (hbar %g)" % (d, hbar))
        if not do_reset:
            return None
        # Engine.reset: "All registers of previously run Programs are cleared of measured values".  The last segment run alone on the reset
        # engine starts a new computation: outcomes of the earlier computation are not available in it
        num2, early2, _ = walk_measured(n, seg_ops[-1], env_free, hbar)
        try:
            eng.reset()
            np.random.seed(3)
            res2 = eng.run(last)
        except ParameterError as exc:
            if early2:
                return None
            return ctx.fail("measured.reset.parameter_error_on_valid_segment", "after Engine.reset the last segment (which measures everything it uses) raised %s" % str(exc)[:100])
        except Exception as exc:  # pylint: disable=broad-except
            return ctx.crash(exc, "measured.reset." + target)
        if early2:
            return ctx.fail("measured.reset.stale_measured_value_used", "after Engine.reset the last segment ran although it uses the outcome of a measurement made before the reset (not repeated since)")
        ref2 = spec.ref_run(n, num2, hbar)
        mu, V, _ = sfrun.moments_of(res2.state, backend, hbar)
        d = max(float(np.max(np.abs(mu - ref2.mu))), float(np.max(np.abs(V - ref2.V))))
        if d > 2e-5 * (1 + float(np.max(np.abs(ref2.V)))):
            return ctx.fail("measured.reset.state_differs", "last segment run alone after Engine.reset differs from its twin started in the vacuum by %.3g" % d)
    return None


# ---------------------------------------------------------------------------------------------
# error contract
# ---------------------------------------------------------------------------------------------
ERR_V = {"nb": [0.4], "r": [0.3], "th": [0.5], "bs": [0.0, 0.0]}


@st.composite
def err_case(draw):
    return {"kind": draw(st.sampled_from(["unbound", "unknown_name", "unknown_object", "partial", "unknown_name_no_params"])),
            "fam": draw(st.sampled_from(["MeasureHomodyne", "Gaussian", "Rgate", "Sgate", "Xgate", "BSgate", "LossChannel", "Dgate"])),
            "value": draw(gen.fl(0.1, 0.9)), "compile": draw(st.sampled_from([None, "gaussian", "bosonic"])), "dagger": draw(st.booleans())}


def check_err(ctx, case):
    import warnings

    import strawberryfields as sf
    from strawberryfields import ops
    from strawberryfields.parameters import FreeParameter, ParameterError

    kind, fam = case["kind"], case["fam"]
    prog = sf.Program(2)
    v = case["value"]
    noparams = kind == "unknown_name_no_params"  # a program WITHOUT free parameters that is given a value for one
    a, b = (v, 0.1) if noparams else prog.params("a", "b")
    dag = bool(case.get("dagger")) and fam not in ("LossChannel", "MeasureHomodyne", "Gaussian")
    with prog.context as q:
        ops.Squeezed(0.3, 0.4) | q[0]
        ops.Coherent(0.5, 0.2) | q[1]
        if fam == "MeasureHomodyne":
            op = ops.MeasureHomodyne(a, select=0.2)  # the parameter is a measurement angle
        elif fam == "Gaussian":
            op = ops.Gaussian(gauss_cov(ERR_V, 2.0), np.array([1.0, 0.5]) * a)  # the parameter sits inside an array-valued argument
        else:
            op = ops.BSgate(a, b) if fam == "BSgate" else (ops.Dgate(a, 0.3) if fam == "Dgate" else (ops.Sgate(a, 0.3) if fam == "Sgate" else getattr(ops, fam)(a)))
        if dag:
            op = op.H
        op | ((q[0], q[1]) if fam == "BSgate" else q[0])
        ops.Rgate(b) | q[1]
    labels = [("unbound" if kind in ("unbound", "partial") else "unknown_name")] + (["error_then_rerun_dagger"] if dag else []) + (["no_params_program"] if noparams else []) + (
        ["unbound_in:" + fam] if fam in ("MeasureHomodyne", "Gaussian") and kind in ("unbound", "partial") else [])
    ctx.note(case, nontrivial=True, labels=labels)
    args = {"unbound": None, "partial": {"b": 0.1} if fam in ("MeasureHomodyne", "Gaussian") else {"a": case["value"]}, "unknown_name": {"a": case["value"], "b": 0.1, "zz": 1.0},
            "unknown_object": {"a": case["value"], "b": 0.1, FreeParameter("other"): 1.0}, "unknown_name_no_params": {"zz": 1.0}}[kind]
    with warnings.catch_warnings():
        warnings.simplefilter("ignore")
        try:
            run_prog = prog if case["compile"] is None else prog.compile(compiler=case["compile"])
            res = sf.Engine("gaussian" if case["compile"] != "bosonic" else "bosonic").run(run_prog, args=args)
        except ParameterError:
            # the refused run must leave the program usable: with every parameter bound it computes what its numeric twin computes
            be = "gaussian" if case["compile"] != "bosonic" else "bosonic"
            try:
                res2 = sf.Engine(be).run(run_prog, args=None if noparams else {"a": case["value"], "b": 0.1})
            except Exception as exc:  # pylint: disable=broad-except
                return ctx.crash(exc, "errors.rerun_after_parameter_error")
            if fam == "MeasureHomodyne":
                mid = ["MeasureHomodyne", [v], [0], {"select": 0.2}]
            elif fam == "Gaussian":
                mid = ["Gaussian", [spec.enc_matrix(gauss_cov(ERR_V, 2.0)), spec.enc_vec([v, 0.5 * v])], [0], {}]
            else:
                mid = [fam, [v, 0.1] if fam == "BSgate" else ([v, 0.3] if fam in ("Dgate", "Sgate") else [v]), [0, 1] if fam == "BSgate" else [0], {"H": True} if dag else {}]
            tw = [["Squeezed", [0.3, 0.4], [0], {}], ["Coherent", [0.5, 0.2], [1], {}], mid, ["Rgate", [0.1], [1], {}]]
            ref = spec.ref_run(2, tw, 2.0)
            mu, V, _ = sfrun.moments_of(res2.state, be, 2.0)
            d = max(float(np.max(np.abs(mu - ref.mu))), float(np.max(np.abs(V - ref.V))))
            if d > (2e-5 if fam == "MeasureHomodyne" else 1e-7) * (1 + float(np.max(np.abs(ref.V)))):
                return ctx.fail("errors.program_changed_by_refused_run", "after a run refused with ParameterError the same program, run with all parameters bound, differs from its numeric twin by %.3g (%s%s)" % (d, fam, ".H" if dag else ""))
            return None
        except Exception as exc:  # pylint: disable=broad-except
            return ctx.fail("errors.%s.wrong_exception.%s" % (kind, type(exc).__name__), "expected ParameterError, got %s: %s" % (type(exc).__name__, str(exc)[:120]))
    return ctx.fail("errors.%s.accepted" % kind, "the program ran (means %s) although %s" % (np.round(np.asarray(res.state.means()).real, 3).tolist() if hasattr(res.state, "means") else "?", {"unbound": "no parameter was bound", "partial": "a parameter was not bound", "unknown_name": "an unknown name was bound", "unknown_object": "a foreign FreeParameter was bound", "unknown_name_no_params": "a value was given for a parameter of a program that has no free parameters"}[kind]))


# ---------------------------------------------------------------------------------------------
# isolation between programs (F7)
# ---------------------------------------------------------------------------------------------
@st.composite
def iso_case(draw):
    return {"va": draw(gen.fl(0.1, 0.9)), "vb": draw(gen.fl(-0.9, -0.1)), "kind": draw(st.sampled_from(["free", "measured"]))}


def check_iso(ctx, case):
    import warnings

    import strawberryfields as sf
    from strawberryfields import ops
    from strawberryfields.parameters import ParameterError

    ctx.note(case, nontrivial=True, labels=["two_programs_same_names", "iso:" + case["kind"]])
    with warnings.catch_warnings():
        warnings.simplefilter("ignore")
        if case["kind"] == "free":
            A = sf.Program(1)
            with A.context as q:
                ops.Xgate(A.params("a")) | q[0]
            B = sf.Program(1)
            with B.context as q:
                ops.Xgate(B.params("a")) | q[0]
            A.bind_params({"a": case["va"]})
            B.bind_params({"a": case["vb"]})
            try:
                x = float(sf.Engine("gaussian").run(A).state.means()[0])
            except Exception as exc:  # pylint: disable=broad-except
                return ctx.crash(exc, "isolation.free")
            if abs(x - case["va"]) > 1e-9:
                if A.params("a") is B.params("a") and abs(x - case["vb"]) < 1e-9:
                    return ctx.fail("F7.symbols_cached_by_name.free", "binding a=%.3f in program B changed program A (its Xgate displaced by %.3f instead of %.3f): both programs share one FreeParameter object" % (case["vb"], x, case["va"]))
                return ctx.fail("isolation.free.other", "program A displaced by %.6f, expected %.6f" % (x, case["va"]))
            return None
        A = sf.Program(2)
        with A.context as q:
            ops.MeasureHomodyne(0.0, select=case["va"]) | q[0]
            ops.Xgate(q[0].par) | q[1]
        B = sf.Program(2)
        with B.context as q:
            ops.MeasureHomodyne(0.0, select=case["vb"]) | q[0]
            ops.Xgate(q[0].par) | q[1]
        try:
            x = float(sf.Engine("gaussian").run(A).state.means()[1])
        except ParameterError as exc:
            return ctx.fail("F7.symbols_cached_by_name.measured", "building program B re-bound program A's measured parameter q0 to B's register: running A raises %s" % str(exc)[:80])
        except Exception as exc:  # pylint: disable=broad-except
            return ctx.crash(exc, "isolation.measured")
        if abs(x - case["va"]) > 1e-6:
            return ctx.fail("isolation.measured.other", "program A displaced by %.6f, expected %.6f" % (x, case["va"]))
        return None


# ---------------------------------------------------------------------------------------------
# several modes measured by ONE command, in any listed order, then used as parameters
# ---------------------------------------------------------------------------------------------
@st.composite
def mm_case(draw):
    n = draw(st.sampled_from([3, 3, 4]))
    k = draw(st.integers(2, n - 1))
    modes = list(draw(st.permutations(list(range(n))))[:k])
    nums = list(draw(st.permutations([0, 1, 2, 3][:max(k, 3)]))[:n]) + [0] * n
    nums = nums[:n]
    rest = [m for m in range(n) if m not in modes]
    uses = [[draw(st.sampled_from(modes)), draw(st.sampled_from([0.05, 0.08, 0.11]))] for _ in range(draw(st.integers(1, 2)))]
    return {"n": n, "modes": modes, "nums": nums, "target": draw(st.sampled_from(rest)), "uses": uses, "kind": "MeasureFock",  # (MeasureThreshold is not accepted by the fock compiler)
            "pure": draw(st.booleans())}


def check_mm(ctx, case):
    """Fock inputs make the outcomes deterministic: q[m].par must be the outcome of mode m whatever the order in which the modes were listed"""
    import warnings

    import strawberryfields as sf
    from strawberryfields import ops

    n, modes, nums, tgt = case["n"], case["modes"], case["nums"], case["target"]
    labels = ["measured", "multi_mode_measurement", "type:" + case["kind"]] + (["unsorted_measured_modes"] if modes != sorted(modes) else [])
    ctx.note(case, nontrivial=True, labels=labels)
    val = (lambda m: nums[m]) if case["kind"] == "MeasureFock" else (lambda m: int(nums[m] > 0))
    with warnings.catch_warnings():
        warnings.simplefilter("ignore")
        try:
            prog = sf.Program(n)
            with prog.context as q:
                for m in range(n):
                    if m != tgt:
                        ops.Fock(nums[m]) | q[m]
                getattr(ops, case["kind"])() | tuple(q[m] for m in modes)
                for src, c in case["uses"]:
                    ops.Dgate(c * q[src].par, 0.0) | q[tgt]
            np.random.seed(2)
            res = sf.Engine("fock", backend_options={"cutoff_dim": 6, "pure": case["pure"]}).run(prog)
        except Exception as exc:  # pylint: disable=broad-except
            return ctx.crash(exc, "measured_multi")
    want = sum(c * val(src) for src, c in case["uses"])
    got = res.state.quad_expectation(tgt, 0.0)[0] / 2.0  # hbar = 2: <x> = 2 Re(alpha)
    for m in modes:
        v = res.samples_dict.get(m)
        if v is None or int(np.ravel(v[-1])[0]) != val(m):
            return ctx.fail("measured_multi.samples_dict", "samples_dict[%d] = %r, the (deterministic) outcome of that mode is %d" % (m, v, val(m)))
    if abs(got - want) > 5e-3:
        return ctx.fail("measured_multi.wrong_value_used", "%s on modes %s (Fock inputs %s): Dgate(sum c q[src].par) gave amplitude %.4f, the outcomes imply %.4f (uses %s)" % (
            case["kind"], modes, [nums[m] for m in modes], got, want, case["uses"]))
    return None


# ----------------------------------------------------------------------------------------------
# parameters.par_convert: symbols of a loaded (Blackbird / XIR) program -> measured / free parameters of the Program
# ----------------------------------------------------------------------------------------------
PC_FNS = ["id", "sin", "exp", "sq", "neg"]


@st.composite
def pc_case(draw):
    n = draw(st.sampled_from([1, 2, 3, 5, 9, 10, 11, 12, 20, 21, 25, 101]))
    terms = []
    for _ in range(draw(st.integers(1, 3))):
        if draw(st.integers(0, 3)) == 0:
            leaf = ["free", draw(st.sampled_from(["a", "theta", "p1", "x", "alpha", "r_q1"]))]
        else:
            leaf = ["meas", draw(st.one_of(st.integers(0, n - 1), st.just(n - 1)))]
        terms.append([draw(gen.real(-2.0, 2.0, (1.0, -1.0))), draw(st.sampled_from(PC_FNS)), leaf])
    vals = {str(m): draw(gen.fl(-1.0, 1.0)) for m in sorted({t[2][1] for t in terms if t[2][0] == "meas"})}
    free = {nm: draw(gen.fl(-1.0, 1.0)) for nm in sorted({t[2][1] for t in terms if t[2][0] == "free"})}
    return {"n": n, "terms": terms, "vals": vals, "free": free}


def check_pc(ctx, case):
    """par_convert must bind the symbol q<N> to the measured value of subsystem N (every N, every number of digits) and every other symbol to
    the free parameter of that name; the converted expression evaluates to the arithmetic done by the harness on the numbers"""
    import sympy
    import strawberryfields as sf
    from strawberryfields import parameters as P
    from sympy.core.cache import clear_cache

    # every case is its own process as far as sympy is concerned: expressions such as q38**2 are cached by NAME, so a case would otherwise
    # be handed the expression object (and RegRef) of an earlier case's Program - the open finding F7, which the `isolation` sub-check
    # and its replays cover; here it would be state leaking between cases
    clear_cache()
    n = case["n"]
    fns = {"id": (lambda x: x, lambda x: x), "sin": (sympy.sin, np.sin), "exp": (sympy.exp, np.exp), "sq": (lambda x: x ** 2, lambda x: x ** 2), "neg": (lambda x: -x, lambda x: -x)}
    e, want = 0, 0.0
    for c, f, leaf in case["terms"]:
        sym = sympy.Symbol(("q%d" % leaf[1]) if leaf[0] == "meas" else leaf[1])
        v = case["vals"][str(leaf[1])] if leaf[0] == "meas" else case["free"][leaf[1]]
        e = e + c * fns[f][0](sym)
        want += c * float(fns[f][1](v))
    srcs = sorted(int(m) for m in case["vals"])
    labels = ["par_convert"] + (["par_convert:two_digit_mode_index"] if any(m >= 10 for m in srcs) else []) + (["par_convert:free_and_measured"] if case["free"] and srcs else [])
    ctx.note(case, nontrivial=bool(srcs), labels=labels)
    if not isinstance(e, sympy.Basic) or not e.free_symbols:
        return None  # the terms cancelled
    prog = sf.Program(n)
    try:
        out = P.par_convert([e, 0.37], prog)
        deps = sorted(r.ind for r in P.par_regref_deps(out[0]))
        live = sorted(int(str(s_)[1:]) for s_ in e.free_symbols if str(s_)[0] == "q")
        if deps != live:
            return ctx.fail("par_convert.measured_parameter_refers_to_wrong_mode", "symbols q%s were converted to measured parameters of subsystems %s (register of %d)" % (live, deps, n))
        if out[1] != 0.37:
            return ctx.fail("par_convert.number_changed", "0.37 -> %r" % (out[1],))
        for m, v in case["vals"].items():
            prog.register[int(m)].val = v
        if case["free"]:
            prog.bind_params({nm: v for nm, v in case["free"].items() if nm in prog.free_params})
        got = complex(P.par_evaluate(out[0]))
    except Violation:
        raise
    except Exception as exc:  # pylint: disable=broad-except
        return ctx.crash(exc, "par_convert")
    if abs(got - want) > 1e-9 * (1 + abs(want)):
        return ctx.fail("par_convert.value_differs", "converted expression evaluates to %s, the arithmetic on the numbers gives %s (sources %s)" % (got, want, srcs))
    return None


SUBS = [
    Sub("substitution", check=check_sub, strategy=lambda ctx: sub_case(), examples={"quick": 500, "thorough": 5000}, shards={"quick": 3, "thorough": 16},
        rule="expression trees over free parameters on every Gaussian family, all compile targets (incl. passive), optimize on/off, bind by name/object, before/after compile, "
             "re-binding of the same program, symbolic merge pairs, array-valued means, explicit defaults, hbar"),
    Sub("measured", check=check_meas, strategy=lambda ctx: meas_case(), examples={"quick": 450, "thorough": 5000}, shards={"quick": 2, "thorough": 16},
        rule="measure / use / re-prepare / re-measure histories with select (homodyne and heterodyne outcomes, symbolic angles, free + measured symbols, 12-mode "
             "registers, 1..3 segments call by call or as a list, reset): most recent outcome; use before measurement raises"),
    Sub("measured_multi", check=check_mm, strategy=lambda ctx: mm_case(), examples={"quick": 120, "thorough": 1500}, shards={"quick": 1, "thorough": 8},
        rule="one MeasureFock / MeasureThreshold on 2..3 modes listed in any order (Fock inputs: deterministic outcomes), then gates using q[m].par: fock backend"),
    Sub("errors", check=check_err, strategy=lambda ctx: err_case(), examples={"quick": 200, "thorough": 600}, shards={"quick": 1, "thorough": 2},
        rule="unbound / partially bound / unknown parameters (also inside a measurement angle or an array, also for a program without parameters) raise ParameterError"),
    Sub("isolation", check=check_iso, strategy=lambda ctx: iso_case(), examples={"quick": 20, "thorough": 100}, shards={"quick": 1, "thorough": 1},
        rule="two programs with the same parameter names do not influence each other"),
    Sub("par_convert", check=check_pc, strategy=lambda ctx: pc_case(), examples={"quick": 300, "thorough": 3000}, shards={"quick": 1, "thorough": 2},
        rule="parameters.par_convert (how loaded Blackbird / XIR programs get their parameters) on expressions over q<N> (N up to 100) and free symbols: "
             "dependencies are exactly the subsystems N, the value is the harness' arithmetic on the outcomes / bound values"),
]

MANIFEST = {
    "technique": "Hypothesis differential testing: symbolic program (bound through the public API) vs numerically substituted twin evaluated by the harness and refsim",
    "text": ("Generated expression trees over free and measured parameters are built as sympy expressions in the program and evaluated "
             "independently by the harness; the symbolic program, through every compile target, decomposition and optimisation, must reach "
             "the state refsim computes for the substituted twin; measured parameters must take the most recent outcome and raise before "
             "measurement; unbound or unknown parameters must raise ParameterError."),
}
