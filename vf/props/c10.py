"""C10 - symbolic parameters behave exactly like the values they stand for.

  substitution   a program whose parameters are expression trees over free parameters runs (args=...) to the same state as its
                 numerically substituted twin (refsim of the harness-evaluated expressions), through every compile target,
                 decomposition and optimisation; compile-then-bind == bind-then-compile
  measured       gates parameterised by (expressions of) measured values: with select fixing the outcomes the applied gate uses the
                 MOST RECENT outcome of the mode (measure -> use -> re-prepare -> re-measure -> use); use before measurement raises
  errors         unbound parameters, unknown names: ParameterError, never a silent default or a value leaked from another program
  isolation      creating / binding / running program B must not change program A (finding F7: symbols are cached by name)
"""
from __future__ import annotations

import math

import numpy as np
from hypothesis import strategies as st

from vf import gen, refsim, sfrun, spec
from vf.core import Sub

RULE = ("programs of 1..3 modes, 1..6 commands over every parameterised Gaussian operation family with .H; each real parameter is, with "
        "probability 1/2, an expression tree (sum, product, negation, sin, cos, exp, sqrt, Abs, atan2) over free parameters a, b, c and "
        "constants; compile targets {engine default, gaussian, bosonic, fock, gaussian_unitary (bound first)} x optimize; measured-parameter "
        "histories of measure/use/re-prepare/re-measure; non-trivial = an expression with >= 1 symbol and >= 1 arithmetic node whose value is not 0")
ASSUMPTIONS = [
    "expression trees are evaluated by the harness with plain Python/numpy (never by sympy) for the numeric twin",
    "states compared with refsim at 1e-7 (1e-5 with post-selected homodyne); compile targets that reject a program (CircuitError) are skipped",
    "array-valued (batched) parameters and TensorFlow tensors are not exercised (tensorflow is not installed)",
    "F7 (open): free/measured parameter symbols are cached by name across Programs; the substitution and measured sub-checks keep exactly one "
    "symbolic program alive at a time so that they test what the property states rather than F7",
]
REQUIRED_LABELS = {"all": ["free", "measured", "decomposed_symbolic", "optimised_symbolic", "remeasure", "use_before_measure", "unbound", "unknown_name",
                           "target:gaussian_unitary", "target:bosonic", "fn:atan2", "two_segments", "optimised_measured", "multi_mode_measurement", "error_then_rerun_dagger"]}

FAMS = ["Dgate", "Sgate", "Rgate", "BSgate", "S2gate", "MZgate", "Xgate", "Zgate", "Pgate", "CXgate", "CZgate", "LossChannel", "ThermalLossChannel",
        "Coherent", "Squeezed", "DisplacedSqueezed", "Thermal", "sMZgate"]
DECOMPOSED = {"Xgate", "Zgate", "Pgate", "CXgate", "CZgate", "S2gate", "MZgate", "sMZgate", "DisplacedSqueezed"}
NONNEG = {("LossChannel", 0), ("ThermalLossChannel", 0), ("ThermalLossChannel", 1), ("Thermal", 0), ("Dgate", 0), ("Coherent", 0), ("DisplacedSqueezed", 0)}


def selftest():
    refsim.selftest()
    assert abs(evaluate(["add", ["mul", 2.0, ["free", "a"]], ["fn", "sin", ["free", "b"]]], {"a": 0.5, "b": 0.3}) - (1.0 + math.sin(0.3))) < 1e-15
    assert abs(evaluate(["fn2", "atan2", ["free", "a"], -1.0], {"a": 0.5}) - math.atan2(0.5, -1.0)) < 1e-15


# ---------------------------------------------------------------------------------------------
# expression trees
# ---------------------------------------------------------------------------------------------
def evaluate(ast, env):
    if not isinstance(ast, list):
        return float(ast)
    k = ast[0]
    if k == "free":
        return float(env[ast[1]])
    if k == "meas":
        return float(env["q%d" % ast[1]])
    if k == "add":
        return evaluate(ast[1], env) + evaluate(ast[2], env)
    if k == "mul":
        return evaluate(ast[1], env) * evaluate(ast[2], env)
    if k == "neg":
        return -evaluate(ast[1], env)
    if k == "fn":
        x = evaluate(ast[2], env)
        return {"sin": math.sin, "cos": math.cos, "exp": math.exp, "sqrt": lambda v: math.sqrt(abs(v)), "Abs": abs, "tanh": math.tanh}[ast[1]](x)
    if k == "fn2":
        # sympy does not distinguish -0.0 from 0.0 (atan2(-0.0, -1) = pi there, -pi in IEEE arithmetic): normalise the sign of zero
        return math.atan2(evaluate(ast[2], env) + 0.0, evaluate(ast[3], env) + 0.0)
    raise ValueError(ast)


def to_sympy(ast, prog, q):
    import strawberryfields as sf

    if not isinstance(ast, list):
        return float(ast)
    k = ast[0]
    if k == "free":
        return prog.params(ast[1])
    if k == "meas":
        return q[ast[1]].par
    if k == "add":
        return to_sympy(ast[1], prog, q) + to_sympy(ast[2], prog, q)
    if k == "mul":
        return to_sympy(ast[1], prog, q) * to_sympy(ast[2], prog, q)
    if k == "neg":
        return -to_sympy(ast[1], prog, q)
    if k == "fn":
        x = to_sympy(ast[2], prog, q)
        if ast[1] == "sqrt":
            return sf.math.sqrt(sf.math.Abs(x))
        return getattr(sf.math, ast[1])(x)
    if k == "fn2":
        return sf.math.atan2(to_sympy(ast[2], prog, q), to_sympy(ast[3], prog, q))
    raise ValueError(ast)


def symbols_of(ast):
    if not isinstance(ast, list):
        return set()
    if ast[0] in ("free",):
        return {ast[1]}
    if ast[0] == "meas":
        return {"q%d" % ast[1]}
    return set().union(*[symbols_of(x) for x in ast[1:] if isinstance(x, list)]) if any(isinstance(x, list) for x in ast[1:]) else set()


def live_symbols(ast):
    """symbols the expression really depends on after algebraic simplification (q0 * 0.0 or q0 - q0 do not depend on q0):
    decided with plain sympy symbols on the harness side, never with the repo's parameter classes"""
    import sympy

    def conv(a):
        if not isinstance(a, list):
            return sympy.Float(a) if a != 0 else sympy.Integer(0) * 1.0
        k = a[0]
        if k == "free":
            return sympy.Symbol("free_" + a[1], real=True)
        if k == "meas":
            return sympy.Symbol("q%d" % a[1], real=True)
        if k == "add":
            return conv(a[1]) + conv(a[2])
        if k == "mul":
            return conv(a[1]) * conv(a[2])
        if k == "neg":
            return -conv(a[1])
        if k == "fn":
            x = conv(a[2])
            return sympy.sqrt(sympy.Abs(x)) if a[1] == "sqrt" else getattr(sympy, a[1])(x)
        return sympy.atan2(conv(a[2]), conv(a[3]))

    return {str(x).replace("free_", "") for x in conv(ast).free_symbols}


def has_arith(ast):
    return isinstance(ast, list) and ast[0] not in ("free", "meas")


def fns_of(ast):
    if not isinstance(ast, list):
        return set()
    out = {ast[1]} if ast[0] in ("fn", "fn2") else set()
    for x in ast[1:]:
        out |= fns_of(x)
    return out


@st.composite
def expr(draw, leaves, depth=2):
    if depth == 0 or draw(st.integers(0, 3)) == 0:
        return draw(st.one_of(st.sampled_from(leaves), gen.fl(-1.0, 1.0)))
    k = draw(st.sampled_from(["add", "mul", "neg", "fn", "fn", "fn2"]))
    if k in ("add", "mul"):
        return [k, draw(expr(leaves, depth - 1)), draw(expr(leaves, depth - 1))]
    if k == "neg":
        return ["neg", draw(expr(leaves, depth - 1))]
    if k == "fn":
        return ["fn", draw(st.sampled_from(["sin", "cos", "exp", "sqrt", "Abs", "tanh"])), draw(expr(leaves, depth - 1))]
    # atan2(0, 0) is undefined in sympy (nan), and on the branch cut (y = +-0, x < 0) symbolic and IEEE evaluation legitimately
    # differ in the sign of zero: keep the second argument a positive constant (atan2 is continuous there)
    return ["fn2", "atan2", draw(expr(leaves, depth - 1)), draw(gen.fl(0.2, 1.0))]


def fit(ast, name, pos, env, energy_cap):
    """wrap the expression so that its value lies in the operation's accepted domain (same wrapping on both sides)"""
    if (name, pos) in NONNEG:
        ast = ["fn", "Abs", ast]
    if name in ("LossChannel", "ThermalLossChannel") and pos == 0:
        ast = ["fn", "Abs", ["fn", "cos", ast]]  # in [0, 1]
    else:
        v = evaluate(ast, env)
        if abs(v) > energy_cap:
            ast = ["mul", energy_cap / (abs(v) + 1e-9), ast]
    return ast


# ---------------------------------------------------------------------------------------------
# substitution
# ---------------------------------------------------------------------------------------------
@st.composite
def sub_case(draw):
    n = draw(st.integers(1, 3))
    env = {"a": draw(gen.fl(-1.0, 1.0)), "b": draw(gen.fl(-1.0, 1.0)), "c": draw(st.sampled_from([0.0, 0.5, -0.7]))}
    leaves = [["free", "a"], ["free", "b"], ["free", "c"]]
    ops_ = draw(gen.op_list(n, FAMS, "ps", 1, 6))
    for o in ops_:
        for j, p in enumerate(o[1]):
            if isinstance(p, float) and draw(st.booleans()):
                cap = 0.8 if o[0] in ("Sgate", "S2gate", "Squeezed", "Pgate", "CXgate", "CZgate") or (o[0] == "DisplacedSqueezed" and j == 2) else 3.0
                o[1][j] = fit(draw(expr(leaves)), o[0], j, env, cap)
    target = draw(st.sampled_from(["default", "default", "gaussian", "bosonic", "fock", "gaussian_unitary"]))
    return {"n": n, "env": env, "ops": ops_, "target": target, "optimize": draw(st.booleans()), "bind_first": draw(st.booleans()),
            "by_object": draw(st.booleans())}


def numeric_twin(ops_, env):
    out = []
    for o in ops_:
        out.append([o[0], [evaluate(p, env) if isinstance(p, list) else p for p in o[1]], o[2], o[3] if len(o) > 3 else {}])
    return out


def build_symbolic(n, ops_, parent=None):
    import strawberryfields as sf
    from strawberryfields import ops

    prog = sf.Program(n) if parent is None else sf.Program(parent)
    with prog.context as q:
        for o in ops_:
            ps = [to_sympy(p, prog, q) if isinstance(p, list) else spec.dec_param(p) for p in o[1]]
            flags = o[3] if len(o) > 3 else {}
            kw = {"select": flags["select"]} if flags.get("select") is not None else {}
            op = getattr(ops, o[0])(*ps, **kw)
            if flags.get("H"):
                op = op.H
            regs = tuple(q[m] for m in o[2])
            op | (regs if len(regs) > 1 else regs[0])
    return prog


def check_sub(ctx, case):
    import warnings

    import strawberryfields as sf
    from strawberryfields.program_utils import CircuitError

    n, env, ops_, target = case["n"], case["env"], case["ops"], case["target"]
    used = set().union(*[symbols_of(p) for o in ops_ for p in o[1]] or [set()])
    labels = ["target:" + target] + (["free"] if used else [])
    nontriv = False
    for o in ops_:
        for p in o[1]:
            if isinstance(p, list) and symbols_of(p):
                labels += ["fn:" + f for f in fns_of(p)]
                if o[0] in DECOMPOSED:
                    labels.append("decomposed_symbolic")
                if has_arith(p) and abs(evaluate(p, env)) > 1e-9:
                    nontriv = True
    if case["optimize"] and used:
        labels.append("optimised_symbolic")
    ref = spec.ref_run(n, numeric_twin(ops_, env), 2.0)
    bind = {k: env[k] for k in used}
    with warnings.catch_warnings():
        warnings.simplefilter("ignore")
        try:
            prog = build_symbolic(n, ops_)
            if case["by_object"]:
                bind_arg = {prog.free_params[k]: v for k, v in bind.items()}
            else:
                bind_arg = dict(bind)
            backend = "gaussian" if target in ("default", "gaussian", "gaussian_unitary", "fock") else "bosonic"
            run_prog = prog
            if target != "default":
                if target == "gaussian_unitary" or case["bind_first"]:
                    prog.bind_params(bind_arg)
                run_prog = prog.compile(compiler=target, optimize=case["optimize"])
            eng = sf.Engine(backend)
            np.random.seed(3)
            if target == "fock":
                # the fock target keeps MZgate/S2gate native: run the compiled circuit's specs through refsim instead of a backend
                run_prog.bind_params(bind_arg) if not case["bind_first"] else None
                got = spec.ref_run(n, spec.circuit_to_specs(run_prog.circuit), 2.0)
                mu, V = got.mu, got.V
            else:
                opts = {"optimize": True} if (case["optimize"] and target == "default") else None
                res = eng.run(run_prog, args=bind_arg if not (target != "default" and (target == "gaussian_unitary" or case["bind_first"])) else None,
                              compile_options=opts)
                mu, V, _ = sfrun.moments_of(res.state, backend, 2.0)
        except CircuitError:
            ctx.note(case, False, ["rejected:" + target])
            return None
        except (NotImplementedError,) as exc:
            ctx.note(case, False, ["rejected:" + target])
            return None
        except Exception as exc:  # pylint: disable=broad-except
            # the property compares with the numerically substituted circuit: if that one is rejected in the same way (same exception
            # type through the same target), the symbolic program behaved exactly like it (the rejection itself is another property's subject)
            try:
                twin = spec.build_program(n, numeric_twin(ops_, env))
                if target != "default":
                    twin = twin.compile(compiler=target, optimize=case["optimize"])
                if target != "fock":
                    sf.Engine(backend).run(twin, compile_options={"optimize": True} if (case["optimize"] and target == "default") else None)
                twin_exc = None
            except Exception as exc2:  # pylint: disable=broad-except
                twin_exc = exc2
            if twin_exc is not None and type(twin_exc) is type(exc):
                ctx.note(case, False, labels + ["both_raise:" + type(exc).__name__])
                return None
            ctx.note(case, True, labels)
            tiny = any(isinstance(v, float) and 0 < abs(v) < 1e-5 for o in numeric_twin(ops_, env) for v in o[1])
            if target == "gaussian_unitary" and isinstance(exc, ValueError) and "not unitary" in str(exc) and tiny:
                # C17 finding N3: bloch_messiah on a symplectic matrix with a squeezing of ~1e-9 is numerically chaotic
                return ctx.fail("bloch_messiah.near_degenerate_cluster_split_by_rounding", "gaussian_unitary output with a nearly vanishing squeezing cannot be decomposed: " + str(exc)[:60])
            return ctx.crash(exc, "symbolic." + target)
    ctx.note(case, nontrivial=nontriv, labels=labels)
    d = max(float(np.max(np.abs(mu - ref.mu))), float(np.max(np.abs(V - ref.V))))
    if d > 1e-7 * (1 + float(np.max(np.abs(ref.V)))):
        return ctx.fail("substitution.state_differs.%s%s" % (target, ".optimize" if case["optimize"] else ""), "symbolic program (bound %s) differs from its numerically substituted twin by %.3g" % (bind, d))
    return None


# ---------------------------------------------------------------------------------------------
# measured parameters
# ---------------------------------------------------------------------------------------------
@st.composite
def meas_case(draw):
    n = draw(st.integers(2, 3))
    steps = []
    vals = {}
    pre = draw(gen.op_list(n, ["Sgate", "BSgate", "Dgate", "Rgate"], "ps", 1, 3))
    # two-segment variant: the first segment (no feed-forward in it, see F7) measures / re-prepares / re-measures, the second
    # segment, built with Program(first) and run on the same engine, uses the outcomes
    two_seg = draw(st.integers(0, 3)) == 0
    n1 = draw(st.integers(1, 4)) if two_seg else 0
    cut = None
    for it in range(n1 + draw(st.integers(1, 5))):
        if two_seg and it == n1:
            cut = len(steps)
        if it < n1:
            k = draw(st.sampled_from(["measure", "measure", "remeasure", "remeasure", "reprepare", "gate"]))
        else:
            k = draw(st.sampled_from(["measure", "measure", "remeasure", "use", "use", "use", "use_twice", "reprepare", "gate"]))
        if k in ("measure", "remeasure"):
            m = draw(st.sampled_from(sorted(vals))) if k == "remeasure" and vals else draw(st.integers(0, n - 1))
            v = draw(gen.fl(-0.8, 0.8))
            steps.append(["MeasureHomodyne", [draw(st.sampled_from([0.0, 0.7]))], [m], {"select": v}])
            vals[m] = v
        elif k == "use":
            srcs = sorted(vals) if vals and draw(st.integers(0, 5)) > 0 else list(range(n))
            src = draw(st.sampled_from(srcs))
            tgt = draw(st.sampled_from([j for j in range(n) if j != src] or [src]))
            fam = draw(st.sampled_from(["Dgate", "Rgate", "Sgate", "Xgate", "Zgate", "BSgate"]))
            e = draw(expr([["meas", src]], 1))
            if not symbols_of(e):
                e = ["mul", 0.5, ["meas", src]]
            if fam == "Dgate":
                ps = [["fn", "Abs", e], 0.3]
            elif fam == "Sgate":
                ps = [["fn", "tanh", e], 0.2]
            elif fam == "BSgate":
                ps = [e, 0.1]
            else:
                ps = [e]
            modes = [tgt] if fam != "BSgate" else [tgt, [j for j in range(n) if j != tgt][0]]
            steps.append([fam, ps, modes, {"H": True} if draw(st.integers(0, 3)) == 0 else {}])
        elif k == "use_twice":
            # two neighbouring gates of one family on one mode, both fed by the same measured mode (what an optimiser may try to merge)
            srcs = sorted(vals) or list(range(n))
            src = draw(st.sampled_from(srcs))
            tgt = draw(st.sampled_from([j for j in range(n) if j != src] or [src]))
            fam = draw(st.sampled_from(["Rgate", "Xgate", "Zgate", "Dgate"]))
            for _k in range(2):
                e = draw(expr([["meas", src]], 1))
                if not symbols_of(e):
                    e = ["mul", 0.5, ["meas", src]]
                steps.append([fam, [["fn", "Abs", e], 0.3] if fam == "Dgate" else [e], [tgt], {}])
        elif k == "reprepare":
            m = draw(st.integers(0, n - 1))
            steps.append(["Squeezed", [draw(gen.fl(-0.5, 0.5)), 0.3], [m], {}])
        else:
            steps += draw(gen.op_list(n, ["BSgate", "Rgate"], "ps", 1, 1))
    return {"n": n, "pre": pre, "steps": steps, "target": draw(st.sampled_from(["default", "default", "gaussian", "bosonic"])),
            "optimize": draw(st.sampled_from([None, None, "optimize", "compile"])), "cut": cut}


def check_meas(ctx, case):
    import warnings

    import strawberryfields as sf
    from strawberryfields.parameters import ParameterError

    n, steps, target = case["n"], case["steps"], case["target"]
    # oracle: walk the program, substituting the most recent outcome; detect use-before-measure
    vals = {}
    numeric = list(case["pre"])
    early = False
    nmeas = {}
    labels = ["measured", "target:" + target]
    for o in steps:
        if o[0] == "MeasureHomodyne":
            vals["q%d" % o[2][0]] = o[3]["select"]
            nmeas[o[2][0]] = nmeas.get(o[2][0], 0) + 1
            numeric.append(o)
            continue
        syms = set().union(*[live_symbols(p) for p in o[1] if isinstance(p, list)] or [set()])
        if any(s not in vals for s in syms):
            early = True
            break
        if syms and any(nmeas.get(int(s[1:]), 0) >= 2 for s in syms):
            labels.append("remeasure")
        full = dict({"q%d" % j: 0.0 for j in range(n)}, **vals)  # symbols that cancel out may be unmeasured
        numeric.append([o[0], [evaluate(p, full) if isinstance(p, list) else p for p in o[1]], o[2], o[3]])
    if early:
        labels.append("use_before_measure")
    with warnings.catch_warnings():
        warnings.simplefilter("ignore")
        try:
            backend = "bosonic" if target == "bosonic" else "gaussian"
            cut = case.get("cut")
            opt = case.get("optimize")
            if cut is not None and backend == "bosonic":
                cut = None  # F10 (open): the bosonic engine restarts per program; a single program is run there
            if cut is not None:
                labels.append("two_segments")
            if opt:
                labels.append("optimised_measured")

            def prepare(pr):
                if opt == "optimize":
                    pr = pr.optimize()
                if opt == "compile":
                    return pr.compile(compiler=target if target != "default" else backend, optimize=True)
                return pr if target == "default" else pr.compile(compiler=target)

            np.random.seed(3)
            eng = sf.Engine(backend)
            if cut is None:
                res = eng.run(prepare(build_symbolic(n, list(case["pre"]) + steps)))
            else:
                p1 = build_symbolic(n, list(case["pre"]) + steps[:cut])
                eng.run(prepare(p1))
                res = eng.run(prepare(build_symbolic(n, steps[cut:], parent=p1)))
        except ParameterError as exc:
            ctx.note(case, True, labels)
            if early:
                return None
            return ctx.fail("measured.parameter_error_on_valid_program", "ParameterError although every measured parameter is used after its measurement: %s" % str(exc)[:120])
        except Exception as exc:  # pylint: disable=broad-except
            ctx.note(case, True, labels)
            return ctx.crash(exc, "measured." + target)
    ctx.note(case, nontrivial=True, labels=labels)
    if early:
        return ctx.fail("measured.used_before_measurement_accepted", "a gate used the measured value of a mode before any measurement of it and the program ran")
    ref = spec.ref_run(n, numeric, 2.0)
    mu, V, _ = sfrun.moments_of(res.state, backend, 2.0)
    d = max(float(np.max(np.abs(mu - ref.mu))), float(np.max(np.abs(V - ref.V))))
    if d > 2e-5 * (1 + float(np.max(np.abs(ref.V)))):
        return ctx.fail("measured.state_differs.%s" % target, "program with measured parameters differs from the twin with the most recent outcomes substituted by %.3g" % d)
    return None


# ---------------------------------------------------------------------------------------------
# error contract
# ---------------------------------------------------------------------------------------------
@st.composite
def err_case(draw):
    return {"kind": draw(st.sampled_from(["unbound", "unknown_name", "unknown_object", "partial"])), "fam": draw(st.sampled_from(["Rgate", "Sgate", "Xgate", "BSgate", "LossChannel", "Dgate"])),
            "value": draw(gen.fl(0.1, 0.9)), "compile": draw(st.sampled_from([None, "gaussian", "bosonic"])), "dagger": draw(st.booleans())}


def check_err(ctx, case):
    import warnings

    import strawberryfields as sf
    from strawberryfields import ops
    from strawberryfields.parameters import FreeParameter, ParameterError

    kind, fam = case["kind"], case["fam"]
    prog = sf.Program(2)
    a, b = prog.params("a", "b")
    dag = bool(case.get("dagger")) and fam != "LossChannel"
    with prog.context as q:
        ops.Squeezed(0.3, 0.4) | q[0]
        ops.Coherent(0.5, 0.2) | q[1]
        op = ops.BSgate(a, b) if fam == "BSgate" else (ops.Dgate(a, 0.3) if fam == "Dgate" else (ops.Sgate(a, 0.3) if fam == "Sgate" else getattr(ops, fam)(a)))
        if dag:
            op = op.H
        op | ((q[0], q[1]) if fam == "BSgate" else q[0])
        ops.Rgate(b) | q[1]
    labels = [("unbound" if kind in ("unbound", "partial") else "unknown_name")] + (["error_then_rerun_dagger"] if dag else [])
    ctx.note(case, nontrivial=True, labels=labels)
    args = {"unbound": None, "partial": {"a": case["value"]}, "unknown_name": {"a": case["value"], "b": 0.1, "zz": 1.0},
            "unknown_object": {"a": case["value"], "b": 0.1, FreeParameter("other"): 1.0}}[kind]
    with warnings.catch_warnings():
        warnings.simplefilter("ignore")
        try:
            run_prog = prog if case["compile"] is None else prog.compile(compiler=case["compile"])
            res = sf.Engine("gaussian" if case["compile"] != "bosonic" else "bosonic").run(run_prog, args=args)
        except ParameterError:
            # the refused run must leave the program usable: with every parameter bound it computes what its numeric twin computes
            be = "gaussian" if case["compile"] != "bosonic" else "bosonic"
            try:
                res2 = sf.Engine(be).run(run_prog, args={"a": case["value"], "b": 0.1})
            except Exception as exc:  # pylint: disable=broad-except
                return ctx.crash(exc, "errors.rerun_after_parameter_error")
            v = case["value"]
            tw = [["Squeezed", [0.3, 0.4], [0], {}], ["Coherent", [0.5, 0.2], [1], {}],
                  [fam, [v, 0.1] if fam == "BSgate" else ([v, 0.3] if fam in ("Dgate", "Sgate") else [v]), [0, 1] if fam == "BSgate" else [0], {"H": True} if dag else {}],
                  ["Rgate", [0.1], [1], {}]]
            ref = spec.ref_run(2, tw, 2.0)
            mu, V, _ = sfrun.moments_of(res2.state, be, 2.0)
            d = max(float(np.max(np.abs(mu - ref.mu))), float(np.max(np.abs(V - ref.V))))
            if d > 1e-7 * (1 + float(np.max(np.abs(ref.V)))):
                return ctx.fail("errors.program_changed_by_refused_run", "after a run refused with ParameterError the same program, run with all parameters bound, differs from its numeric twin by %.3g (%s%s)" % (d, fam, ".H" if dag else ""))
            return None
        except Exception as exc:  # pylint: disable=broad-except
            return ctx.fail("errors.%s.wrong_exception.%s" % (kind, type(exc).__name__), "expected ParameterError, got %s: %s" % (type(exc).__name__, str(exc)[:120]))
    return ctx.fail("errors.%s.accepted" % kind, "the program ran (means %s) although %s" % (np.round(np.asarray(res.state.means()).real, 3).tolist() if hasattr(res.state, "means") else "?", {"unbound": "no parameter was bound", "partial": "parameter b was not bound", "unknown_name": "an unknown name was bound", "unknown_object": "a foreign FreeParameter was bound"}[kind]))


# ---------------------------------------------------------------------------------------------
# isolation between programs (F7)
# ---------------------------------------------------------------------------------------------
@st.composite
def iso_case(draw):
    return {"va": draw(gen.fl(0.1, 0.9)), "vb": draw(gen.fl(-0.9, -0.1)), "kind": draw(st.sampled_from(["free", "measured"]))}


def check_iso(ctx, case):
    import warnings

    import strawberryfields as sf
    from strawberryfields import ops
    from strawberryfields.parameters import ParameterError

    ctx.note(case, nontrivial=True, labels=["two_programs_same_names", "iso:" + case["kind"]])
    with warnings.catch_warnings():
        warnings.simplefilter("ignore")
        if case["kind"] == "free":
            A = sf.Program(1)
            with A.context as q:
                ops.Xgate(A.params("a")) | q[0]
            B = sf.Program(1)
            with B.context as q:
                ops.Xgate(B.params("a")) | q[0]
            A.bind_params({"a": case["va"]})
            B.bind_params({"a": case["vb"]})
            try:
                x = float(sf.Engine("gaussian").run(A).state.means()[0])
            except Exception as exc:  # pylint: disable=broad-except
                return ctx.crash(exc, "isolation.free")
            if abs(x - case["va"]) > 1e-9:
                if A.params("a") is B.params("a") and abs(x - case["vb"]) < 1e-9:
                    return ctx.fail("F7.symbols_cached_by_name.free", "binding a=%.3f in program B changed program A (its Xgate displaced by %.3f instead of %.3f): both programs share one FreeParameter object" % (case["vb"], x, case["va"]))
                return ctx.fail("isolation.free.other", "program A displaced by %.6f, expected %.6f" % (x, case["va"]))
            return None
        A = sf.Program(2)
        with A.context as q:
            ops.MeasureHomodyne(0.0, select=case["va"]) | q[0]
            ops.Xgate(q[0].par) | q[1]
        B = sf.Program(2)
        with B.context as q:
            ops.MeasureHomodyne(0.0, select=case["vb"]) | q[0]
            ops.Xgate(q[0].par) | q[1]
        try:
            x = float(sf.Engine("gaussian").run(A).state.means()[1])
        except ParameterError as exc:
            return ctx.fail("F7.symbols_cached_by_name.measured", "building program B re-bound program A's measured parameter q0 to B's register: running A raises %s" % str(exc)[:80])
        except Exception as exc:  # pylint: disable=broad-except
            return ctx.crash(exc, "isolation.measured")
        if abs(x - case["va"]) > 1e-6:
            return ctx.fail("isolation.measured.other", "program A displaced by %.6f, expected %.6f" % (x, case["va"]))
        return None


# ---------------------------------------------------------------------------------------------
# several modes measured by ONE command, in any listed order, then used as parameters
# ---------------------------------------------------------------------------------------------
@st.composite
def mm_case(draw):
    n = draw(st.sampled_from([3, 3, 4]))
    k = draw(st.integers(2, n - 1))
    modes = list(draw(st.permutations(list(range(n))))[:k])
    nums = list(draw(st.permutations([0, 1, 2, 3][:max(k, 3)]))[:n]) + [0] * n
    nums = nums[:n]
    rest = [m for m in range(n) if m not in modes]
    uses = [[draw(st.sampled_from(modes)), draw(st.sampled_from([0.05, 0.08, 0.11]))] for _ in range(draw(st.integers(1, 2)))]
    return {"n": n, "modes": modes, "nums": nums, "target": draw(st.sampled_from(rest)), "uses": uses, "kind": "MeasureFock",  # (MeasureThreshold is not accepted by the fock compiler)
            "pure": draw(st.booleans())}


def check_mm(ctx, case):
    """Fock inputs make the outcomes deterministic: q[m].par must be the outcome of mode m whatever the order in which the modes were listed"""
    import warnings

    import strawberryfields as sf
    from strawberryfields import ops

    n, modes, nums, tgt = case["n"], case["modes"], case["nums"], case["target"]
    labels = ["measured", "multi_mode_measurement", "type:" + case["kind"]] + (["unsorted_measured_modes"] if modes != sorted(modes) else [])
    ctx.note(case, nontrivial=True, labels=labels)
    val = (lambda m: nums[m]) if case["kind"] == "MeasureFock" else (lambda m: int(nums[m] > 0))
    with warnings.catch_warnings():
        warnings.simplefilter("ignore")
        try:
            prog = sf.Program(n)
            with prog.context as q:
                for m in range(n):
                    if m != tgt:
                        ops.Fock(nums[m]) | q[m]
                getattr(ops, case["kind"])() | tuple(q[m] for m in modes)
                for src, c in case["uses"]:
                    ops.Dgate(c * q[src].par, 0.0) | q[tgt]
            np.random.seed(2)
            res = sf.Engine("fock", backend_options={"cutoff_dim": 6, "pure": case["pure"]}).run(prog)
        except Exception as exc:  # pylint: disable=broad-except
            return ctx.crash(exc, "measured_multi")
    want = sum(c * val(src) for src, c in case["uses"])
    got = res.state.quad_expectation(tgt, 0.0)[0] / 2.0  # hbar = 2: <x> = 2 Re(alpha)
    for m in modes:
        v = res.samples_dict.get(m)
        if v is None or int(np.ravel(v[-1])[0]) != val(m):
            return ctx.fail("measured_multi.samples_dict", "samples_dict[%d] = %r, the (deterministic) outcome of that mode is %d" % (m, v, val(m)))
    if abs(got - want) > 5e-3:
        return ctx.fail("measured_multi.wrong_value_used", "%s on modes %s (Fock inputs %s): Dgate(sum c q[src].par) gave amplitude %.4f, the outcomes imply %.4f (uses %s)" % (
            case["kind"], modes, [nums[m] for m in modes], got, want, case["uses"]))
    return None


SUBS = [
    Sub("substitution", check=check_sub, strategy=lambda ctx: sub_case(), examples={"quick": 500, "thorough": 5000}, shards={"quick": 3, "thorough": 16},
        rule="expression trees over free parameters on every Gaussian family, all compile targets, optimize on/off, bind by name/object, before/after compile"),
    Sub("measured", check=check_meas, strategy=lambda ctx: meas_case(), examples={"quick": 500, "thorough": 5000}, shards={"quick": 1, "thorough": 16},
        rule="measure / use / re-prepare / re-measure histories with select: most recent outcome; use before measurement raises"),
    Sub("measured_multi", check=check_mm, strategy=lambda ctx: mm_case(), examples={"quick": 120, "thorough": 1500}, shards={"quick": 1, "thorough": 8},
        rule="one MeasureFock / MeasureThreshold on 2..3 modes listed in any order (Fock inputs: deterministic outcomes), then gates using q[m].par: fock backend"),
    Sub("errors", check=check_err, strategy=lambda ctx: err_case(), examples={"quick": 150, "thorough": 600}, shards={"quick": 1, "thorough": 2},
        rule="unbound / partially bound / unknown parameters raise ParameterError"),
    Sub("isolation", check=check_iso, strategy=lambda ctx: iso_case(), examples={"quick": 20, "thorough": 100}, shards={"quick": 1, "thorough": 1},
        rule="two programs with the same parameter names do not influence each other"),
]

MANIFEST = {
    "technique": "Hypothesis differential testing: symbolic program (bound through the public API) vs numerically substituted twin evaluated by the harness and refsim",
    "text": ("Generated expression trees over free and measured parameters are built as sympy expressions in the program and evaluated "
             "independently by the harness; the symbolic program, through every compile target, decomposition and optimisation, must reach "
             "the state refsim computes for the substituted twin; measured parameters must take the most recent outcome and raise before "
             "measurement; unbound or unknown parameters must raise ParameterError."),
}
