"""C15 - physical predictions are independent of the hbar convention.

Metamorphic: the same experiment is built at two values hbar1 != hbar2, with the dimensionful arguments rescaled by
their documented units (position/momentum arguments and homodyne ``select`` ~ sqrt(hbar); ``Gaussian(V, r)``: V ~ hbar,
r ~ sqrt(hbar); Vgate gamma ~ hbar^-1/2; everything else dimensionless).  Dimensionless outputs must be equal, quadrature
means scale with sqrt(hbar2/hbar1), covariances and Wigner arguments with hbar2/hbar1.  refsim at both values is a second
opinion for the Gaussian programs.
"""
from __future__ import annotations

import numpy as np
from hypothesis import strategies as st

from vf import fockref, gen, refsim, sfrun, spec
from vf.core import Sub

RULE = ("programs of 1..3 modes that contain at least one hbar-sensitive operation (Xgate, Zgate, Vgate, Gaussian(V, r), "
        "MeasureHomodyne(select), plus Pgate/CXgate/CZgate/Coherent/DisplacedSqueezed/MSgate whose arguments are dimensionless) "
        "built at two hbar values drawn from (0.2, 4]; non-trivial = such an operation has a non-zero argument")
ASSUMPTIONS = [
    "TensorFlow backend not exercised (not installed)",
    "tolerances: phase space 1e-8 relative to scale (2e-5 when a homodyne post-selection is involved: finite-squeezing POVM of the "
    "gaussian backend); Fock density tensors 1e-8 (identical truncation at both hbar values; 1e-5 with homodyne select)",
    "unit conventions taken from the ops.py docstrings: X(x)=exp(-i x p/hbar), Z(p)=exp(i p x/hbar), P(s)=exp(i s x^2/2hbar), "
    "V(gamma)=exp(i gamma x^3/3hbar), CX/CZ s dimensionless",
]
REQUIRED_LABELS = {"all": ["backend:gaussian", "backend:bosonic", "backend:fock", "op:Xgate", "op:Zgate", "op:Gaussian", "op:MeasureHomodyne",
                           "op:Vgate", "api:wigner", "api:quad_expectation"]}

G_ALPH = ["Xgate", "Zgate", "Pgate", "CXgate", "CZgate", "Coherent", "DisplacedSqueezed", "Dgate", "Sgate", "BSgate", "Rgate", "S2gate",
          "LossChannel", "Thermal", "MZgate", "Fouriergate"]
SENSITIVE = {"Xgate", "Zgate", "Vgate", "Gaussian", "MeasureHomodyne", "Pgate", "CXgate", "CZgate", "Coherent", "DisplacedSqueezed"}


def selftest():
    refsim.selftest()


def rescale(ops_, f):
    """arguments given in hbar1 units -> hbar2 units, f = sqrt(hbar2/hbar1)"""
    out = []
    for o in ops_:
        name, params, modes = o[0], list(o[1]), o[2]
        flags = dict(o[3]) if len(o) > 3 else {}
        if name in ("Xgate", "Zgate"):
            params[0] = params[0] * f
        elif name == "Vgate":
            params[0] = params[0] / f
        elif name == "Gaussian":
            V = spec.dec_param(params[0]) * f * f
            params[0] = spec.enc_matrix(V)
            if len(params) > 1 and params[1] is not None:
                params[1] = spec.enc_vec(spec.dec_param(params[1]) * f)
        elif name == "MeasureHomodyne" and flags.get("select") is not None:
            flags["select"] = flags["select"] * f
        out.append([name, params, modes, flags])
    return out


@st.composite
def gen_case(draw, fock=False):
    n = draw(st.integers(1, 3 if not fock else 2))
    h1 = draw(st.sampled_from([2.0, 1.0, 0.5, 0.7, 3.3]))
    h2 = draw(gen.fl(0.2, 4.0).filter(lambda x: abs(x - h1) > 0.05))
    energy = "fock" if fock else "ps"
    alph = G_ALPH + (["Vgate", "Kgate", "Fock"] if fock else [])
    ops_ = draw(gen.op_list(n, alph, energy, 1, 6, no_mz_dagger=fock))
    # make sure an hbar-sensitive operation is present
    kind = draw(st.sampled_from(["Xgate", "Zgate", "Gaussian", "MeasureHomodyne", "Vgate" if fock else "Xgate", "none"]))
    m = draw(st.integers(0, n - 1))
    if kind in ("Xgate", "Zgate"):
        ops_.insert(draw(st.integers(0, len(ops_))), [kind, [draw(gen.fl(-1.0, 1.0)) * np.sqrt(h1 / 2) * (0.5 if fock else 1)], [m], {"H": True} if draw(st.booleans()) else {}])
    elif kind == "Vgate":
        ops_.insert(draw(st.integers(0, len(ops_))), ["Vgate", [draw(gen.fl(-0.05, 0.05)) / np.sqrt(h1 / 2)], [m], {}])
    elif kind == "Gaussian" and not fock:
        k = draw(st.integers(1, n))
        modes = list(draw(st.permutations(list(range(n))))[:k])
        _, V = draw(gen.covariance(k, h1, ["pure_generic", "mixed_generic", "thermal", "mixed_diag"]))
        r = [draw(gen.fl(-1.0, 1.0)) * np.sqrt(h1 / 2) for _ in range(2 * k)]
        ops_.insert(draw(st.integers(0, len(ops_))), ["Gaussian", [spec.enc_matrix(V), spec.enc_vec(r)], modes, {"kw": {"decomp": draw(st.booleans())}}])
    elif kind == "MeasureHomodyne":
        ops_.append(["MeasureHomodyne", [draw(gen.angle())], [m], {"select": draw(gen.fl(-1.0, 1.0)) * np.sqrt(h1 / 2) * (0.4 if fock else 1)}])
    return {"n": n, "h1": h1, "h2": h2, "ops": ops_}


def _gauss_op_specs(ops_):
    """Gaussian(V, r) spec in the form make_op understands: r as keyword"""
    out = []
    for o in ops_:
        if o[0] == "Gaussian":
            kw = dict((o[3] or {}).get("kw", {}))
            kw["r"] = o[1][1]
            out.append(["Gaussian", [o[1][0]], o[2], {"kw": {k: (spec.dec_param(v) if isinstance(v, dict) else v) for k, v in kw.items()}}])
        else:
            out.append(o)
    return out


def _labels(ops_):
    return sorted({"op:" + o[0] for o in ops_})


def _nontrivial(ops_):
    for o in ops_:
        if o[0] in SENSITIVE:
            if o[0] == "MeasureHomodyne" or o[0] == "Gaussian" or any(isinstance(p, float) and p != 0 for p in o[1][:1]):
                return True
    return False


def check_ps(ctx, case):
    n, h1, h2, ops1 = case["n"], case["h1"], case["h2"], case["ops"]
    f = np.sqrt(h2 / h1)
    ops2 = rescale(ops1, f)
    has_hom = any(o[0] == "MeasureHomodyne" for o in ops1)
    labels = _labels(ops1)
    ran = []
    for be in ("gaussian", "bosonic"):
        try:
            s1 = sfrun.run(be, n, _gauss_op_specs(ops1), h1, seed=5).state
            s2 = sfrun.run(be, n, _gauss_op_specs(ops2), h2, seed=5).state
        except sfrun.Rejected:
            labels.append("rejected:" + be)
            continue
        except ValueError as exc:
            if "not unitary" in str(exc):  # C02 finding F38 (bloch_messiah) reached through Gaussian(V) decomposition
                labels.append("skipped_F38")
                continue
            ctx.note(case, True, labels)
            return ctx.crash(exc, be)
        except Exception as exc:  # pylint: disable=broad-except
            ctx.note(case, True, labels)
            return ctx.crash(exc, be)
        ran.append(be)
        labels.append("backend:" + be)
        m1, V1, _ = sfrun.moments_of(s1, be, h1)
        m2, V2, _ = sfrun.moments_of(s2, be, h2)
        tol = (2e-5 if has_hom else 1e-8) * (1 + float(np.max(np.abs(V1))) / (h1 / 2))
        dm = float(np.max(np.abs(m2 / np.sqrt(h2) - m1 / np.sqrt(h1))))
        dv = float(np.max(np.abs(V2 / h2 - V1 / h1)))
        if dm > tol or dv > tol:
            return _fail(ctx, case, labels, "%s.moments_not_covariant" % be, "means/sqrt(hbar) differ by %.3g, cov/hbar by %.3g between hbar=%g and hbar=%g" % (dm, dv, h1, h2), be)
        # state API
        if be == "gaussian" or not has_hom:
            mode = 0
            for name, fn, scale in (
                ("mean_photon", lambda s: np.array(s.mean_photon(mode), float), 1.0),
                ("fidelity_vacuum", lambda s: np.array([s.fidelity_vacuum()], float), 1.0),
                ("fock_prob0", lambda s: np.array([s.fock_prob([0] * n, cutoff=5)], float), 1.0),
            ):
                try:
                    a, b = fn(s1), fn(s2)
                except Exception as exc:  # pylint: disable=broad-except
                    ctx.note(case, True, labels)
                    return ctx.crash(exc, "%s.%s" % (be, name))
                if float(np.max(np.abs(a - b))) > 1e3 * tol * (1 + float(np.max(np.abs(a)))):
                    return _fail(ctx, case, labels, "%s.api.%s_depends_on_hbar" % (be, name), "%s = %s at hbar=%g but %s at hbar=%g" % (name, a, h1, b, h2), be)
            labels += ["api:quad_expectation", "api:wigner"]
            q1 = np.array(s1.quad_expectation(mode, 0.3), float)
            q2 = np.array(s2.quad_expectation(mode, 0.3), float)
            if abs(q2[0] / np.sqrt(h2) - q1[0] / np.sqrt(h1)) > 10 * tol or abs(q2[1] / h2 - q1[1] / h1) > 10 * tol:
                return _fail(ctx, case, labels, "%s.api.quad_expectation_not_covariant" % be, "quad_expectation %s (hbar %g) vs %s (hbar %g)" % (q1, h1, q2, h2), be)
            xv = np.array([-0.7, 0.1, 0.9]) * np.sqrt(h1 / 2)
            pv = np.array([-0.3, 0.5]) * np.sqrt(h1 / 2)
            W1 = np.array(s1.wigner(mode, xv, pv), float)
            W2 = np.array(s2.wigner(mode, xv * f, pv * f), float)
            if float(np.max(np.abs(W2 * f * f - W1))) > 1e3 * tol * (1 + float(np.max(np.abs(W1)))):
                return _fail(ctx, case, labels, "%s.api.wigner_not_covariant" % be, "W2(fx, fp) f^2 differs from W1(x, p) by %.3g" % float(np.max(np.abs(W2 * f * f - W1))), be)
    # second opinion: refsim at both values (Gaussian programs only)
    try:
        r1 = spec.ref_run(n, [o if o[0] != "Gaussian" else ["Gaussian", o[1], o[2], {}] for o in ops1], h1)
        r2 = spec.ref_run(n, [o if o[0] != "Gaussian" else ["Gaussian", o[1], o[2], {}] for o in ops2], h2)
        if float(np.max(np.abs(r2.V / h2 - r1.V / h1))) > 1e-9 * (1 + float(np.max(np.abs(r1.V)))) or float(np.max(np.abs(r2.mu / np.sqrt(h2) - r1.mu / np.sqrt(h1)))) > 1e-9 * (1 + float(np.max(np.abs(r1.mu)))):
            raise AssertionError("harness rescaling rules are inconsistent with refsim for %r" % (case,))
    except refsim.RefError:
        pass
    ctx.note(case, nontrivial=bool(ran) and _nontrivial(ops1), labels=labels)
    return None


def _fail(ctx, case, labels, sig, detail, be):
    ctx.note(case, True, labels)
    # root-cause label: the hbar-sensitive operation classes present
    sens = sorted({o[0] for o in case["ops"] if o[0] in ("Xgate", "Zgate", "Vgate", "Gaussian", "MeasureHomodyne")})
    return ctx.fail(sig + "." + "+".join(sens or ["none"]), detail)


def check_fock(ctx, case):
    n, h1, h2, ops1 = case["n"], case["h1"], case["h2"], case["ops"]
    f = np.sqrt(h2 / h1)
    ops2 = rescale(ops1, f)
    has_hom = any(o[0] == "MeasureHomodyne" for o in ops1)
    labels = _labels(ops1)
    D = 7
    try:
        s1 = sfrun.run("fock", n, ops1, h1, D, True, seed=5).state
        s2 = sfrun.run("fock", n, ops2, h2, D, True, seed=5).state
    except sfrun.Rejected:
        ctx.note(case, False, labels + ["rejected:fock"])
        return None
    except Exception as exc:  # pylint: disable=broad-except
        ctx.note(case, True, labels)
        return ctx.crash(exc, "fock")
    labels.append("backend:fock")
    r1, r2 = fockref.state_dm(s1), fockref.state_dm(s2)
    tol = 1e-5 if has_hom else 1e-8
    d = float(np.max(np.abs(r1 - r2)))
    if d > tol:
        return _fail(ctx, case, labels, "fock.state_depends_on_hbar", "density tensors at hbar=%g and hbar=%g differ by %.3g" % (h1, h2, d), "fock")
    labels += ["api:quad_expectation", "api:wigner"]
    q1 = np.array(s1.quad_expectation(0, 0.3), float)
    q2 = np.array(s2.quad_expectation(0, 0.3), float)
    if abs(q2[0] / np.sqrt(h2) - q1[0] / np.sqrt(h1)) > 1e3 * tol or abs(q2[1] / h2 - q1[1] / h1) > 1e3 * tol:
        return _fail(ctx, case, labels, "fock.api.quad_expectation_not_covariant", "quad_expectation %s (hbar %g) vs %s (hbar %g)" % (q1, h1, q2, h2), "fock")
    xv = np.array([-0.7, 0.1, 0.9]) * np.sqrt(h1 / 2)
    pv = np.array([-0.3, 0.5]) * np.sqrt(h1 / 2)
    W1 = np.array(s1.wigner(0, xv, pv), float)
    W2 = np.array(s2.wigner(0, xv * f, pv * f), float)
    if float(np.max(np.abs(W2 * f * f - W1))) > 1e3 * tol * (1 + float(np.max(np.abs(W1)))):
        return _fail(ctx, case, labels, "fock.api.wigner_not_covariant", "W2(fx, fp) f^2 differs from W1(x, p) by %.3g" % float(np.max(np.abs(W2 * f * f - W1))), "fock")
    ctx.note(case, nontrivial=_nontrivial(ops1), labels=labels)
    return None


SUBS = [
    Sub("phase_space", check=check_ps, strategy=lambda ctx: gen_case(False), examples={"quick": 500, "thorough": 5000},
        shards={"quick": 2, "thorough": 16}, rule="gaussian + bosonic at two hbar values with rescaled arguments; moments, state API, refsim cross-check"),
    Sub("fock", check=check_fock, strategy=lambda ctx: gen_case(True), examples={"quick": 60, "thorough": 600},
        shards={"quick": 3, "thorough": 16}, rule="fock backend at two hbar values: identical density tensors; quad_expectation / wigner covariance"),
]

MANIFEST = {
    "technique": "Hypothesis metamorphic testing: the same experiment at two hbar values with arguments rescaled by their documented units",
    "text": ("Generated programs containing the hbar-sensitive front-end operations are run at two hbar values on every backend; dimensionless "
             "results (Fock states, photon numbers, fidelities) must be equal and means / covariances / Wigner functions must scale as documented."),
}
