"""C15 - physical predictions are independent of the hbar convention.

Metamorphic: the same experiment is built at two values hbar1 != hbar2, with the dimensionful arguments rescaled by
their documented units (position/momentum arguments and homodyne ``select`` ~ sqrt(hbar); ``Gaussian(V, r)``: V ~ hbar,
r ~ sqrt(hbar); Vgate gamma ~ hbar^-1/2; everything else dimensionless).  Dimensionless outputs must be equal, quadrature
means scale with sqrt(hbar2/hbar1), covariances and Wigner arguments with hbar2/hbar1.  refsim at both values is a second
opinion for the Gaussian programs.  Sampled measurements are seeded identically at both values: homodyne outcomes scale with
sqrt(hbar), heterodyne outcomes are equal.  Sub-check utils_states: the helpers of strawberryfields/utils/states.py (hbar argument).
"""
from __future__ import annotations

import os

import numpy as np
from hypothesis import strategies as st

from vf import fockref, gen, refsim, sfrun, spec
from vf.core import Sub

RULE = ("programs of 1..3 modes that contain at least one hbar-sensitive operation (Xgate, Zgate, Vgate, Gaussian(V, r), "
        "MeasureHomodyne with select or sampled (then the samples are compared too, optionally fed forward into a later gate), "
        "MSgate average / single shot, plus Pgate/CXgate/CZgate/Coherent/DisplacedSqueezed/MeasureHeterodyne whose arguments are "
        "dimensionless; bosonic non-Gaussian preparations Catstate/Fock/GKP; nearly-unsqueezed states at the is_squeezed / is_coherent "
        "thresholds) built at two hbar values drawn from (0.2, 4] (sometimes 0.05 / 10 / 25); non-trivial = such an operation has a "
        "non-zero argument.  utils_states: the NumPy state helpers of strawberryfields.utils at two hbar values")
ASSUMPTIONS = [
    "TensorFlow backend not exercised (not installed)",
    "tolerances: phase space 1e-8 relative to scale (2e-5 when a homodyne post-selection is involved: finite-squeezing POVM of the "
    "gaussian backend); Fock density tensors 1e-8 (identical truncation at both hbar values; 1e-5 with homodyne select)",
    "unit conventions taken from the ops.py docstrings: X(x)=exp(-i x p/hbar), Z(p)=exp(i p x/hbar), P(s)=exp(i s x^2/2hbar), "
    "V(gamma)=exp(i gamma x^3/3hbar), CX/CZ s dimensionless",
    "sampled measurements: both runs are seeded identically and the simulators are hbar-free (ops.py rescales around the backend call), so "
    "the homodyne samples must agree after division by sqrt(hbar) (1e-7 relative) and heterodyne samples must be equal",
    "state-method arguments that are quadrature values (wigner / marginal / x_quad_values grids, the linear and constant coefficients of "
    "poly_quad_expectation, the (mu, cov) of fidelity) are given in units of sqrt(hbar/2), hbar/2",
    "is_squeezed / is_coherent near their thresholds: the squeezing values used keep the deviation of cov/(hbar/2) from the identity at "
    "least 5 % away from the default tolerances 1e-6 / 1e-10 for every squeezing phase",
]
REQUIRED_LABELS = {"all": ["backend:gaussian", "backend:bosonic", "backend:fock", "op:Xgate", "op:Zgate", "op:Gaussian", "op:MeasureHomodyne",
                           "op:Vgate", "api:wigner", "api:quad_expectation", "api:parity_expectation", "api:squeezing", "api:is_coherent",
                           "api:poly_quad_expectation", "api:fidelity_coherent",
                           # input classes added by the generator audit (each 40..300 cases per quick run)
                           "hom:sampled", "hom:feedforward", "op:MSgate", "MSgate:single_shot", "MSgate:avg", "op:MeasureHeterodyne",
                           "bosonic:multi_weight", "near_threshold", "gaussian:exact_branch", "hbar:extreme", "api:poly_full", "api:wigner_q",
                           "api:fidelity", "api:purity", "api:marginal", "fn:displaced_squeezed_state", "fn:squeezed_state", "fn:coherent_state",
                           "fn:squeezed_cov", "hom:select_correlated"]}

# finding F68 (fixed; formerly AUDIT-FINDING msgate-ancilla-units): Result.ancillae_samples of MSgate(avg=False) scale with 1/sqrt(hbar) (ops.py MSgate._apply returns
# ancillae_val / s, MeasureHomodyne returns s * val); the comparison of the ancilla outcomes is switched off until that is decided
CHECK_MS_ANCILLA = True  # (finding F68, fixed in /repo: the comparison is on again)

G_ALPH = ["Xgate", "Zgate", "Pgate", "CXgate", "CZgate", "Coherent", "DisplacedSqueezed", "Dgate", "Sgate", "BSgate", "Rgate", "S2gate",
          "LossChannel", "Thermal", "MZgate", "Fouriergate"]
SENSITIVE = {"Xgate", "Zgate", "Vgate", "Gaussian", "MeasureHomodyne", "Pgate", "CXgate", "CZgate", "Coherent", "DisplacedSqueezed", "MSgate",
             "MeasureHeterodyne"}


def selftest():
    refsim.selftest()


def _is_sym(p):
    return isinstance(p, list)


def _has_sym(ops_):
    return any(_is_sym(p) for o in ops_ for p in o[1])


def _build(n, oplist):
    """Program with measured parameters: a parameter ["meas", src, c] stands for c * q[src].par"""
    import strawberryfields as sf
    from strawberryfields import ops

    prog = sf.Program(n)
    with prog.context as q:
        for o in oplist:
            flags = o[3] if len(o) > 3 else {}
            op = spec.make_op(ops, o[0], o[1], flags, sym=lambda ast: ast[2] * q[ast[1]].par)
            regs = tuple(q[m] for m in o[2])
            op | (regs if len(regs) != 1 else regs[0])  # pylint: disable=expression-not-assigned
    return prog


def _run(be, n, ops_, h, seed, cutoff=6, pure=True):
    ops_ = _gauss_op_specs(ops_)
    if _has_sym(ops_):
        with sfrun.HbarCtx(h):
            prog = _build(n, ops_)
        return sfrun.run(be, n, None, h, cutoff, pure, seed=seed, prog=prog)
    return sfrun.run(be, n, ops_, h, cutoff, pure, seed=seed)


def _samples(res, ops_):
    """-> [(mode, 'sqrt' | 'dimless', values)]: homodyne outcomes are quadrature values, everything else is dimensionless"""
    kinds = {}
    for o in ops_:
        if o[0].startswith("Measure"):
            for m in o[2]:
                kinds[m] = o[0]
    sd = res.samples_dict or {}
    return [(int(m), "sqrt" if kinds.get(int(m)) == "MeasureHomodyne" else "dimless", _flat(sd[m])) for m in sorted(sd)]


def _compare_samples(a1, a2, h1, h2):
    if [x[:2] for x in a1] != [x[:2] for x in a2] or [len(x[2]) for x in a1] != [len(x[2]) for x in a2]:
        return "measured modes differ: %r at hbar=%g, %r at hbar=%g" % ([x[:2] for x in a1], h1, [x[:2] for x in a2], h2)
    for (m, kind, v1), (_, _, v2) in zip(a1, a2):
        v1, v2 = np.array(v1, complex), np.array(v2, complex)
        if kind == "sqrt":
            v1, v2 = v1 / np.sqrt(h1), v2 / np.sqrt(h2)
        if v1.size and float(np.max(np.abs(v1 - v2))) > 1e-7 * (1 + float(np.max(np.abs(v1)))):
            return "samples of mode %d%s: %s at hbar=%g but %s at hbar=%g (same seed)" % (m, " / sqrt(hbar)" if kind == "sqrt" else "", np.round(v1, 9).tolist(), h1, np.round(v2, 9).tolist(), h2)
    return None


def rescale(ops_, f):
    """arguments given in hbar1 units -> hbar2 units, f = sqrt(hbar2/hbar1)"""
    out = []
    for o in ops_:
        name, params, modes = o[0], list(o[1]), o[2]
        flags = dict(o[3]) if len(o) > 3 else {}
        if params and _is_sym(params[0]):
            # ["meas", src, c] = c * q[src].par, the homodyne outcome of mode src, which carries units of sqrt(hbar): as a position /
            # momentum shift c is dimensionless; as a dimensionless gate argument (angle) c ~ hbar^-1/2
            if name not in ("Xgate", "Zgate"):
                params[0] = ["meas", params[0][1], params[0][2] / f]
        elif name in ("Xgate", "Zgate"):
            params[0] = params[0] * f
        elif name == "Vgate":
            params[0] = params[0] / f
        elif name == "Gaussian":
            V = spec.dec_param(params[0]) * f * f
            params[0] = spec.enc_matrix(V)
            if len(params) > 1 and params[1] is not None:
                params[1] = spec.enc_vec(spec.dec_param(params[1]) * f)
        elif name == "MeasureHomodyne" and flags.get("select") is not None:
            flags["select"] = flags["select"] * f
        out.append([name, params, modes, flags])
    return out


PS_KINDS = ["Xgate", "MSgate", "hom_sample", "Gaussian", "MeasureHomodyne", "nongauss", "Zgate", "near_threshold", "heterodyne", "none",
            "Gaussian_weak_thermal", "Gaussian", "hom_sample", "Gaussian", "nongauss", "near_threshold", "heterodyne", "MSgate", "MeasureHomodyne"]
FOCK_KINDS = ["Xgate", "hom_sample", "Zgate", "MeasureHomodyne", "Vgate", "none", "hom_sample", "MeasureHomodyne"]
# squeezing values around the default tolerances of is_squeezed (max |cov/(hbar/2) - 1| > 1e-6) and is_coherent (1e-10).  For squeezing
# r exp(i phi) the largest deviation is 2r max(|cos phi|, |sin phi|), i.e. in [1.41 r, 2 r]: none of these intervals contains its tolerance
# (closest: 1.41 * 7.5e-7 = 1.06e-6, 2 * 4.5e-7 = 0.9e-6), so the answer does not hinge on rounding for any phase
TINY_R = [7.5e-7, 4.5e-7, 1e-6, 2e-7, 1.5e-6, 3e-6, 8e-11, 4.5e-11, 2e-10, 3e-11, 0.0]


@st.composite
def gen_case(draw, fock=False):
    n = draw(st.integers(1, 3 if not fock else 2))
    h1 = draw(st.sampled_from([2.0, 1.0, 0.5, 0.7, 3.3]))
    h2 = draw(st.one_of(gen.fl(0.2, 4.0), gen.fl(0.2, 4.0), gen.fl(0.2, 4.0), st.sampled_from([0.05, 10.0, 25.0])).filter(lambda x: abs(x - h1) > 0.05))
    energy = "fock" if fock else "ps"
    alph = G_ALPH + (["Vgate", "Kgate", "Fock"] if fock else [])
    ops_ = draw(gen.op_list(n, alph, energy, 1, 6, no_mz_dagger=fock))
    # make sure an hbar-sensitive operation is present
    kind = draw(st.sampled_from(FOCK_KINDS if fock else PS_KINDS))
    seed = draw(st.integers(0, 10 ** 6))
    tags = []
    u1 = float(np.sqrt(h1 / 2))  # the vacuum standard deviation: quadrature-valued arguments are drawn in this unit
    if kind == "Gaussian_weak_thermal":
        # thresholds inside Gaussian(V) (pure? thermal? diagonal?) must classify the STATE, not its units: a weakly mixed state on several
        # modes at small / large hbar, where det V = (hbar/2)^(2k) (1 + O(nbar)) is far from 1 in absolute terms
        k = draw(st.integers(3, 6))
        n = k
        h1 = draw(st.sampled_from([2.0, 0.5, 0.3, 1.0, 4.0]))
        h2 = draw(st.sampled_from([0.3, 0.5, 4.0, 2.0, 0.25]).filter(lambda x: abs(x - h1) > 0.01))
        nb = np.array([draw(st.sampled_from([1e-3, 5e-3, 0.01, 0.02, 0.05])) for _ in range(k)])
        how = draw(st.sampled_from(["thermal", "squeezed", "mixed"]))
        D = np.diag(np.concatenate([2 * nb + 1, 2 * nb + 1]))
        if how == "thermal":
            S = np.eye(2 * k)
        else:
            r = np.array([draw(gen.fl(-0.3, 0.3)) for _ in range(k)])
            S = np.diag(np.concatenate([np.exp(-r), np.exp(r)]))
            if how == "mixed":
                S = gen.orth_symplectic(draw(gen.unitary(k, ["haar"]))[1]) @ S
        V = S @ D @ S.T
        V = (V + V.T) / 2 * h1 / 2
        ops_ = [["Gaussian", [spec.enc_matrix(V), spec.enc_vec([0.0] * (2 * k))], list(range(k)), {"kw": {"decomp": True}}]]
        return {"n": n, "h1": h1, "h2": h2, "ops": ops_, "queries": draw(api_queries(n, fock))}
    m = draw(st.integers(0, n - 1))
    if kind in ("Xgate", "Zgate"):
        ops_.insert(draw(st.integers(0, len(ops_))), [kind, [draw(gen.fl(-1.0, 1.0)) * np.sqrt(h1 / 2) * (0.5 if fock else 1)], [m], {"H": True} if draw(st.booleans()) else {}])
    elif kind == "Vgate":
        ops_.insert(draw(st.integers(0, len(ops_))), ["Vgate", [draw(gen.fl(-0.05, 0.05)) / np.sqrt(h1 / 2)], [m], {}])
    elif kind == "Gaussian" and not fock:
        # every branch of Gaussian._decompose: pure & diagonal, pure & block diagonal, vacuum, thermal, generic; means omitted (r=None)
        k = draw(st.integers(1, n))
        modes = list(draw(st.permutations(list(range(n))))[:k])
        gk, V = draw(gen.covariance(k, h1, ["pure_diag", "pure_generic", "pure_blockdiag", "mixed_generic", "thermal", "vacuum", "mixed_diag"]))
        tags.append("gaussian_kind:" + gk)
        if gk in ("pure_diag", "pure_blockdiag", "vacuum", "thermal"):
            tags.append("gaussian:exact_branch")
        if draw(st.integers(0, 3)) == 0:
            r = None
            tags.append("gaussian:r_none")
        else:
            r = spec.enc_vec([draw(gen.fl(-1.0, 1.0)) * np.sqrt(h1 / 2) for _ in range(2 * k)])
        ops_.insert(draw(st.integers(0, len(ops_))), ["Gaussian", [spec.enc_matrix(V), r], modes, {"kw": {"decomp": draw(st.booleans())}}])
    elif kind == "MeasureHomodyne":
        if n >= 2 and draw(st.integers(0, 3)) > 0:
            # the post-selection is visible only in the CONDITIONAL state of the other modes: correlate the measured mode with one of them
            # right before the measurement (seeded change C15-E: select handed to the backend without the conversion to its units)
            other = draw(st.sampled_from([x for x in range(n) if x != m]))
            ops_.append(["S2gate", [draw(gen.fl(0.3, 0.8)) * (0.5 if fock else 1), draw(gen.angle())], [m, other], {}])
            tags.append("hom:select_correlated")
        ops_.append(["MeasureHomodyne", [draw(gen.angle())], [m], {"select": draw(gen.fl(-1.0, 1.0)) * np.sqrt(h1 / 2) * (0.4 if fock else 1)}])
    elif kind == "hom_sample":
        # a SAMPLED homodyne measurement (both runs use the same seed): the outcome is a quadrature value; optionally it is fed forward
        # into a later gate of another mode as c * q[m].par (teleportation-style corrections), followed by a few more gates
        ops_ = ops_[:4]
        ops_.append(["MeasureHomodyne", [draw(st.one_of(st.sampled_from([0.0, gen.PI / 2]), gen.angle()))], [m], {}])
        tags.append("hom:sampled")
        if n >= 2 and draw(st.integers(0, 3)) > 0:
            tgt = draw(st.sampled_from([x for x in range(n) if x != m]))
            gate = draw(st.sampled_from(["Xgate", "Zgate", "Rgate", "Zgate", "Xgate"]))
            c = draw(gen.fl(-1.0, 1.0)) * (0.3 if fock else 1.0)
            ops_.append([gate, [["meas", m, c if gate in ("Xgate", "Zgate") else c / u1]], [tgt], {}])
            tags.append("hom:feedforward")
            ops_ += draw(gen.op_list(n, alph, energy, 0, 2, no_mz_dagger=fock))
    elif kind == "MSgate":
        # measurement-based squeezing (bosonic backend only): all five arguments are dimensionless
        for _ in range(draw(st.integers(1, 2))):
            r_anc = draw(st.one_of(st.sampled_from([10.0, 1.0]), gen.fl(0.3, 3.0)))
            eta = draw(st.one_of(st.just(1.0), gen.fl(0.3, 1.0)))
            avg = draw(st.sampled_from([True, False, True]))
            tags.append("MSgate:avg" if avg else "MSgate:single_shot")
            ops_.insert(draw(st.integers(0, len(ops_))), ["MSgate", [draw(gen.real(-0.8, 0.8, (0.0,))), draw(gen.angle()), r_anc, eta, avg], [draw(st.integers(0, n - 1))], {}])
        ops_.insert(draw(st.integers(0, len(ops_))), [draw(st.sampled_from(["Xgate", "Zgate"])), [draw(gen.fl(-1.0, 1.0)) * u1], [m], {}])
    elif kind == "heterodyne":
        sel = {"re": draw(gen.fl(-1.0, 1.0)), "im": draw(gen.fl(-1.0, 1.0))} if draw(st.booleans()) else None
        ops_.insert(draw(st.integers(0, len(ops_))), [draw(st.sampled_from(["Xgate", "Zgate"])), [draw(gen.fl(-1.0, 1.0)) * u1], [draw(st.integers(0, n - 1))], {}])
        ops_.append(["MeasureHeterodyne", [], [m], {"select": sel} if sel is not None else {}])
        tags.append("het:select" if sel is not None else "het:sampled")
    elif kind == "nongauss":
        # non-Gaussian preparations of the bosonic backend: several weights, complex means (Catstate), negative weights (Fock); at most one
        # preparation with large weights (sum |w| ~ 800) so that cancellation stays below 1e-12
        pre = []
        big = False
        for mm in draw(st.lists(st.integers(0, n - 1), min_size=1, max_size=2, unique=True)):
            which = draw(st.sampled_from(["Catstate", "Fock", "GKP", "Catstate_real"] if not big else ["Catstate", "GKP"]))
            if which == "Catstate":
                pre.append(["Catstate", [draw(gen.fl(0.3, 1.2)), draw(gen.angle()), draw(st.sampled_from([0, 1, 0.5]))], [mm], {}])
            elif which == "Catstate_real":
                pre.append(["Catstate", [draw(gen.fl(0.5, 1.2)), draw(gen.angle()), draw(st.sampled_from([0, 1]))], [mm], {"kw": {"representation": "real"}}])
                big = True
            elif which == "Fock":
                pre.append(["Fock", [1], [mm], {}])
                big = True
            else:
                pre.append(["GKP", [], [mm], {"kw": {"state": [draw(gen.fl(0.0, gen.PI)), draw(gen.angle())], "epsilon": draw(st.sampled_from([0.5, 0.6])), "ampl_cutoff": 1e-3}}])
        ops_ = pre + [o for o in ops_ if o[0] not in ("Coherent", "DisplacedSqueezed", "Thermal")][:4]
        ops_.insert(draw(st.integers(len(pre), len(ops_))), [draw(st.sampled_from(["Xgate", "Zgate"])), [draw(gen.fl(-1.0, 1.0)) * u1], [m], {"H": True} if draw(st.booleans()) else {}])
        tags.append("nongauss")
        # (fock_prob / reduced_dm of a bosonic state cost one hafnian-based density matrix per weight: only with few weights)
        heavy = any(o[0] == "GKP" or (o[0] == "Catstate" and len(o) > 3 and o[3]) for o in pre)
        qs = [q for q in draw(api_queries(n, fock)) if not (heavy and q[0] in ("fock_prob", "reduced_dm"))]
        return {"n": n, "h1": h1, "h2": h2, "ops": ops_, "queries": qs, "seed": seed, "tags": tags}
    elif kind == "near_threshold":
        # is_squeezed / is_coherent classify the state, not its units: squeezing just below / above their tolerances
        ops_ = []
        qs = []
        for mm in range(n):
            r = draw(st.sampled_from(TINY_R)) * draw(st.sampled_from([1.0, -1.0]))
            phi = draw(st.one_of(st.sampled_from([0.0, gen.PI / 2, gen.PI]), gen.angle()))
            ops_.append(["Squeezed", [r, phi], [mm], {}] if draw(st.booleans()) else ["Sgate", [r, phi], [mm], {}])
            if draw(st.booleans()):
                ops_.append([draw(st.sampled_from(["Xgate", "Zgate"])), [draw(gen.fl(-1.0, 1.0)) * u1], [mm], {}])
            if draw(st.booleans()):
                ops_.append(["Rgate", [draw(gen.angle())], [mm], {}])
            qs += [["is_squeezed", mm], ["is_coherent", mm]]
        tags.append("near_threshold")
        return {"n": n, "h1": h1, "h2": h2, "ops": ops_, "queries": qs + draw(api_queries(n, fock)), "seed": seed, "tags": tags}
    return {"n": n, "h1": h1, "h2": h2, "ops": ops_, "queries": draw(api_queries(n, fock)), "seed": seed, "tags": tags}


@st.composite
def api_queries(draw, n, fock=False):
    """a sequence of state-method calls (the same sequence is issued on the state at both hbar values, in this order); arguments that are
    quadrature values are stored in units of sqrt(hbar/2) and converted by run_queries"""
    names = ["mean_photon", "fidelity_vacuum", "fidelity_coherent", "fock_prob", "parity_expectation", "number_expectation", "displacement",
             "reduced_dm", "poly_quad_expectation", "quad_expectation", "poly_full", "wigner_q", "x_quad_values", "poly_full"]
    if n <= (2 if fock else 1):  # (thewalrus' probabilities() of a mixed Gaussian state takes seconds beyond one mode)
        names += ["all_fock_probs"]
    if not fock:
        names += ["is_coherent", "is_squeezed", "squeezing", "is_coherent", "squeezing", "fidelity", "purity", "marginal", "fidelity"]
    out = []
    for _ in range(draw(st.integers(2, 6))):
        nm = draw(st.sampled_from(names))
        m = draw(st.integers(0, n - 1))
        sub = sorted(draw(st.permutations(list(range(n))))[:draw(st.integers(1, n))])
        if nm in ("mean_photon", "is_coherent", "is_squeezed", "reduced_dm"):
            out.append([nm, m])
        elif nm == "quad_expectation":
            out.append([nm, m, draw(gen.angle())])
        elif nm in ("fidelity_vacuum", "purity", "all_fock_probs"):
            out.append([nm])
        elif nm == "fidelity_coherent":
            out.append([nm, [[draw(gen.fl(-0.6, 0.6)), draw(gen.fl(-0.6, 0.6))] for _ in range(n)]])
        elif nm == "fock_prob":
            out.append([nm, [draw(st.integers(0, 2)) for _ in range(n)]])
        elif nm in ("parity_expectation", "squeezing", "displacement"):
            out.append([nm, sub])
        elif nm == "number_expectation":
            out.append([nm, sub[:2]])
        elif nm == "poly_full":
            # x^T A x + d^T x + k with A over up to two modes (cross terms x_i p_j, x_i x_j), linear and constant terms, rotated frame
            idx = sorted(set([m, draw(st.integers(0, n - 1))]))
            rows = idx + [i + n for i in idx]
            ent = [[draw(st.sampled_from(rows)), draw(st.sampled_from(rows)), draw(gen.fl(-1.0, 1.0))] for _ in range(draw(st.integers(0, 3)))]
            d = [draw(gen.fl(-1.0, 1.0)) if (i in rows and draw(st.booleans())) else 0.0 for i in range(2 * n)] if draw(st.booleans()) else None
            out.append([nm, ent, d, draw(st.sampled_from([0.0, 0.0, 0.7, -1.3])), draw(st.sampled_from([0.0, 0.0, 0.4, gen.PI / 2, -1.1]))])
        elif nm == "wigner_q":
            xs = [draw(gen.fl(-2.0, 2.0)) for _ in range(draw(st.sampled_from([3, 1, 2])))]
            out.append([nm, m, xs, [draw(gen.fl(-2.0, 2.0)) for _ in range(draw(st.sampled_from([2, 1])))]])
        elif nm == "x_quad_values":
            out.append([draw(st.sampled_from(["x_quad_values", "p_quad_values"])), m])
        elif nm == "marginal":
            out.append([nm, m, draw(gen.angle())])
        elif nm == "fidelity":
            # fidelity with a displaced squeezed product state given as (means, cov) of the listed modes
            out.append([nm, sub, [draw(gen.fl(-1.0, 1.0)) for _ in range(2 * len(sub))], [draw(gen.fl(-0.5, 0.5)) for _ in sub]])
        else:
            out.append([nm, m, draw(st.sampled_from(["xx", "pp", "xp", "n"]))])
    return out


def _flat(x):
    if x is None:
        return [float("nan")]
    if isinstance(x, (tuple, list)):
        return [z for y in x for z in _flat(y)]
    return [complex(z) for z in np.ravel(np.asarray(x))]


def run_queries(state, queries, n, hbar, cutoff=5, V=None):
    """-> list of (name, kind, values | exception type name); kind: 'dimless' | 'sqrt' | 'lin' | 'lin_sq' (how the values scale with hbar)"""
    res = []
    s = float(np.sqrt(hbar / 2))
    for q in queries:
        nm = q[0]
        kind = "dimless"
        try:
            if nm in ("mean_photon", "is_coherent", "is_squeezed"):
                v = getattr(state, nm)(q[1])
            elif nm == "reduced_dm":
                v = state.reduced_dm(q[1], cutoff=cutoff)
            elif nm == "quad_expectation":
                v = state.quad_expectation(q[1], q[2])
                kind = "quad"
            elif nm == "fidelity_vacuum":
                v = state.fidelity_vacuum()
            elif nm == "fidelity_coherent":
                v = state.fidelity_coherent([complex(a, b) for a, b in q[1]])
            elif nm == "fock_prob":
                v = state.fock_prob(list(q[1]), cutoff=cutoff)
            elif nm in ("parity_expectation", "number_expectation"):
                v = getattr(state, nm)(list(q[1]))
            elif nm == "displacement":
                v = state.displacement(list(q[1]))
            elif nm == "purity":
                v = state.purity()
            elif nm == "all_fock_probs":
                v = state.all_fock_probs(cutoff=min(cutoff, 3))
            elif nm == "wigner_q":
                v = state.wigner(q[1], np.array(q[2]) * s, np.array(q[3]) * s)
                kind = "per_area"
            elif nm in ("x_quad_values", "p_quad_values"):
                grid = np.linspace(-4.0, 4.0, 9) * s
                v = getattr(state, nm)(q[1], grid, grid)
                kind = "per_length"
            elif nm == "marginal":
                v = state.marginal(q[1], np.linspace(-3.0, 3.0, 7) * s, q[2])
                kind = "per_length"
            elif nm == "fidelity":
                r_ = np.array(q[3])
                v = state.fidelity([np.array(q[2]) * s, np.diag(np.concatenate([np.exp(-2 * r_), np.exp(2 * r_)])) * hbar / 2], list(q[1]))
            elif nm == "poly_full":
                A = np.zeros((2 * n, 2 * n))
                for i, j, val in q[1]:
                    A[i, j] = A[j, i] = val
                v = state.poly_quad_expectation(A, None if q[2] is None else np.array(q[2]) * s, q[3] * s * s, q[4])
                kind = "poly2"
            elif nm == "squeezing":
                v = state.squeezing(list(q[1]))
                # anisotropy of each mode's covariance (from the moments read before the queries): phi is rounding noise for an
                # isotropic (vacuum, thermal) mode whatever "r" the pure-state formula returns
                v = [(r_, p_, (np.hypot(V[m_ + n, m_ + n] - V[m_, m_], 2 * V[m_, m_ + n]) / (hbar / 2)) if V is not None else 1.0) for (r_, p_), m_ in zip(v, q[1])]
                kind = "squeezing"
            else:
                A = np.zeros((2 * n, 2 * n))
                m = q[1]
                if q[2] == "xx":
                    A[m, m] = 1.0
                elif q[2] == "pp":
                    A[m + n, m + n] = 1.0
                elif q[2] == "xp":
                    A[m, m + n] = A[m + n, m] = 0.5
                else:
                    A[m, m] = A[m + n, m + n] = 0.5
                v = state.poly_quad_expectation(A)
                kind = "poly2"
            res.append((nm, kind, _flat(v)))
        except Exception as exc:  # pylint: disable=broad-except
            res.append((nm, "raised", type(exc).__name__))
    return res


def compare_queries(r1, r2, h1, h2, tol):
    """-> None or (query name, detail)"""
    for (nm, kind, a), (_, kind2, b) in zip(r1, r2):
        if kind == "raised" or kind2 == "raised":
            if kind != kind2 or a != b:
                return nm, "%s: %r at hbar=%g but %r at hbar=%g" % (nm, a, h1, b, h2)
            continue
        a, b = np.array(a, complex), np.array(b, complex)
        if a.shape != b.shape:
            return nm, "%s: result shapes differ (%s vs %s)" % (nm, a.shape, b.shape)
        if kind == "quad":
            a = a / np.array([np.sqrt(h1), h1])
            b = b / np.array([np.sqrt(h2), h2])
        elif kind == "poly2":
            a = a / np.array([h1, h1 ** 2])
            b = b / np.array([h2, h2 ** 2])
        elif kind == "per_area":  # Wigner function: a density in x and p
            a, b = a * h1, b * h2
        elif kind == "per_length":  # marginal distributions: a density in one quadrature
            a, b = a * np.sqrt(h1), b * np.sqrt(h2)
        elif kind == "squeezing":
            # (r, phi) per mode: phi is undefined for r = 0, and r = arccosh(..)/2 amplifies rounding near 0
            a2, b2 = a.reshape(-1, 3), b.reshape(-1, 3)
            if float(np.max(np.abs(a2[:, 0] - b2[:, 0]))) > 1e-5:
                return nm, "squeezing r: %s at hbar=%g, %s at hbar=%g" % (a2[:, 0].real, h1, b2[:, 0].real, h2)
            for (ra, pa, ana), (rb, pb, anb) in zip(a2, b2):
                if min(abs(ana), abs(anb)) > 1e-3 and abs(np.exp(1j * pa) - np.exp(1j * pb)) > 1e-4:
                    return nm, "squeezing phi: %s at hbar=%g, %s at hbar=%g" % (pa.real, h1, pb.real, h2)
            continue
        both_nan = np.isnan(a) & np.isnan(b)
        d = np.where(both_nan, 0.0, np.abs(a - b))
        if np.any(np.isnan(d)) or float(np.max(d)) > 1e3 * tol * (1 + float(np.nanmax(np.abs(a)))):
            return nm, "%s%s = %s at hbar=%g but %s at hbar=%g (after removing the documented hbar scaling)" % (nm, "" if kind == "dimless" else "[%s]" % kind, np.round(a, 8).tolist(), h1, np.round(b, 8).tolist(), h2)
    return None


def _gauss_op_specs(ops_):
    """Gaussian(V, r) spec in the form make_op understands: r as keyword"""
    out = []
    for o in ops_:
        if o[0] == "Gaussian":
            kw = dict((o[3] or {}).get("kw", {}))
            kw["r"] = o[1][1]
            out.append(["Gaussian", [o[1][0]], o[2], {"kw": {k: (spec.dec_param(v) if isinstance(v, dict) else v) for k, v in kw.items()}}])
        else:
            out.append(o)
    return out


def _labels(ops_):
    return sorted({"op:" + o[0] for o in ops_})


def _nontrivial(ops_):
    for o in ops_:
        if o[0] in SENSITIVE:
            if o[0] in ("MeasureHomodyne", "MeasureHeterodyne", "Gaussian") or any((isinstance(p, float) and p != 0) or _is_sym(p) for p in o[1][:1]):
                return True
    return False


def check_ps(ctx, case):
    n, h1, h2, ops1 = case["n"], case["h1"], case["h2"], case["ops"]
    f = np.sqrt(h2 / h1)
    ops2 = rescale(ops1, f)
    has_hom = any(o[0] == "MeasureHomodyne" for o in ops1)
    ms_shot = any(o[0] == "MSgate" and not o[1][4] for o in ops1)
    seed = int(case.get("seed", 5))
    labels = _labels(ops1) + list(case.get("tags") or [])
    if h2 < 0.2 or h2 > 4:
        labels.append("hbar:extreme")
    ran = []
    for be in ("gaussian", "bosonic"):
        try:
            res1 = _run(be, n, ops1, h1, seed)
            res2 = _run(be, n, ops2, h2, seed)
            s1, s2 = res1.state, res2.state
        except sfrun.Rejected:
            labels.append("rejected:" + be)
            continue
        except ValueError as exc:
            if "not unitary" in str(exc):  # C02 finding F38 (bloch_messiah) reached through Gaussian(V) decomposition
                labels.append("skipped_F38")
                continue
            ctx.note(case, True, labels)
            return ctx.crash(exc, be)
        except Exception as exc:  # pylint: disable=broad-except
            ctx.note(case, True, labels)
            return ctx.crash(exc, be)
        ran.append(be)
        labels.append("backend:" + be)
        m1, V1, info1 = sfrun.moments_of(s1, be, h1)
        m2, V2, _ = sfrun.moments_of(s2, be, h2)
        if info1.get("weights", 1) > 1:
            labels.append("bosonic:multi_weight")
        tol = (2e-5 if has_hom or ms_shot else 1e-8) * (1 + float(np.max(np.abs(V1))) / (h1 / 2))
        # measurement outcomes: homodyne samples are quadrature values (~ sqrt(hbar)), all other samples are dimensionless
        bad = _compare_samples(_samples(res1, ops1), _samples(res2, ops2), h1, h2)
        if bad:
            return _fail(ctx, case, labels, "%s.samples_not_covariant" % be, bad, be)
        if CHECK_MS_ANCILLA and ms_shot:  # F68
            a1 = np.array(_flat([v for _, v in sorted((res1.ancillae_samples or {}).items())]), complex)
            a2 = np.array(_flat([v for _, v in sorted((res2.ancillae_samples or {}).items())]), complex)
            if a1.shape != a2.shape or float(np.max(np.abs(a1 / np.sqrt(h1) - a2 / np.sqrt(h2)))) > 1e-7 * (1 + float(np.max(np.abs(a1 / np.sqrt(h1))))):
                return _fail(ctx, case, labels, "%s.ancillae_samples_not_covariant" % be, "MSgate ancilla homodyne outcomes / sqrt(hbar): %s at hbar=%g but %s at hbar=%g (same seed)" % (
                    np.round(a1 / np.sqrt(h1), 9).tolist(), h1, np.round(a2 / np.sqrt(h2), 9).tolist(), h2), be)
        dm = float(np.max(np.abs(m2 / np.sqrt(h2) - m1 / np.sqrt(h1))))
        dv = float(np.max(np.abs(V2 / h2 - V1 / h1)))
        if (dm > tol or dv > tol) and max(dm, dv) < 1e-4 and (_n3_applies(ops1, h1) or _n3_applies(ops2, h2)):
            # not an hbar effect: the prepared state itself is off by that much at EITHER hbar (last-digit rounding of V decides how)
            ctx.note(case, True, labels)
            return ctx.fail("bloch_messiah.near_degenerate_cluster_split_by_rounding", "Gaussian(V, decomp=True): bloch_messiah factors of williamson's S are not "
                            "symplectic, the prepared covariance is off by ~%.3g (differently at hbar=%g and hbar=%g)" % (max(dm, dv), h1, h2))
        if dm > tol or dv > tol:
            return _fail(ctx, case, labels, "%s.moments_not_covariant" % be, "means/sqrt(hbar) differ by %.3g, cov/hbar by %.3g between hbar=%g and hbar=%g" % (dm, dv, h1, h2), be)
        # state API
        if be == "gaussian" or not has_hom:
            mode = 0
            for name, fn, scale in (
                ("mean_photon", lambda s: np.array(s.mean_photon(mode), float), 1.0),
                ("fidelity_vacuum", lambda s: np.array([s.fidelity_vacuum()], float), 1.0),
                ("fock_prob0", lambda s: np.array([s.fock_prob([0] * n, cutoff=5)], float), 1.0),
            ):
                if name == "fock_prob0" and info1.get("weights", 1) > 40:  # one density-matrix element per weight
                    continue
                try:
                    a, b = fn(s1), fn(s2)
                except Exception as exc:  # pylint: disable=broad-except
                    ctx.note(case, True, labels)
                    return ctx.crash(exc, "%s.%s" % (be, name))
                if float(np.max(np.abs(a - b))) > 1e3 * tol * (1 + float(np.max(np.abs(a)))):
                    return _fail(ctx, case, labels, "%s.api.%s_depends_on_hbar" % (be, name), "%s = %s at hbar=%g but %s at hbar=%g" % (name, a, h1, b, h2), be)
            labels += ["api:quad_expectation", "api:wigner"]
            q1 = np.array(s1.quad_expectation(mode, 0.3), float)
            q2 = np.array(s2.quad_expectation(mode, 0.3), float)
            if abs(q2[0] / np.sqrt(h2) - q1[0] / np.sqrt(h1)) > 10 * tol or abs(q2[1] / h2 - q1[1] / h1) > 10 * tol:
                return _fail(ctx, case, labels, "%s.api.quad_expectation_not_covariant" % be, "quad_expectation %s (hbar %g) vs %s (hbar %g)" % (q1, h1, q2, h2), be)
            xv = np.array([-0.7, 0.1, 0.9]) * np.sqrt(h1 / 2)
            pv = np.array([-0.3, 0.5]) * np.sqrt(h1 / 2)
            W1 = np.array(s1.wigner(mode, xv, pv), float)
            W2 = np.array(s2.wigner(mode, xv * f, pv * f), float)
            if float(np.max(np.abs(W2 * f * f - W1))) > 1e3 * tol * (1 + float(np.max(np.abs(W1)))):
                return _fail(ctx, case, labels, "%s.api.wigner_not_covariant" % be, "W2(fx, fp) f^2 differs from W1(x, p) by %.3g" % float(np.max(np.abs(W2 * f * f - W1))), be)
            # a generated sequence of further state-method calls, the same on both states; afterwards the moments are read again
            # (a query must not change what later queries answer)
            qs = case.get("queries") or []
            r1q, r2q = run_queries(s1, qs, n, h1, V=V1), run_queries(s2, qs, n, h2, V=V2)
            labels += sorted({"api:" + q[0] for q in qs})
            bad = compare_queries(r1q, r2q, h1, h2, tol)
            if bad:
                return _fail(ctx, case, labels, "%s.api.%s_depends_on_hbar" % (be, bad[0]), bad[1], be)
            m1b, V1b, _ = sfrun.moments_of(s1, be, h1)
            m2b, V2b, _ = sfrun.moments_of(s2, be, h2)
            if float(np.max(np.abs(V1b - V1))) > tol * h1 or float(np.max(np.abs(V2b - V2))) > tol * h2 or float(np.max(np.abs(m1b - m1))) > tol or float(np.max(np.abs(m2b - m2))) > tol:
                return _fail(ctx, case, labels, "%s.api.query_changed_state" % be, "means / cov read after the queries %s differ from those read before (hbar %g: %.3g, hbar %g: %.3g)" % (
                    [q[0] for q in qs], h1, float(np.max(np.abs(V1b - V1))), h2, float(np.max(np.abs(V2b - V2)))), be)
    # second opinion: refsim at both values (Gaussian programs only)
    try:
        if _has_sym(ops1):
            raise refsim.RefError("measured parameter")
        r1 = spec.ref_run(n, [o if o[0] != "Gaussian" else ["Gaussian", o[1], o[2], {}] for o in ops1], h1)
        r2 = spec.ref_run(n, [o if o[0] != "Gaussian" else ["Gaussian", o[1], o[2], {}] for o in ops2], h2)
        if float(np.max(np.abs(r2.V / h2 - r1.V / h1))) > 1e-9 * (1 + float(np.max(np.abs(r1.V)))) or float(np.max(np.abs(r2.mu / np.sqrt(h2) - r1.mu / np.sqrt(h1)))) > 1e-9 * (1 + float(np.max(np.abs(r1.mu)))):
            raise AssertionError("harness rescaling rules are inconsistent with refsim for %r" % (case,))
    except refsim.RefError:
        pass
    ctx.note(case, nontrivial=bool(ran) and _nontrivial(ops1), labels=labels)
    return None


def _n3_applies(ops_, h):
    """open finding N3 (root cause catalogued under C17): Gaussian(V, decomp=True) hands the S of williamson(V) to bloch_messiah, which
    groups singular values by rounding and returns factors that are symplectic only to 1e-7..5e-5 when two of them (or one and 1) differ
    by 1e-10..1e-6.  Evaluated on the very matrices of this case with the repo's own routines."""
    from strawberryfields import decompositions as dec

    for o in ops_:
        if o[0] != "Gaussian" or not ((o[3] if len(o) > 3 else None) or {}).get("kw", {}).get("decomp", True):
            continue
        try:
            V = np.asarray(spec.dec_param(o[1][0]), float) / (h / 2)
            _, S = dec.williamson(V, tol=1e-6)
            O1, _, O2 = dec.bloch_messiah(S)
        except Exception:  # pylint: disable=broad-except
            continue
        Om = refsim.omega(len(S) // 2)
        if max(float(np.max(np.abs(O1 @ Om @ O1.T - Om))), float(np.max(np.abs(O2 @ Om @ O2.T - Om)))) > 1e-9:
            return True
    return False


def _fail(ctx, case, labels, sig, detail, be):
    ctx.note(case, True, labels)
    # root-cause label: the hbar-sensitive operation classes present
    sens = sorted({o[0] for o in case["ops"] if o[0] in ("Xgate", "Zgate", "Vgate", "Gaussian", "MeasureHomodyne", "MSgate")})
    return ctx.fail(sig + "." + "+".join(sens or ["none"]), detail)


def check_fock(ctx, case):
    n, h1, h2, ops1 = case["n"], case["h1"], case["h2"], case["ops"]
    f = np.sqrt(h2 / h1)
    ops2 = rescale(ops1, f)
    has_hom = any(o[0] == "MeasureHomodyne" for o in ops1)
    labels = _labels(ops1) + list(case.get("tags") or [])
    if h2 < 0.2 or h2 > 4:
        labels.append("hbar:extreme")
    seed = int(case.get("seed", 5))
    D = 7
    try:
        res1 = _run("fock", n, ops1, h1, seed, D, True)
        res2 = _run("fock", n, ops2, h2, seed, D, True)
        s1, s2 = res1.state, res2.state
    except sfrun.Rejected:
        ctx.note(case, False, labels + ["rejected:fock"])
        return None
    except Exception as exc:  # pylint: disable=broad-except
        ctx.note(case, True, labels)
        return ctx.crash(exc, "fock")
    labels.append("backend:fock")
    bad = _compare_samples(_samples(res1, ops1), _samples(res2, ops2), h1, h2)
    if bad:
        return _fail(ctx, case, labels, "fock.samples_not_covariant", bad, "fock")
    r1, r2 = fockref.state_dm(s1), fockref.state_dm(s2)
    tol = 1e-5 if has_hom else 1e-8
    d = float(np.max(np.abs(r1 - r2)))
    if d > tol:
        return _fail(ctx, case, labels, "fock.state_depends_on_hbar", "density tensors at hbar=%g and hbar=%g differ by %.3g" % (h1, h2, d), "fock")
    labels += ["api:quad_expectation", "api:wigner"]
    q1 = np.array(s1.quad_expectation(0, 0.3), float)
    q2 = np.array(s2.quad_expectation(0, 0.3), float)
    if abs(q2[0] / np.sqrt(h2) - q1[0] / np.sqrt(h1)) > 1e3 * tol or abs(q2[1] / h2 - q1[1] / h1) > 1e3 * tol:
        return _fail(ctx, case, labels, "fock.api.quad_expectation_not_covariant", "quad_expectation %s (hbar %g) vs %s (hbar %g)" % (q1, h1, q2, h2), "fock")
    xv = np.array([-0.7, 0.1, 0.9]) * np.sqrt(h1 / 2)
    pv = np.array([-0.3, 0.5]) * np.sqrt(h1 / 2)
    W1 = np.array(s1.wigner(0, xv, pv), float)
    W2 = np.array(s2.wigner(0, xv * f, pv * f), float)
    if float(np.max(np.abs(W2 * f * f - W1))) > 1e3 * tol * (1 + float(np.max(np.abs(W1)))):
        return _fail(ctx, case, labels, "fock.api.wigner_not_covariant", "W2(fx, fp) f^2 differs from W1(x, p) by %.3g" % float(np.max(np.abs(W2 * f * f - W1))), "fock")
    qs = [q for q in (case.get("queries") or []) if q[0] not in ("displacement", "fidelity", "purity", "marginal")]
    labels += sorted({"api:" + q[0] for q in qs})
    bad = compare_queries(run_queries(s1, qs, n, h1, D), run_queries(s2, qs, n, h2, D), h1, h2, tol)
    if bad:
        return _fail(ctx, case, labels, "fock.api.%s_depends_on_hbar" % bad[0], bad[1], "fock")
    ctx.note(case, nontrivial=_nontrivial(ops1), labels=labels)
    return None


# ----------------------------------------------------------------------------------------------
# strawberryfields.utils (utils/states.py): NumPy state helpers with an explicit hbar argument
# ----------------------------------------------------------------------------------------------
UTIL_FNS = ["displaced_squeezed_state", "squeezed_state", "coherent_state", "squeezed_cov", "vacuum_state"]


@st.composite
def gen_utils(draw):
    h1 = draw(st.sampled_from([2.0, 1.0, 0.5, 3.3]))
    h2 = draw(st.one_of(gen.fl(0.2, 4.0), st.sampled_from([0.05, 10.0])).filter(lambda x: abs(x - h1) > 0.05))
    return {"fn": draw(st.sampled_from(UTIL_FNS)), "h1": h1, "h2": h2, "r_d": draw(gen.real(0.0, 1.5)), "phi_d": draw(gen.angle()),
            "r_s": draw(gen.real(-1.0, 1.0, (0.0, 1e-6))), "phi_s": draw(gen.angle()), "fock_dim": draw(st.integers(2, 8)),
            "decomp": draw(st.booleans())}


def _util_call(us, case, basis, hbar):
    """-> (call of the helper, the same state as an op spec for refsim)"""
    fn, kw = case["fn"], {"basis": basis, "fock_dim": case["fock_dim"]}
    if hbar is not None:
        kw["hbar"] = hbar
    if fn == "vacuum_state":
        return us.vacuum_state(**kw), ["Vacuum", [], [0]]
    if fn == "coherent_state":
        return us.coherent_state(case["r_d"], case["phi_d"], **kw), ["Coherent", [case["r_d"], case["phi_d"]], [0]]
    if fn == "squeezed_state":
        return us.squeezed_state(case["r_s"], case["phi_s"], **kw), ["Squeezed", [case["r_s"], case["phi_s"]], [0]]
    if fn == "squeezed_cov":
        cov = us.squeezed_cov(case["r_s"], case["phi_s"], **({} if hbar is None else {"hbar": hbar}))
        return [np.zeros(2), cov], ["Squeezed", [case["r_s"], case["phi_s"]], [0]]
    return (us.displaced_squeezed_state(case["r_d"], case["phi_d"], case["r_s"], case["phi_s"], **kw),
            ["DisplacedSqueezed", [case["r_d"], case["phi_d"], case["r_s"], case["phi_s"]], [0]])


def check_utils(ctx, case):
    """the helpers document hbar as 'the value of hbar in the commutation relation [x, p] = i hbar': their Gaussian output is the (means, cov)
    of the named state in that convention (refsim: independent closed forms), usable as Gaussian(cov, means) at sf.hbar = hbar; their
    Fock output does not depend on hbar"""
    import importlib

    us = importlib.import_module("strawberryfields.utils.states")
    h1, h2 = case["h1"], case["h2"]
    labels = ["fn:" + case["fn"]]
    ctx.note(case, nontrivial=case["fn"] != "vacuum_state", labels=labels)
    out = {}
    for h in (h1, h2):
        try:
            (mu, cov), op = _util_call(us, case, "gaussian", h)
        except Exception as exc:  # pylint: disable=broad-except
            return ctx.crash(exc, "utils." + case["fn"])
        mu, cov = np.array(mu, float), np.array(cov, float)
        ref = spec.ref_run(1, [op], h)
        if float(np.max(np.abs(mu - ref.mu))) > 1e-9 * np.sqrt(h) * (1 + case["r_d"]) or float(np.max(np.abs(cov - ref.V))) > 1e-9 * h * float(np.exp(2 * abs(case["r_s"]))):
            return ctx.fail("utils.%s.not_the_state_at_hbar" % case["fn"], "%s(.., basis='gaussian', hbar=%g) = means %s cov %s but the state has means %s cov %s in that convention" % (
                case["fn"], h, mu.tolist(), cov.tolist(), ref.mu.tolist(), ref.V.tolist()))
        out[h] = (mu, cov)
    dm = float(np.max(np.abs(out[h2][0] / np.sqrt(h2) - out[h1][0] / np.sqrt(h1))))
    dv = float(np.max(np.abs(out[h2][1] / h2 - out[h1][1] / h1)))
    if dm > 1e-9 * (1 + case["r_d"]) or dv > 1e-9 * float(np.exp(2 * abs(case["r_s"]))):
        return ctx.fail("utils.%s.not_covariant" % case["fn"], "means / sqrt(hbar) differ by %.3g, cov / hbar by %.3g between hbar=%g and hbar=%g" % (dm, dv, h1, h2))
    # default hbar is documented as 2
    (mu0, cov0), _ = _util_call(us, case, "gaussian", None)
    (mu2, cov2), _ = _util_call(us, case, "gaussian", 2.0)
    if float(np.max(np.abs(np.array(mu0) - mu2))) > 1e-12 or float(np.max(np.abs(np.array(cov0) - cov2))) > 1e-12:
        return ctx.fail("utils.%s.default_hbar_not_2" % case["fn"], "output without hbar differs from hbar=2")
    # round trip through the engine at sf.hbar = h2: Gaussian(cov, means) prepares the state whose dimensionless numbers are known
    mu, cov = out[h2]
    try:
        st_ = sfrun.run("gaussian", 1, [["Gaussian", [spec.enc_matrix(cov)], [0], {"kw": {"r": mu, "decomp": bool(case["decomp"])}}]], h2).state
        nbar = float(np.real(st_.mean_photon(0)[0]))
        m_, V_ = np.array(st_.means(), float), np.array(st_.cov(), float)
    except Exception as exc:  # pylint: disable=broad-except
        return ctx.crash(exc, "utils.roundtrip")
    a2 = case["r_d"] ** 2 if case["fn"] in ("coherent_state", "displaced_squeezed_state") else 0.0
    sh2 = float(np.sinh(case["r_s"]) ** 2) if case["fn"] in ("squeezed_state", "squeezed_cov", "displaced_squeezed_state") else 0.0
    # (1e-5: Gaussian(V) classifies and decomposes V with its own tolerances, default tol=1e-6 - e.g. squeezing r < 2.2e-7 at phase pi/2 is
    # prepared as vacuum by the block-diagonal branch; an hbar mistake is an O(1) error)
    if abs(nbar - (a2 + sh2)) > 1e-5 * (1 + a2 + sh2) or float(np.max(np.abs(m_ - mu))) > 1e-5 * np.sqrt(h2) * (1 + case["r_d"]) or float(np.max(np.abs(V_ - cov))) > 1e-5 * h2 * float(np.exp(2 * abs(case["r_s"]))):
        return ctx.fail("utils.%s.roundtrip_through_Gaussian" % case["fn"], "Gaussian(cov, means) of the helper output at sf.hbar=%g: mean photon number %.9g (closed form |alpha|^2 + sinh(r)^2 = %.9g), means %s cov %s" % (
            h2, nbar, a2 + sh2, m_.tolist(), V_.tolist()))
    # Fock basis: dimensionless
    if case["fn"] != "squeezed_cov":
        k1, _ = _util_call(us, case, "fock", h1)
        k2, _ = _util_call(us, case, "fock", h2)
        if float(np.max(np.abs(np.array(k1, complex) - np.array(k2, complex)))) > 1e-12:
            return ctx.fail("utils.%s.fock_ket_depends_on_hbar" % case["fn"], "kets at hbar=%g and hbar=%g differ" % (h1, h2))
    return None


SUBS = [
    Sub("phase_space", check=check_ps, strategy=lambda ctx: gen_case(False), examples={"quick": 500, "thorough": 5000},
        shards={"quick": 2, "thorough": 16}, rule="gaussian + bosonic at two hbar values with rescaled arguments; moments, state API, refsim cross-check"),
    Sub("fock", check=check_fock, strategy=lambda ctx: gen_case(True), examples={"quick": 60, "thorough": 600},
        shards={"quick": 3, "thorough": 16}, rule="fock backend at two hbar values: identical density tensors; quad_expectation / wigner covariance"),
    Sub("utils_states", check=check_utils, strategy=lambda ctx: gen_utils(), examples={"quick": 400, "thorough": 3000},
        shards={"quick": 1, "thorough": 4}, rule="strawberryfields.utils state helpers (hbar argument) at two hbar values: closed forms, covariance, "
                                                 "round trip through Gaussian(cov, means) at sf.hbar = hbar, hbar-free Fock kets"),
]

MANIFEST = {
    "technique": "Hypothesis metamorphic testing: the same experiment at two hbar values with arguments rescaled by their documented units",
    "text": ("Generated programs containing the hbar-sensitive front-end operations are run at two hbar values on every backend; dimensionless "
             "results (Fock states, photon numbers, fidelities, heterodyne outcomes) must be equal and means / covariances / Wigner functions / "
             "homodyne outcomes (sampled with the same seed, also when fed forward into later gates) must scale as documented; the NumPy state "
             "helpers of strawberryfields.utils are compared with closed forms at two hbar values."),
}
