"""C15 - physical predictions are independent of the hbar convention.

Metamorphic: the same experiment is built at two values hbar1 != hbar2, with the dimensionful arguments rescaled by
their documented units (position/momentum arguments and homodyne ``select`` ~ sqrt(hbar); ``Gaussian(V, r)``: V ~ hbar,
r ~ sqrt(hbar); Vgate gamma ~ hbar^-1/2; everything else dimensionless).  Dimensionless outputs must be equal, quadrature
means scale with sqrt(hbar2/hbar1), covariances and Wigner arguments with hbar2/hbar1.  refsim at both values is a second
opinion for the Gaussian programs.
"""
from __future__ import annotations

import numpy as np
from hypothesis import strategies as st

from vf import fockref, gen, refsim, sfrun, spec
from vf.core import Sub

RULE = ("programs of 1..3 modes that contain at least one hbar-sensitive operation (Xgate, Zgate, Vgate, Gaussian(V, r), "
        "MeasureHomodyne(select), plus Pgate/CXgate/CZgate/Coherent/DisplacedSqueezed/MSgate whose arguments are dimensionless) "
        "built at two hbar values drawn from (0.2, 4]; non-trivial = such an operation has a non-zero argument")
ASSUMPTIONS = [
    "TensorFlow backend not exercised (not installed)",
    "tolerances: phase space 1e-8 relative to scale (2e-5 when a homodyne post-selection is involved: finite-squeezing POVM of the "
    "gaussian backend); Fock density tensors 1e-8 (identical truncation at both hbar values; 1e-5 with homodyne select)",
    "unit conventions taken from the ops.py docstrings: X(x)=exp(-i x p/hbar), Z(p)=exp(i p x/hbar), P(s)=exp(i s x^2/2hbar), "
    "V(gamma)=exp(i gamma x^3/3hbar), CX/CZ s dimensionless",
]
REQUIRED_LABELS = {"all": ["backend:gaussian", "backend:bosonic", "backend:fock", "op:Xgate", "op:Zgate", "op:Gaussian", "op:MeasureHomodyne",
                           "op:Vgate", "api:wigner", "api:quad_expectation", "api:parity_expectation", "api:squeezing", "api:is_coherent",
                           "api:poly_quad_expectation", "api:fidelity_coherent"]}

G_ALPH = ["Xgate", "Zgate", "Pgate", "CXgate", "CZgate", "Coherent", "DisplacedSqueezed", "Dgate", "Sgate", "BSgate", "Rgate", "S2gate",
          "LossChannel", "Thermal", "MZgate", "Fouriergate"]
SENSITIVE = {"Xgate", "Zgate", "Vgate", "Gaussian", "MeasureHomodyne", "Pgate", "CXgate", "CZgate", "Coherent", "DisplacedSqueezed"}


def selftest():
    refsim.selftest()


def rescale(ops_, f):
    """arguments given in hbar1 units -> hbar2 units, f = sqrt(hbar2/hbar1)"""
    out = []
    for o in ops_:
        name, params, modes = o[0], list(o[1]), o[2]
        flags = dict(o[3]) if len(o) > 3 else {}
        if name in ("Xgate", "Zgate"):
            params[0] = params[0] * f
        elif name == "Vgate":
            params[0] = params[0] / f
        elif name == "Gaussian":
            V = spec.dec_param(params[0]) * f * f
            params[0] = spec.enc_matrix(V)
            if len(params) > 1 and params[1] is not None:
                params[1] = spec.enc_vec(spec.dec_param(params[1]) * f)
        elif name == "MeasureHomodyne" and flags.get("select") is not None:
            flags["select"] = flags["select"] * f
        out.append([name, params, modes, flags])
    return out


@st.composite
def gen_case(draw, fock=False):
    n = draw(st.integers(1, 3 if not fock else 2))
    h1 = draw(st.sampled_from([2.0, 1.0, 0.5, 0.7, 3.3]))
    h2 = draw(gen.fl(0.2, 4.0).filter(lambda x: abs(x - h1) > 0.05))
    energy = "fock" if fock else "ps"
    alph = G_ALPH + (["Vgate", "Kgate", "Fock"] if fock else [])
    ops_ = draw(gen.op_list(n, alph, energy, 1, 6, no_mz_dagger=fock))
    # make sure an hbar-sensitive operation is present
    kind = draw(st.sampled_from(["Xgate", "Zgate", "Gaussian", "MeasureHomodyne", "Vgate" if fock else "Xgate", "none"] + ([] if fock else ["Gaussian_weak_thermal"])))
    if kind == "Gaussian_weak_thermal":
        # thresholds inside Gaussian(V) (pure? thermal? diagonal?) must classify the STATE, not its units: a weakly mixed state on several
        # modes at small / large hbar, where det V = (hbar/2)^(2k) (1 + O(nbar)) is far from 1 in absolute terms
        k = draw(st.integers(3, 6))
        n = k
        h1 = draw(st.sampled_from([2.0, 0.5, 0.3, 1.0, 4.0]))
        h2 = draw(st.sampled_from([0.3, 0.5, 4.0, 2.0, 0.25]).filter(lambda x: abs(x - h1) > 0.01))
        nb = np.array([draw(st.sampled_from([1e-3, 5e-3, 0.01, 0.02, 0.05])) for _ in range(k)])
        how = draw(st.sampled_from(["thermal", "squeezed", "mixed"]))
        D = np.diag(np.concatenate([2 * nb + 1, 2 * nb + 1]))
        if how == "thermal":
            S = np.eye(2 * k)
        else:
            r = np.array([draw(gen.fl(-0.3, 0.3)) for _ in range(k)])
            S = np.diag(np.concatenate([np.exp(-r), np.exp(r)]))
            if how == "mixed":
                S = gen.orth_symplectic(draw(gen.unitary(k, ["haar"]))[1]) @ S
        V = S @ D @ S.T
        V = (V + V.T) / 2 * h1 / 2
        ops_ = [["Gaussian", [spec.enc_matrix(V), spec.enc_vec([0.0] * (2 * k))], list(range(k)), {"kw": {"decomp": True}}]]
        return {"n": n, "h1": h1, "h2": h2, "ops": ops_, "queries": draw(api_queries(n, fock))}
    m = draw(st.integers(0, n - 1))
    if kind in ("Xgate", "Zgate"):
        ops_.insert(draw(st.integers(0, len(ops_))), [kind, [draw(gen.fl(-1.0, 1.0)) * np.sqrt(h1 / 2) * (0.5 if fock else 1)], [m], {"H": True} if draw(st.booleans()) else {}])
    elif kind == "Vgate":
        ops_.insert(draw(st.integers(0, len(ops_))), ["Vgate", [draw(gen.fl(-0.05, 0.05)) / np.sqrt(h1 / 2)], [m], {}])
    elif kind == "Gaussian" and not fock:
        k = draw(st.integers(1, n))
        modes = list(draw(st.permutations(list(range(n))))[:k])
        _, V = draw(gen.covariance(k, h1, ["pure_generic", "mixed_generic", "thermal", "mixed_diag"]))
        r = [draw(gen.fl(-1.0, 1.0)) * np.sqrt(h1 / 2) for _ in range(2 * k)]
        ops_.insert(draw(st.integers(0, len(ops_))), ["Gaussian", [spec.enc_matrix(V), spec.enc_vec(r)], modes, {"kw": {"decomp": draw(st.booleans())}}])
    elif kind == "MeasureHomodyne":
        ops_.append(["MeasureHomodyne", [draw(gen.angle())], [m], {"select": draw(gen.fl(-1.0, 1.0)) * np.sqrt(h1 / 2) * (0.4 if fock else 1)}])
    return {"n": n, "h1": h1, "h2": h2, "ops": ops_, "queries": draw(api_queries(n, fock))}


@st.composite
def api_queries(draw, n, fock=False):
    """a sequence of state-method calls (the same sequence is issued on the state at both hbar values, in this order)"""
    names = ["mean_photon", "fidelity_vacuum", "fidelity_coherent", "fock_prob", "parity_expectation", "number_expectation", "displacement",
             "reduced_dm", "poly_quad_expectation", "quad_expectation"]
    if not fock:
        names += ["is_coherent", "is_squeezed", "squeezing", "is_coherent", "squeezing"]
    out = []
    for _ in range(draw(st.integers(2, 6))):
        nm = draw(st.sampled_from(names))
        m = draw(st.integers(0, n - 1))
        sub = sorted(draw(st.permutations(list(range(n))))[:draw(st.integers(1, n))])
        if nm in ("mean_photon", "is_coherent", "is_squeezed", "reduced_dm"):
            out.append([nm, m])
        elif nm == "quad_expectation":
            out.append([nm, m, draw(gen.angle())])
        elif nm == "fidelity_vacuum":
            out.append([nm])
        elif nm == "fidelity_coherent":
            out.append([nm, [[draw(gen.fl(-0.6, 0.6)), draw(gen.fl(-0.6, 0.6))] for _ in range(n)]])
        elif nm == "fock_prob":
            out.append([nm, [draw(st.integers(0, 2)) for _ in range(n)]])
        elif nm in ("parity_expectation", "squeezing", "displacement"):
            out.append([nm, sub])
        elif nm == "number_expectation":
            out.append([nm, sub[:2]])
        else:
            out.append([nm, m, draw(st.sampled_from(["xx", "pp", "xp", "n"]))])
    return out


def _flat(x):
    if x is None:
        return [float("nan")]
    if isinstance(x, (tuple, list)):
        return [z for y in x for z in _flat(y)]
    return [complex(z) for z in np.ravel(np.asarray(x))]


def run_queries(state, queries, n, hbar, cutoff=5, V=None):
    """-> list of (name, kind, values | exception type name); kind: 'dimless' | 'sqrt' | 'lin' | 'lin_sq' (how the values scale with hbar)"""
    res = []
    for q in queries:
        nm = q[0]
        kind = "dimless"
        try:
            if nm in ("mean_photon", "is_coherent", "is_squeezed"):
                v = getattr(state, nm)(q[1])
            elif nm == "reduced_dm":
                v = state.reduced_dm(q[1], cutoff=cutoff)
            elif nm == "quad_expectation":
                v = state.quad_expectation(q[1], q[2])
                kind = "quad"
            elif nm == "fidelity_vacuum":
                v = state.fidelity_vacuum()
            elif nm == "fidelity_coherent":
                v = state.fidelity_coherent([complex(a, b) for a, b in q[1]])
            elif nm == "fock_prob":
                v = state.fock_prob(list(q[1]), cutoff=cutoff)
            elif nm in ("parity_expectation", "number_expectation"):
                v = getattr(state, nm)(list(q[1]))
            elif nm == "displacement":
                v = state.displacement(list(q[1]))
            elif nm == "squeezing":
                v = state.squeezing(list(q[1]))
                # anisotropy of each mode's covariance (from the moments read before the queries): phi is rounding noise for an
                # isotropic (vacuum, thermal) mode whatever "r" the pure-state formula returns
                v = [(r_, p_, (np.hypot(V[m_ + n, m_ + n] - V[m_, m_], 2 * V[m_, m_ + n]) / (hbar / 2)) if V is not None else 1.0) for (r_, p_), m_ in zip(v, q[1])]
                kind = "squeezing"
            else:
                A = np.zeros((2 * n, 2 * n))
                m = q[1]
                if q[2] == "xx":
                    A[m, m] = 1.0
                elif q[2] == "pp":
                    A[m + n, m + n] = 1.0
                elif q[2] == "xp":
                    A[m, m + n] = A[m + n, m] = 0.5
                else:
                    A[m, m] = A[m + n, m + n] = 0.5
                v = state.poly_quad_expectation(A)
                kind = "poly2"
            res.append((nm, kind, _flat(v)))
        except Exception as exc:  # pylint: disable=broad-except
            res.append((nm, "raised", type(exc).__name__))
    return res


def compare_queries(r1, r2, h1, h2, tol):
    """-> None or (query name, detail)"""
    for (nm, kind, a), (_, kind2, b) in zip(r1, r2):
        if kind == "raised" or kind2 == "raised":
            if kind != kind2 or a != b:
                return nm, "%s: %r at hbar=%g but %r at hbar=%g" % (nm, a, h1, b, h2)
            continue
        a, b = np.array(a, complex), np.array(b, complex)
        if a.shape != b.shape:
            return nm, "%s: result shapes differ (%s vs %s)" % (nm, a.shape, b.shape)
        if kind == "quad":
            a = a / np.array([np.sqrt(h1), h1])
            b = b / np.array([np.sqrt(h2), h2])
        elif kind == "poly2":
            a = a / np.array([h1, h1 ** 2])
            b = b / np.array([h2, h2 ** 2])
        elif kind == "squeezing":
            # (r, phi) per mode: phi is undefined for r = 0, and r = arccosh(..)/2 amplifies rounding near 0
            a2, b2 = a.reshape(-1, 3), b.reshape(-1, 3)
            if float(np.max(np.abs(a2[:, 0] - b2[:, 0]))) > 1e-5:
                return nm, "squeezing r: %s at hbar=%g, %s at hbar=%g" % (a2[:, 0].real, h1, b2[:, 0].real, h2)
            for (ra, pa, ana), (rb, pb, anb) in zip(a2, b2):
                if min(abs(ana), abs(anb)) > 1e-3 and abs(np.exp(1j * pa) - np.exp(1j * pb)) > 1e-4:
                    return nm, "squeezing phi: %s at hbar=%g, %s at hbar=%g" % (pa.real, h1, pb.real, h2)
            continue
        both_nan = np.isnan(a) & np.isnan(b)
        d = np.where(both_nan, 0.0, np.abs(a - b))
        if np.any(np.isnan(d)) or float(np.max(d)) > 1e3 * tol * (1 + float(np.nanmax(np.abs(a)))):
            return nm, "%s%s = %s at hbar=%g but %s at hbar=%g (after removing the documented hbar scaling)" % (nm, "" if kind == "dimless" else "[%s]" % kind, np.round(a, 8).tolist(), h1, np.round(b, 8).tolist(), h2)
    return None


def _gauss_op_specs(ops_):
    """Gaussian(V, r) spec in the form make_op understands: r as keyword"""
    out = []
    for o in ops_:
        if o[0] == "Gaussian":
            kw = dict((o[3] or {}).get("kw", {}))
            kw["r"] = o[1][1]
            out.append(["Gaussian", [o[1][0]], o[2], {"kw": {k: (spec.dec_param(v) if isinstance(v, dict) else v) for k, v in kw.items()}}])
        else:
            out.append(o)
    return out


def _labels(ops_):
    return sorted({"op:" + o[0] for o in ops_})


def _nontrivial(ops_):
    for o in ops_:
        if o[0] in SENSITIVE:
            if o[0] == "MeasureHomodyne" or o[0] == "Gaussian" or any(isinstance(p, float) and p != 0 for p in o[1][:1]):
                return True
    return False


def check_ps(ctx, case):
    n, h1, h2, ops1 = case["n"], case["h1"], case["h2"], case["ops"]
    f = np.sqrt(h2 / h1)
    ops2 = rescale(ops1, f)
    has_hom = any(o[0] == "MeasureHomodyne" for o in ops1)
    labels = _labels(ops1)
    ran = []
    for be in ("gaussian", "bosonic"):
        try:
            s1 = sfrun.run(be, n, _gauss_op_specs(ops1), h1, seed=5).state
            s2 = sfrun.run(be, n, _gauss_op_specs(ops2), h2, seed=5).state
        except sfrun.Rejected:
            labels.append("rejected:" + be)
            continue
        except ValueError as exc:
            if "not unitary" in str(exc):  # C02 finding F38 (bloch_messiah) reached through Gaussian(V) decomposition
                labels.append("skipped_F38")
                continue
            ctx.note(case, True, labels)
            return ctx.crash(exc, be)
        except Exception as exc:  # pylint: disable=broad-except
            ctx.note(case, True, labels)
            return ctx.crash(exc, be)
        ran.append(be)
        labels.append("backend:" + be)
        m1, V1, _ = sfrun.moments_of(s1, be, h1)
        m2, V2, _ = sfrun.moments_of(s2, be, h2)
        tol = (2e-5 if has_hom else 1e-8) * (1 + float(np.max(np.abs(V1))) / (h1 / 2))
        dm = float(np.max(np.abs(m2 / np.sqrt(h2) - m1 / np.sqrt(h1))))
        dv = float(np.max(np.abs(V2 / h2 - V1 / h1)))
        if dm > tol or dv > tol:
            return _fail(ctx, case, labels, "%s.moments_not_covariant" % be, "means/sqrt(hbar) differ by %.3g, cov/hbar by %.3g between hbar=%g and hbar=%g" % (dm, dv, h1, h2), be)
        # state API
        if be == "gaussian" or not has_hom:
            mode = 0
            for name, fn, scale in (
                ("mean_photon", lambda s: np.array(s.mean_photon(mode), float), 1.0),
                ("fidelity_vacuum", lambda s: np.array([s.fidelity_vacuum()], float), 1.0),
                ("fock_prob0", lambda s: np.array([s.fock_prob([0] * n, cutoff=5)], float), 1.0),
            ):
                try:
                    a, b = fn(s1), fn(s2)
                except Exception as exc:  # pylint: disable=broad-except
                    ctx.note(case, True, labels)
                    return ctx.crash(exc, "%s.%s" % (be, name))
                if float(np.max(np.abs(a - b))) > 1e3 * tol * (1 + float(np.max(np.abs(a)))):
                    return _fail(ctx, case, labels, "%s.api.%s_depends_on_hbar" % (be, name), "%s = %s at hbar=%g but %s at hbar=%g" % (name, a, h1, b, h2), be)
            labels += ["api:quad_expectation", "api:wigner"]
            q1 = np.array(s1.quad_expectation(mode, 0.3), float)
            q2 = np.array(s2.quad_expectation(mode, 0.3), float)
            if abs(q2[0] / np.sqrt(h2) - q1[0] / np.sqrt(h1)) > 10 * tol or abs(q2[1] / h2 - q1[1] / h1) > 10 * tol:
                return _fail(ctx, case, labels, "%s.api.quad_expectation_not_covariant" % be, "quad_expectation %s (hbar %g) vs %s (hbar %g)" % (q1, h1, q2, h2), be)
            xv = np.array([-0.7, 0.1, 0.9]) * np.sqrt(h1 / 2)
            pv = np.array([-0.3, 0.5]) * np.sqrt(h1 / 2)
            W1 = np.array(s1.wigner(mode, xv, pv), float)
            W2 = np.array(s2.wigner(mode, xv * f, pv * f), float)
            if float(np.max(np.abs(W2 * f * f - W1))) > 1e3 * tol * (1 + float(np.max(np.abs(W1)))):
                return _fail(ctx, case, labels, "%s.api.wigner_not_covariant" % be, "W2(fx, fp) f^2 differs from W1(x, p) by %.3g" % float(np.max(np.abs(W2 * f * f - W1))), be)
            # a generated sequence of further state-method calls, the same on both states; afterwards the moments are read again
            # (a query must not change what later queries answer)
            qs = case.get("queries") or []
            r1q, r2q = run_queries(s1, qs, n, h1, V=V1), run_queries(s2, qs, n, h2, V=V2)
            labels += sorted({"api:" + q[0] for q in qs})
            bad = compare_queries(r1q, r2q, h1, h2, tol)
            if bad:
                return _fail(ctx, case, labels, "%s.api.%s_depends_on_hbar" % (be, bad[0]), bad[1], be)
            m1b, V1b, _ = sfrun.moments_of(s1, be, h1)
            m2b, V2b, _ = sfrun.moments_of(s2, be, h2)
            if float(np.max(np.abs(V1b - V1))) > tol * h1 or float(np.max(np.abs(V2b - V2))) > tol * h2 or float(np.max(np.abs(m1b - m1))) > tol or float(np.max(np.abs(m2b - m2))) > tol:
                return _fail(ctx, case, labels, "%s.api.query_changed_state" % be, "means / cov read after the queries %s differ from those read before (hbar %g: %.3g, hbar %g: %.3g)" % (
                    [q[0] for q in qs], h1, float(np.max(np.abs(V1b - V1))), h2, float(np.max(np.abs(V2b - V2)))), be)
    # second opinion: refsim at both values (Gaussian programs only)
    try:
        r1 = spec.ref_run(n, [o if o[0] != "Gaussian" else ["Gaussian", o[1], o[2], {}] for o in ops1], h1)
        r2 = spec.ref_run(n, [o if o[0] != "Gaussian" else ["Gaussian", o[1], o[2], {}] for o in ops2], h2)
        if float(np.max(np.abs(r2.V / h2 - r1.V / h1))) > 1e-9 * (1 + float(np.max(np.abs(r1.V)))) or float(np.max(np.abs(r2.mu / np.sqrt(h2) - r1.mu / np.sqrt(h1)))) > 1e-9 * (1 + float(np.max(np.abs(r1.mu)))):
            raise AssertionError("harness rescaling rules are inconsistent with refsim for %r" % (case,))
    except refsim.RefError:
        pass
    ctx.note(case, nontrivial=bool(ran) and _nontrivial(ops1), labels=labels)
    return None


def _fail(ctx, case, labels, sig, detail, be):
    ctx.note(case, True, labels)
    # root-cause label: the hbar-sensitive operation classes present
    sens = sorted({o[0] for o in case["ops"] if o[0] in ("Xgate", "Zgate", "Vgate", "Gaussian", "MeasureHomodyne")})
    return ctx.fail(sig + "." + "+".join(sens or ["none"]), detail)


def check_fock(ctx, case):
    n, h1, h2, ops1 = case["n"], case["h1"], case["h2"], case["ops"]
    f = np.sqrt(h2 / h1)
    ops2 = rescale(ops1, f)
    has_hom = any(o[0] == "MeasureHomodyne" for o in ops1)
    labels = _labels(ops1)
    D = 7
    try:
        s1 = sfrun.run("fock", n, ops1, h1, D, True, seed=5).state
        s2 = sfrun.run("fock", n, ops2, h2, D, True, seed=5).state
    except sfrun.Rejected:
        ctx.note(case, False, labels + ["rejected:fock"])
        return None
    except Exception as exc:  # pylint: disable=broad-except
        ctx.note(case, True, labels)
        return ctx.crash(exc, "fock")
    labels.append("backend:fock")
    r1, r2 = fockref.state_dm(s1), fockref.state_dm(s2)
    tol = 1e-5 if has_hom else 1e-8
    d = float(np.max(np.abs(r1 - r2)))
    if d > tol:
        return _fail(ctx, case, labels, "fock.state_depends_on_hbar", "density tensors at hbar=%g and hbar=%g differ by %.3g" % (h1, h2, d), "fock")
    labels += ["api:quad_expectation", "api:wigner"]
    q1 = np.array(s1.quad_expectation(0, 0.3), float)
    q2 = np.array(s2.quad_expectation(0, 0.3), float)
    if abs(q2[0] / np.sqrt(h2) - q1[0] / np.sqrt(h1)) > 1e3 * tol or abs(q2[1] / h2 - q1[1] / h1) > 1e3 * tol:
        return _fail(ctx, case, labels, "fock.api.quad_expectation_not_covariant", "quad_expectation %s (hbar %g) vs %s (hbar %g)" % (q1, h1, q2, h2), "fock")
    xv = np.array([-0.7, 0.1, 0.9]) * np.sqrt(h1 / 2)
    pv = np.array([-0.3, 0.5]) * np.sqrt(h1 / 2)
    W1 = np.array(s1.wigner(0, xv, pv), float)
    W2 = np.array(s2.wigner(0, xv * f, pv * f), float)
    if float(np.max(np.abs(W2 * f * f - W1))) > 1e3 * tol * (1 + float(np.max(np.abs(W1)))):
        return _fail(ctx, case, labels, "fock.api.wigner_not_covariant", "W2(fx, fp) f^2 differs from W1(x, p) by %.3g" % float(np.max(np.abs(W2 * f * f - W1))), "fock")
    qs = [q for q in (case.get("queries") or []) if q[0] not in ("displacement",)]
    labels += sorted({"api:" + q[0] for q in qs})
    bad = compare_queries(run_queries(s1, qs, n, h1, D), run_queries(s2, qs, n, h2, D), h1, h2, tol)
    if bad:
        return _fail(ctx, case, labels, "fock.api.%s_depends_on_hbar" % bad[0], bad[1], "fock")
    ctx.note(case, nontrivial=_nontrivial(ops1), labels=labels)
    return None


SUBS = [
    Sub("phase_space", check=check_ps, strategy=lambda ctx: gen_case(False), examples={"quick": 500, "thorough": 5000},
        shards={"quick": 2, "thorough": 16}, rule="gaussian + bosonic at two hbar values with rescaled arguments; moments, state API, refsim cross-check"),
    Sub("fock", check=check_fock, strategy=lambda ctx: gen_case(True), examples={"quick": 60, "thorough": 600},
        shards={"quick": 3, "thorough": 16}, rule="fock backend at two hbar values: identical density tensors; quad_expectation / wigner covariance"),
]

MANIFEST = {
    "technique": "Hypothesis metamorphic testing: the same experiment at two hbar values with arguments rescaled by their documented units",
    "text": ("Generated programs containing the hbar-sensitive front-end operations are run at two hbar values on every backend; dimensionless "
             "results (Fock states, photon numbers, fidelities) must be equal and means / covariances / Wigner functions must scale as documented."),
}
