"""C09 - running programs is compositional and leaves user programs untouched.

Rule-based machine over one engine per backend.  The model is refsim applied to the concatenation of every segment executed
since the last reset (post-selected measurements fix all outcomes, so feed-forward values are known to the model).

  compositional   run([p1, p2]) == run(p1); run(p2) == one concatenated program == refsim of the concatenation
  reset           after reset() the engine behaves like a fresh one, run_progs is empty
  untouched       deep snapshot of every user Program before == after compile / run / failed run (ignoring what the docs say
                  changes: lock, RegRef.val, values bound to free parameters); re-running the same object on a fresh engine
                  gives the same state; compile() returns a different Program object
"""
from __future__ import annotations

import numpy as np
from hypothesis import strategies as st
from hypothesis.stateful import RuleBasedStateMachine, initialize, precondition, rule

from vf import gen, refsim, sfrun, spec
from vf.core import Sub, Violation

RULE = ("histories of <= 12 engine calls {add segment (1..4 Gaussian commands incl. decomposable gates, .H, post-selected homodyne, "
        "feed-forward of a measured value, free parameter), run pending segments as one list / successively / concatenated, reset, "
        "compile, re-run same object on a fresh engine, failing run} on gaussian, fock and bosonic engines; non-trivial = >= 2 "
        "segments each with a non-identity command were composed, or the same Program object was run twice")
ASSUMPTIONS = [
    "states compared with refsim at 1e-6 (post-selected homodyne: finite-squeezing POVM of the phase-space backends); fock (cutoff 9, low "
    "energy) at 5e-3 on first and second moments",
    "bosonic engine: every Program restarts the simulator (finding F10, open): a bosonic state that equals the LAST Program run alone "
    "from vacuum is attributed to F10, any other deviation is a violation",
    "snapshots ignore Program.locked, RegRef.val and the values bound to free parameters (documented effects of running)",
    "numpy's global RNG is seeded identically before both sides of every comparison",
    "Engine.reset() is only called on engines that have run at least one program (on a never-used local engine it raises AttributeError: "
    "the backend has no circuit yet; the documentation only describes reset after a run)",
]
REQUIRED_LABELS = {"all": ["backend:gaussian", "backend:fock", "backend:bosonic", "list_vs_successive", "reset_then_run", "feedforward_across_segments",
                           "dagger_decomposed", "rerun_same_object", "compile_untouched"]}

ALPH = ["Dgate", "Sgate", "Rgate", "BSgate", "S2gate", "MZgate", "Xgate", "Zgate", "Pgate", "CXgate", "CZgate", "Fouriergate", "LossChannel", "Coherent", "Squeezed"]
BACKENDS = ["gaussian", "fock", "bosonic"]
N = 2


def selftest():
    refsim.selftest()


@st.composite
def segment_ops(draw, measured, allow_ff=True):
    """1..4 commands; may measure a mode (select) and may use an earlier measured value"""
    ops_ = draw(gen.op_list(N, ALPH, "fock", 1, 3, no_mz_dagger=True))
    for o in ops_:
        if o[0] in ("Pgate", "CXgate", "CZgate", "Xgate", "Zgate"):
            o[1][0] = float(np.clip(o[1][0], -0.3, 0.3))
    if draw(st.integers(0, 3)) == 0:
        # a mergeable neighbour: same operation on the same modes with its own parameters (what the optimiser merges)
        k = draw(st.integers(0, len(ops_) - 1))
        if ops_[k][0] not in ("Coherent", "Squeezed", "MZgate"):
            twin = [ops_[k][0], draw(gen.op_params(ops_[k][0], "fock")), list(ops_[k][2]), dict(ops_[k][3])]
            if twin[0] in ("Pgate", "CXgate", "CZgate", "Xgate", "Zgate"):
                twin[1][0] = float(np.clip(twin[1][0], -0.3, 0.3))
            ops_.insert(k + 1, twin)
    extra = draw(st.sampled_from(["none", "none", "measure", "feedforward", "free"]))
    if extra == "measure":
        m = draw(st.integers(0, N - 1))
        ops_.append(["MeasureHomodyne", [draw(st.sampled_from([0.0, 0.4]))], [m], {"select": draw(gen.fl(-0.5, 0.5))}])
    elif extra == "feedforward" and measured and allow_ff:
        src = draw(st.sampled_from(sorted(measured)))
        tgt = draw(st.integers(0, N - 1))
        ops_.append(["Dgate", [["mul", 0.5, ["absmeas", src]], 0.3], [tgt], {}])
    elif extra == "free":
        ops_.append(["Rgate", [["free", "a"]], [draw(st.integers(0, N - 1))], {}])
    return ops_


def numeric_ops(ops_, values, bind):
    """substitute measured values / free parameters -> numeric specs for refsim"""
    out = []
    for o in ops_:
        ps = []
        for p in o[1]:
            if isinstance(p, list) and p and p[0] == "mul":
                ps.append(p[1] * abs(values[p[2][1]]))
            elif isinstance(p, list) and p and p[0] == "free":
                ps.append(bind[p[1]])
            else:
                ps.append(p)
        out.append([o[0], ps, o[2], o[3] if len(o) > 3 else {}])
    return out


class World:
    def __init__(self, ctx, bind):
        import strawberryfields as sf

        self.sf = sf
        self.ctx = ctx
        self.bind = {"a": bind}
        self.labels = set()
        self.nontrivial = False
        self.eng = {b: self._fresh_engine(b) for b in BACKENDS}
        self.executed = []       # op specs (symbolic form) executed since the last reset, per segment
        self.pending = []        # op specs of segments not yet run
        self.progs = {b: [] for b in BACKENDS}   # user Program objects run since the last reset
        self.prog_ops = {b: [] for b in BACKENDS}  # op specs each of them contains
        self.snaps = {b: [] for b in BACKENDS}
        self.values = {}         # mode -> last post-selected outcome
        self.dead = set()
        self.ff_used = False

    def _fresh_engine(self, b):
        opts = {"cutoff_dim": 9} if b == "fock" else {}
        return self.sf.Engine(b, backend_options=opts)

    def measured_modes(self):
        return set(self.values)

    # ---- building ----------------------------------------------------------------------------
    def add_segment(self, ops_):
        if any(isinstance(p, list) and p and p[0] == "mul" for o in ops_ for p in o[1]):
            self.ff_used = True
        for o in ops_:
            if o[0] == "MeasureHomodyne":
                self.values[o[2][0]] = o[3]["select"]
        self.pending.append(ops_)
        if any((o[3] if len(o) > 3 else {}).get("H") and o[0] in ("Xgate", "Zgate", "Pgate", "CXgate", "MZgate", "S2gate", "Fouriergate") for o in ops_):
            self.labels.add("dagger_decomposed")

    def _build(self, b, ops_, prev):
        from strawberryfields import ops

        sf = self.sf
        prog = sf.Program(N) if prev is None else sf.Program(prev)
        prog.params("a")  # every program declares the free parameter, so that one ``args`` dict fits a list of programs
        with prog.context as q:
            for o in ops_:
                ps = []
                for p in o[1]:
                    if isinstance(p, list) and p and p[0] == "mul":
                        ps.append(p[1] * sf.math.Abs(q[p[2][1]].par))
                    elif isinstance(p, list) and p and p[0] == "free":
                        ps.append(prog.params(p[1]))
                    else:
                        ps.append(spec.dec_param(p))
                flags = o[3] if len(o) > 3 else {}
                kw = {"select": flags["select"]} if "select" in flags else {}
                op = ops.Fouriergate() if o[0] == "Fouriergate" else getattr(ops, o[0])(*ps, **kw)
                if flags.get("H"):
                    op = op.H
                regs = tuple(q[m] for m in o[2])
                op | (regs if len(regs) > 1 else regs[0])
        return prog

    # ---- oracle ------------------------------------------------------------------------------
    def model_state(self, segments, start=0):
        """refsim of the segments from index ``start`` on (measured values of earlier segments are known to later ones)"""
        ref = refsim.Ref(N, 2.0)
        vals = {0: 0.0, 1: 0.0}
        for k, seg in enumerate(segments):
            for o in seg:
                if k >= start:
                    num = numeric_ops([o], vals, self.bind)[0]
                    spec.ref_run(N, [num], 2.0, ref)
                if o[0] == "MeasureHomodyne":
                    vals[o[2][0]] = o[3]["select"]
        return ref

    def compare(self, b, state, segments, what, last_prog=1):
        """``last_prog``: number of trailing segments that were submitted as the last Program (concatenated run: all of them)"""
        ref = self.model_state(segments)
        if b == "fock":
            from vf.props.c01 import tail_weight

            # truncation guard: every segment boundary of the reference must have negligible weight above the cutoff
            if any(tail_weight(self.model_state(segments[:k]), 9) > 1e-5 for k in range(1, len(segments) + 1)):
                self.dead.add("fock")
                self.labels.add("fock_truncation_dominated")
                return None
        be = b
        mu, V, _ = sfrun.moments_of(state, be, 2.0)
        tol = (1e-6 if b != "fock" else 5e-3) * (1 + float(np.max(np.abs(ref.V))))
        d = max(float(np.max(np.abs(mu - ref.mu))), float(np.max(np.abs(V - ref.V))))
        if d > tol:
            if b == "bosonic" and len(segments) > 1:
                last = self.model_state(segments, start=len(segments) - last_prog)
                d2 = max(float(np.max(np.abs(mu - last.mu))), float(np.max(np.abs(V - last.V))))
                if d2 <= tol:
                    return self.ctx.fail("F10.bosonic_engine_restarts_per_program", "bosonic engine: state after %d segments equals the last Program run alone from vacuum" % len(segments))
            return self.ctx.fail("%s.%s" % (what, b), "%s: state differs from the reference of the concatenated segments by %.3g (%d segments)" % (what, d, len(segments)))
        return None

    # ---- engine calls ------------------------------------------------------------------------
    def run_pending(self, mode):
        """mode: 'list' | 'successive' | 'concat' | 'list_opt' (one list, compile_options={"optimize": True})"""
        if not self.pending:
            return None
        segs = self.pending
        self.pending = []
        if len(self.executed) + len(segs) >= 2 and sum(1 for s in self.executed + segs if s) >= 2:
            self.nontrivial = True
        if len(segs) >= 2:
            self.labels.add("list_vs_successive")
        if any(isinstance(p, list) and p and p[0] == "mul" for s in segs for o in s for p in o[1]):
            self.labels.add("feedforward_across_segments")
        for b in BACKENDS:
            if b in self.dead:
                continue
            self.labels.add("backend:" + b)
            try:
                prev = self.progs[b][-1] if self.progs[b] else None
                if mode == "concat":
                    flat = [o for s in segs for o in s]
                    built = [self._build(b, flat, prev)]
                else:
                    built = []
                    for s in segs:
                        built.append(self._build(b, s, prev))
                        prev = built[-1]
                snaps = [spec.snapshot(p) for p in built]
                np.random.seed(7)
                args = {"a": self.bind["a"]}
                if mode == "successive":
                    res = None
                    for p in built:
                        res = self.eng[b].run(p, args=args)
                elif mode == "list_opt":
                    self.labels.add("run_with_optimize")
                    res = self.eng[b].run(built if len(built) > 1 else built[0], args=args, compile_options={"optimize": True})
                else:
                    res = self.eng[b].run(built if len(built) > 1 else built[0], args=args)
            except Violation:
                raise
            except Exception as exc:  # pylint: disable=broad-except
                r = self._crash(b, exc, "run_" + mode)
                if r is not None:
                    return r
                continue
            self.progs[b] += built
            self.prog_ops[b] += ([[o for s_ in segs for o in s_]] if mode == "concat" else [list(s_) for s_ in segs])
            for p, sn in zip(built, snaps):
                d = spec.snapshot_diff(sn, spec.snapshot(p))
                if d:
                    return self.ctx.fail("run.mutated_program.%s" % b, "running changed the user's program: " + d)
            r = self.compare(b, res.state, self.executed + segs, "compositional.%s" % mode, last_prog=len(segs) if mode == "concat" else 1)
            if r is not None:
                return r
            if len(self.eng[b].run_progs) != len(self.progs[b]):
                return self.ctx.fail("engine.run_progs_count.%s" % b, "engine.run_progs has %d entries after %d program runs" % (len(self.eng[b].run_progs), len(self.progs[b])))
        self.executed += segs
        return None

    def reset(self):
        self.pending = []
        for b in BACKENDS:
            if b in self.dead:
                continue
            if not self.eng[b].run_progs:
                continue  # reset() is only documented for engines that have run something (a never-used local engine has no circuit yet)
            try:
                self.eng[b].reset()
            except Exception as exc:  # pylint: disable=broad-except
                r = self._crash(b, exc, "reset")
                if r is not None:
                    return r
                continue
            if self.eng[b].run_progs:
                return self.ctx.fail("reset.run_progs_not_empty.%s" % b, "run_progs holds %d programs after reset()" % len(self.eng[b].run_progs))
            self.progs[b] = []
            self.prog_ops[b] = []
        self.executed = []
        self.values = {}
        self.labels.add("reset_then_run")
        return None

    def rerun_last(self):
        """run the first executed user Program object again on a fresh engine: same state as the model of that segment alone"""
        if not self.executed:
            return None
        for b in BACKENDS:
            if b in self.dead or not self.progs[b]:
                continue
            seg0 = self.prog_ops[b][0]
            if any(isinstance(p, list) and p and p[0] == "mul" for o in seg0 for p in o[1]):
                continue
            self.labels.add("rerun_same_object")
            self.nontrivial = True
            p = self.progs[b][0]
            sn = spec.snapshot(p)
            try:
                np.random.seed(7)
                res = self._fresh_engine(b).run(p, args={"a": self.bind["a"]} if "a" in p.free_params else None)
            except Exception as exc:  # pylint: disable=broad-except
                r = self._crash(b, exc, "rerun")
                if r is not None:
                    return r
                continue
            r = self.compare(b, res.state, [seg0], "rerun_same_object")
            if r is not None:
                return r
            d = spec.snapshot_diff(sn, spec.snapshot(p))
            if d:
                return self.ctx.fail("run.mutated_program.%s" % b, "re-running changed the user's program: " + d)
        return None

    def compile_check(self, compiler, optimize=False, shots=None):
        """compile (optionally with optimize=True, or Program.optimize() for compiler 'optimize') a freshly built copy of the first
        executed segment: source untouched, result is another object, and running the compiled program gives the same state; the
        source, run afterwards, still gives the same state"""
        if not self.executed:
            return None
        seg0 = self.executed[0]
        if any(isinstance(p, list) and p and p[0] == "mul" for o in seg0 for p in o[1]) and compiler == "gaussian_unitary":
            return None
        from strawberryfields.program_utils import CircuitError

        self.labels.add("compile_untouched")
        try:
            p = self._build("gaussian", seg0, None)
            sn = spec.snapshot(p)
            if "a" in p.free_params and compiler == "gaussian_unitary":
                p.bind_params({"a": self.bind["a"]})
                sn = spec.snapshot(p)
            if optimize:
                self.labels.add("compile_with_optimize")
            kw = {} if shots is None else {"shots": shots}  # run options given to compile() belong to the compiled copy only
            if kw:
                self.labels.add("compile_with_run_options")
            c = p.optimize() if compiler == "optimize" else p.compile(compiler=compiler, optimize=optimize, **kw)
            if kw and compiler != "optimize" and c.run_options.get("shots") != shots:
                return self.ctx.fail("compile.run_option_not_stored", "compile(shots=%r) returned a program with run_options %r" % (shots, c.run_options))
        except CircuitError:
            return None
        except Exception as exc:  # pylint: disable=broad-except
            return self._crash("gaussian", exc, "compile_" + compiler) or None
        if c is p:
            return self.ctx.fail("compile.returned_same_object", "compile() returned the source program object")
        d = spec.snapshot_diff(sn, spec.snapshot(p))
        if d:
            return self.ctx.fail("compile.mutated_program.%s" % compiler, "compile(%s) changed the user's program: %s" % (compiler, d))
        try:
            np.random.seed(7)
            # (shots stored in the compiled copy are overridden: homodyne with several shots is not implemented on this backend)
            res = self._fresh_engine("gaussian").run(c, args={"a": self.bind["a"]} if "a" in c.free_params else None, **({} if shots is None else {"shots": 1}))
        except Exception as exc:  # pylint: disable=broad-except
            return self._crash("gaussian", exc, "run_compiled_" + compiler) or None
        r = self.compare("gaussian", res.state, [seg0], "run_compiled.%s" % compiler)
        if r is not None:
            return r
        d = spec.snapshot_diff(sn, spec.snapshot(p))
        if d:
            return self.ctx.fail("compile.mutated_program.%s" % compiler, "running the compiled copy changed the user's program: " + d)
        if optimize or compiler == "optimize":
            # the source program, run after it was compiled/optimised, still computes what it computed before
            try:
                np.random.seed(7)
                res = self._fresh_engine("gaussian").run(p, args={"a": self.bind["a"]} if "a" in p.free_params else None)
            except Exception as exc:  # pylint: disable=broad-except
                return self._crash("gaussian", exc, "run_source_after_" + compiler) or None
            r = self.compare("gaussian", res.state, [seg0], "run_source_after_optimize.%s" % compiler)
            if r is not None:
                return r
        return None

    def failing_run(self):
        """a run that raises (complex displacement amplitude with .H is rejected by the backend) must leave the program untouched"""
        from strawberryfields import ops

        sf = self.sf
        p = sf.Program(N)
        with p.context as q:
            ops.Sgate(0.2) | q[0]
            ops.Dgate(0.3 + 0.1j).H | q[1]
        sn = spec.snapshot(p)
        try:
            self._fresh_engine("gaussian").run(p)
            return None  # accepted: nothing to check
        except Exception:  # pylint: disable=broad-except
            pass
        self.labels.add("failed_run")
        d = spec.snapshot_diff(sn, spec.snapshot(p), ignore_meta=())
        if d:
            return self.ctx.fail("run.failed_run_mutated_program", "a run that raised left the user's program changed: " + d)
        return None

    def _crash(self, b, exc, where):
        from vf.core import crash_signature

        owner, loc = crash_signature(exc)
        self.dead.add(b)
        return self.ctx.fail("crash.%s.%s.%s@%s" % (b, where, type(exc).__name__, loc), "%s: %s" % (type(exc).__name__, str(exc)[:200]))


def check_history(ctx, case):
    w = World(ctx, case["bind"])
    r = None
    for a in case["history"]:
        if a[0] == "segment":
            w.add_segment(a[1])
        elif a[0] == "run":
            r = w.run_pending(a[1])
        elif a[0] == "reset":
            r = w.reset()
        elif a[0] == "rerun":
            r = w.rerun_last()
        elif a[0] == "compile":
            r = w.compile_check(a[1], bool(a[2]) if len(a) > 2 else False, a[3] if len(a) > 3 else None)
        elif a[0] == "failing_run":
            r = w.failing_run()
    if w.pending:
        r = w.run_pending("list")
    ctx.note(case, nontrivial=w.nontrivial, labels=sorted(w.labels))
    return r


def make_machine(ctx):
    class RunMachine(RuleBasedStateMachine):
        def __init__(self):
            super().__init__()
            self.case = None
            self.world = None

        @initialize(bind=gen.fl(-1.0, 1.0))
        def init(self, bind):
            self.case = {"bind": bind, "history": []}
            ctx.begin_case(self.case)
            self.world = World(ctx, bind)

        @rule(data=st.data())
        def segment(self, data):
            # F7 (open): MeasuredParameter symbols are cached by name, so two live programs that use the measured value of the
            # same mode share one symbol bound to the RegRef of the program built last; at most one feed-forward segment per history
            ops_ = data.draw(segment_ops(self.world.measured_modes(), allow_ff=not self.world.ff_used))
            self.case["history"].append(["segment", ops_])
            self.world.add_segment(ops_)

        @precondition(lambda self: self.world is not None and self.world.pending)
        @rule(mode=st.sampled_from(["list", "successive", "concat", "list_opt"]))
        def run(self, mode):
            self.case["history"].append(["run", mode])
            self.world.run_pending(mode)

        @precondition(lambda self: self.world is not None and len(self.world.pending) >= 2)
        @rule(mode=st.sampled_from(["list", "successive", "concat", "list_opt"]))
        def run_several(self, mode):
            self.case["history"].append(["run", mode])
            self.world.run_pending(mode)

        @precondition(lambda self: self.world is not None and self.world.executed)
        @rule()
        def reset(self):
            self.case["history"].append(["reset"])
            self.world.reset()

        @precondition(lambda self: self.world is not None and self.world.executed)
        @rule()
        def rerun(self):
            self.case["history"].append(["rerun"])
            self.world.rerun_last()

        @precondition(lambda self: self.world is not None and self.world.executed)
        @rule(compiler=st.sampled_from(["gaussian", "fock", "bosonic", "gaussian_unitary", "optimize"]), optimize=st.booleans(), shots=st.sampled_from([None, None, 7]))
        def compile(self, compiler, optimize, shots):
            self.case["history"].append(["compile", compiler, optimize, shots])
            self.world.compile_check(compiler, optimize, shots)

        @rule()
        def failing_run(self):
            self.case["history"].append(["failing_run"])
            self.world.failing_run()

        def teardown(self):
            if self.world is not None:
                if self.world.pending:
                    self.case["history"].append(["run", "list"])
                    self.world.run_pending("list")
                ctx.note(self.case, nontrivial=self.world.nontrivial, labels=sorted(self.world.labels))

    return RunMachine


SUBS = [
    Sub("run_machine", check=check_history, machine=make_machine, examples={"quick": 110, "thorough": 600}, steps={"quick": 10, "thorough": 14},
        shards={"quick": 5, "thorough": 16}, rule="rule-based machine over segment / run (list, successive, concatenated) / reset / rerun / compile / failing run on three engines"),
]

MANIFEST = {
    "technique": "Hypothesis stateful (rule-based) machine; metamorphic relations between call patterns with a refsim model of the concatenated history; deep snapshots for immutability",
    "text": ("Generated histories of engine calls are executed on a gaussian, a fock and a bosonic engine; after every run the state must equal "
             "refsim applied to all segments since the last reset whichever way they were submitted (one list, successive calls, one concatenated "
             "program, with feed-forward of post-selected outcomes across segments), reset must restore a fresh engine, and deep snapshots show "
             "that compile, run, re-run and failing runs leave the user's programs untouched."),
}
