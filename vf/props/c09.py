"""C09 - running programs is compositional and leaves user programs untouched.

Rule-based machine over one engine per backend.  The model is refsim applied to the concatenation of every segment executed
since the last reset (post-selected measurements fix all outcomes, so feed-forward values are known to the model).

  compositional   run([p1, p2]) == run((p1, p2)) == run(p1); run(p2) == one concatenated program == refsim of the concatenation,
                  whether follow-up programs are built as Program(predecessor) or as fresh Program(n), whatever run options
                  (modes=[..] / [] / shots) the individual calls were given, with a new value of the free parameter per call;
                  the same Program object may be submitted again to the same engine (next call, or twice in one list); a call
                  the engine refuses before executing anything changes nothing
  reset           after reset() the engine behaves like a fresh one (also for a Program object that was run before the reset, and
                  with new backend options), run_progs is empty, the programs run before hold no measured values
  untouched       deep snapshot of every user Program before == after compile / run / failed run / refused run (ignoring what the
                  docs say changes: lock, RegRef.val, values bound to free parameters); re-running the same object on a fresh
                  engine gives the same state; compile() returns a different Program object

Sub-check `continuation_del`: A; B = Program(A) that deletes a subsystem inherited from A [; C = Program(B)]: one list, successive calls and
the concatenated single program give refsim's reduced state of the remaining modes, and writing or running B leaves A untouched.
"""
from __future__ import annotations

import numpy as np
from hypothesis import strategies as st
from hypothesis.stateful import RuleBasedStateMachine, initialize, precondition, rule

from vf import gen, refsim, sfrun, spec
from vf.core import Sub, Violation

RULE = ("histories of <= 12 engine calls {add segment (1..4 Gaussian commands incl. decomposable gates, .H, post-selected homodyne, "
        "feed-forward of a measured value / free parameter in first or later parameter positions of plain, daggered and decomposable "
        "gates), run pending segments as one list / tuple / successively / concatenated with follow-up programs built from the "
        "predecessor or as fresh Program(n), with run options (modes, shots) and a new value of the free parameter per call, run the "
        "same Program object again on the same engine (next call / twice in one list / after reset), reset (optionally with backend "
        "options), compile, re-run same object on a fresh engine, failing run, refused run followed by a valid one} on gaussian, fock "
        "and bosonic engines; non-trivial = >= 2 segments each with a non-identity command were composed, or the same Program object "
        "was run twice")
ASSUMPTIONS = [
    "states compared with refsim at 1e-6 (post-selected homodyne: finite-squeezing POVM of the phase-space backends); fock (cutoff 9, low "
    "energy) at 5e-3 on first and second moments",
    "bosonic engine: every Program restarts the simulator (finding F10, open): a bosonic state that equals the LAST Program run alone "
    "from vacuum is attributed to F10 (also: the last Programs run from vacuum when the very last ones were optimised to empty circuits, "
    "which restart nothing), any other deviation is a violation",
    "snapshots ignore Program.locked, RegRef.val and the values bound to free parameters (documented effects of running)",
    "numpy's global RNG is seeded identically before both sides of every comparison",
    "Engine.reset() is only called on engines that have run at least one program (on a never-used local engine it raises AttributeError: "
    "the backend has no circuit yet; the documentation only describes reset after a run)",
    "a run that the engine refuses before executing anything (register mismatch -> RuntimeError, post-selection with shots > 1 -> "
    "NotImplementedError) is not appended to Engine.run_progs; the state afterwards must be that of the programs that were run",
    "Engine.reset docstring: 'All registers of previously run Programs are cleared of measured values' and 'backend_options: keyword "
    "arguments for the backend, updating (overriding) old values' (checked with cutoff_dim of the fock engine: 9 -> 10)",
    "run option modes=[..] (ascending) returns the reduced state of those modes, modes=[] returns no state (LocalEngine.run docstring); "
    "neither changes the computation that later calls continue",
    "programs that use a measured parameter are not submitted a second time (open finding F7: measured-parameter symbols are shared "
    "by name between live programs)",
]
REQUIRED_LABELS = {"all": ["backend:gaussian", "backend:fock", "backend:bosonic", "list_vs_successive", "reset_then_run", "feedforward_across_segments",
                           "dagger_decomposed", "rerun_same_object", "compile_untouched",
                           # input classes added by the generator audit (each some hundred times per quick run at seeds 1..5)
                           "fresh_program_follows", "repeat_next_call", "repeat_in_one_list", "old_object_after_reset", "tuple_of_programs",
                           "run_option_modes", "run_option_modes_empty", "run_option_shots", "refused_run", "reset_with_backend_options", "continuation_deletes_inherited_mode", "continuation_of_continuation",
                           "reset_clears_measured_values", "symbolic_dagger", "symbolic_decomposed", "op:Interferometer"]}
DECOMPOSED = ("Xgate", "Zgate", "Pgate", "CXgate", "CZgate", "MZgate", "S2gate", "Fouriergate")

ALPH = ["Dgate", "Sgate", "Rgate", "BSgate", "S2gate", "MZgate", "Xgate", "Zgate", "Pgate", "CXgate", "CZgate", "Fouriergate", "LossChannel", "Coherent", "Squeezed"]
ALPH2 = ["Interferometer", "DisplacedSqueezed", "Thermal", "Vacuum"]
UNSUPPORTED = {"bosonic": ("Interferometer",)}  # the bosonic compiler rejects it (CircuitError): histories with it run on two engines
BACKENDS = ["gaussian", "fock", "bosonic"]
N = 2


def selftest():
    refsim.selftest()
    # the truncation guard on a closed form: coherent state |alpha|^2 = 1, weight above 9 photons = 1 - sum_{n<9} e^-1 / n!
    ref = refsim.Ref(1, 2.0)
    ref.apply("Coherent", [1.0, 0.3], [0])
    exact = 1.0 - float(np.exp(-1.0)) * sum(1.0 / float(np.prod(np.arange(1, n + 1))) for n in range(9))
    assert abs(tail_weight(ref, 9) - exact) < 1e-12, (tail_weight(ref, 9), exact)


def tail_weight(ref, cutoff):
    """largest per-mode weight of the reference state on Fock levels >= cutoff (thewalrus' recursive single-mode density matrix;
    same quantity as vf.props.c01.tail_weight, three orders of magnitude faster than summing hafnians)"""
    from thewalrus.quantum import density_matrix

    worst = 0.0
    for m in range(ref.n):
        mu, V = ref.reduced([m])
        rho = density_matrix(mu, V, cutoff=cutoff, hbar=ref.h, normalize=False)
        worst = max(worst, 1.0 - float(np.real(np.trace(rho))))
    return worst


# symbolic parameter ASTs of this module: ["free", "a"] | ["absmeas", mode] | ["mul", number, AST]
def _has(p, tag):
    if not (isinstance(p, list) and p):
        return False
    return p[0] == tag or any(_has(x, tag) for x in p[1:])


def seg_has(ops_, tag):
    return any(_has(p, tag) for o in ops_ for p in o[1])


def _flags(o):
    return o[3] if len(o) > 3 else {}


def _eval(p, values, bind):
    if isinstance(p, list) and p:
        if p[0] == "free":
            return bind[p[1]]
        if p[0] == "absmeas":
            return abs(values[p[1]])
        if p[0] == "mul":
            return p[1] * _eval(p[2], values, bind)
    return p


def ff_variants(ff, tgt):
    """a gate whose parameter is the measured value: first parameter of a plain / daggered / decomposed-and-daggered gate, or a
    later parameter (Gate.apply negates the first parameter of a daggered gate, symbolic or not)"""
    return [["Dgate", [ff, 0.3], [tgt], {}],
            ["Dgate", [ff, 0.3], [tgt], {"H": True}],
            ["Zgate", [ff], [tgt], {"H": True}],
            ["Sgate", [0.2, ff], [tgt], {}],
            ["BSgate", [ff, 0.2], [tgt, 1 - tgt], {"H": True}],
            ["Xgate", [ff], [tgt], {}]]


def free_variants(m):
    a = ["free", "a"]
    return [["Rgate", [a], [m], {}],
            ["Rgate", [a], [m], {"H": True}],
            ["BSgate", [0.4, a], [m, 1 - m], {}],
            ["Zgate", [["mul", 0.6, a]], [m], {"H": True}],
            ["S2gate", [["mul", 0.3, a], 0.1], [m, 1 - m], {"H": True}],
            ["BSgate", [a, 0.3], [m, 1 - m], {"H": True}],
            ["Xgate", [["mul", 0.5, a]], [m], {}]]


@st.composite
def segment_ops(draw, measured, allow_ff=True):
    """1..4 commands; may measure a mode (select) and may use an earlier measured value"""
    ops_ = draw(gen.op_list(N, ALPH, "fock", 1, 3))
    for o in ops_:
        if o[0] in ("Pgate", "CXgate", "CZgate", "Xgate", "Zgate"):
            o[1][0] = float(np.clip(o[1][0], -0.3, 0.3))
    if draw(st.integers(0, 3)) == 0:
        # a mergeable neighbour: same operation on the same modes with its own parameters (what the optimiser merges)
        k = draw(st.integers(0, len(ops_) - 1))
        if ops_[k][0] not in ("Coherent", "Squeezed", "MZgate"):
            twin = [ops_[k][0], draw(gen.op_params(ops_[k][0], "fock")), list(ops_[k][2]), dict(ops_[k][3])]
            if twin[0] in ("Pgate", "CXgate", "CZgate", "Xgate", "Zgate"):
                twin[1][0] = float(np.clip(twin[1][0], -0.3, 0.3))
            ops_.insert(k + 1, twin)
    if draw(st.integers(0, 3)) == 0:
        # operations outside the shared gate alphabet: preparations that replace a mode, a preparation that some compilers
        # decompose, an array-valued Decomposition
        name = draw(st.sampled_from(ALPH2))
        if name == "Interferometer":
            _, U = draw(gen.unitary(2, kinds=["haar", "single_bs", "diag", "perm"]))
            new = [name, [spec.enc_matrix(np.asarray(U, complex))], list(draw(st.permutations([0, 1]))), {}]
        else:
            new = [name, draw(gen.op_params(name, "fock")), [draw(st.integers(0, N - 1))], {}]
        ops_.insert(draw(st.integers(0, len(ops_))), new)
    extra = draw(st.sampled_from(["none", "none", "measure", "feedforward", "free"]))
    if extra == "measure":
        m = draw(st.integers(0, N - 1))
        ops_.append(["MeasureHomodyne", [draw(st.sampled_from([0.0, 0.4]))], [m], {"select": draw(gen.fl(-0.5, 0.5))}])
    elif extra == "feedforward" and measured and allow_ff:
        src = draw(st.sampled_from(sorted(measured)))
        tgt = draw(st.integers(0, N - 1))
        ops_.append(draw(st.sampled_from(ff_variants(["mul", 0.5, ["absmeas", src]], tgt))))
    elif extra == "free":
        ops_.append(draw(st.sampled_from(free_variants(draw(st.integers(0, N - 1))))))
    return ops_


def numeric_ops(ops_, values, bind):
    """substitute measured values / free parameters -> numeric specs for refsim"""
    return [[o[0], [_eval(p, values, bind) for p in o[1]], o[2], _flags(o)] for o in ops_]


def subst_free(ops_, value):
    """the segment as it was executed: the free parameter replaced by the value it was bound to in that call"""
    return [[o[0], [_eval(p, {}, {"a": value}) if _has(p, "free") and not _has(p, "absmeas") else p for p in o[1]], o[2], _flags(o)] for o in ops_]


@st.composite
def run_opts(draw):
    """options of one engine call: how follow-up programs are created, value bound to the free parameter, run options"""
    o = {}
    if draw(st.booleans()):
        o["style"] = "fresh"
    if draw(st.integers(0, 2)) == 0:
        o["bind"] = draw(gen.fl(-1.0, 1.0))
    m = draw(st.sampled_from([None, [1], None, [0], [], [0, 1]]))
    if m is not None:
        o["modes"] = m
    s = draw(st.sampled_from([None, 2, None, 1]))
    if s is not None:
        o["shots"] = s
    return o


class World:
    def __init__(self, ctx, bind):
        import strawberryfields as sf

        self.sf = sf
        self.ctx = ctx
        self.bind = {"a": bind}
        self.labels = set()
        self.nontrivial = False
        self.cutoff = 9          # cutoff the fock engine is expected to use (changed by reset with backend options)
        self.eng = {b: self._fresh_engine(b) for b in BACKENDS}
        self.executed = []       # op specs executed since the last reset, per segment (free parameter replaced by its value in that call)
        self.executed_src = []   # the same segments in symbolic form
        self.pending = []        # op specs of segments not yet run
        self.progs = {b: [] for b in BACKENDS}   # user Program objects run since the last reset
        self.prog_ops = {b: [] for b in BACKENDS}  # op specs each of them contains
        self.snaps = {b: [] for b in BACKENDS}
        self.values = {}         # mode -> last post-selected outcome
        self.dead = set()
        self.ff_used = False
        self.failing_done = False
        self.binds_used = set()
        self._tail = {}          # cache of the truncation guard per executed prefix

    def _fresh_engine(self, b):
        opts = {"cutoff_dim": 9} if b == "fock" else {}
        return self.sf.Engine(b, backend_options=opts)

    def measured_modes(self):
        return set(self.values)

    # ---- building ----------------------------------------------------------------------------
    def add_segment(self, ops_):
        if seg_has(ops_, "absmeas"):
            self.ff_used = True
        for o in ops_:
            if o[0] == "MeasureHomodyne":
                self.values[o[2][0]] = o[3]["select"]
        self.pending.append(ops_)
        for b, names in UNSUPPORTED.items():
            if any(o[0] in names for o in ops_):
                self.dead.add(b)
        for o in ops_:
            if o[0] in ALPH2:
                self.labels.add("op:" + o[0])
            sym = [k for k, p in enumerate(o[1]) if isinstance(p, list)]
            if _flags(o).get("H") and o[0] in DECOMPOSED:
                self.labels.add("dagger_decomposed")
            if o[0] == "MZgate" and (_flags(o).get("H") or o[1][0] == 0):
                self.labels.add("mzgate_dagger_or_zero_phase")
            if sym and _flags(o).get("H"):
                self.labels.add("symbolic_dagger")
            if sym and sym != [0]:
                self.labels.add("symbolic_later_parameter")
            if sym and o[0] in DECOMPOSED:
                self.labels.add("symbolic_decomposed")

    def _build(self, b, ops_, prev):
        from strawberryfields import ops

        sf = self.sf
        prog = sf.Program(N) if prev is None else sf.Program(prev)
        prog.params("a")  # every program declares the free parameter, so that one ``args`` dict fits a list of programs
        with prog.context as q:

            def sym(p):
                if p[0] == "free":
                    return prog.params(p[1])
                if p[0] == "absmeas":
                    return sf.math.Abs(q[p[1]].par)
                if p[0] == "mul":
                    return p[1] * sym(p[2])
                raise ValueError("unknown symbolic parameter %r" % (p,))

            for o in ops_:
                ps = [sym(p) if isinstance(p, list) and p else spec.dec_param(p) for p in o[1]]
                flags = _flags(o)
                kw = {"select": flags["select"]} if "select" in flags else {}
                op = ops.Fouriergate() if o[0] == "Fouriergate" else getattr(ops, o[0])(*ps, **kw)
                if flags.get("H"):
                    op = op.H
                regs = tuple(q[m] for m in o[2])
                op | (regs if len(regs) > 1 else regs[0])
        return prog

    # ---- oracle ------------------------------------------------------------------------------
    def model_state(self, segments, start=0):
        """refsim of the segments from index ``start`` on (measured values of earlier segments are known to later ones)"""
        ref = refsim.Ref(N, 2.0)
        vals = {0: 0.0, 1: 0.0}
        for k, seg in enumerate(segments):
            for o in seg:
                if k >= start:
                    num = numeric_ops([o], vals, self.bind)[0]
                    spec.ref_run(N, [num], 2.0, ref)
                if o[0] == "MeasureHomodyne":
                    vals[o[2][0]] = o[3]["select"]
        return ref

    def compare(self, b, state, segments, what, last_prog=1, modes=None):
        """``last_prog``: number of trailing segments that were submitted as the last Program (concatenated run: all of them);
        ``modes``: the ``modes`` run option the state was requested with (None: all modes)"""
        ref = self.model_state(segments)
        if b == "fock":
            # truncation guard: every segment boundary of the reference must have negligible weight above the cutoff
            def heavy(segs):
                key = repr((segs, self.bind))
                if key not in self._tail:
                    self._tail[key] = tail_weight(self.model_state(segs), 9) > 1e-5
                return self._tail[key]

            if any(heavy(segments[:k]) for k in range(1, len(segments) + 1)):
                self.dead.add("fock")
                self.labels.add("fock_truncation_dominated")
                return None
            if getattr(state, "cutoff_dim", None) != self.cutoff:
                return self.ctx.fail("engine.backend_options_not_used.fock", "%s: the fock engine was created / reset with cutoff_dim=%d, the returned state has cutoff_dim=%r"
                                     % (what, self.cutoff, getattr(state, "cutoff_dim", None)))
        be = b
        keep = list(range(N)) if modes is None else list(modes)
        if state is None or state.num_modes != len(keep):
            return self.ctx.fail("run.modes_option.%s" % b, "%s: run(modes=%r) returned %s" % (what, modes, "no state" if state is None else "a state of %d modes" % state.num_modes))
        mu, V, _ = sfrun.moments_of(state, be, 2.0)
        rmu, rV = ref.reduced(keep)
        tol = (1e-6 if b != "fock" else 5e-3) * (1 + float(np.max(np.abs(ref.V))))
        d = max(float(np.max(np.abs(mu - rmu))), float(np.max(np.abs(V - rV))))
        if d > tol:
            if b == "bosonic" and len(segments) > 1:
                # F10: the simulator restarts with every Program that has commands; a Program whose circuit is empty (everything
                # merged away by optimize=True) restarts nothing, so the state is that of the last non-empty Program(s) from vacuum
                for start in range(len(segments) - last_prog, 0, -1):
                    lmu, lV = self.model_state(segments, start=start).reduced(keep)
                    d2 = max(float(np.max(np.abs(mu - lmu))), float(np.max(np.abs(V - lV))))
                    if d2 <= tol:
                        return self.ctx.fail("F10.bosonic_engine_restarts_per_program", "bosonic engine: state after %d segments equals segments %d.. run alone from vacuum" % (len(segments), start))
            return self.ctx.fail("%s.%s" % (what, b), "%s: state differs from the reference of the concatenated segments by %.3g (%d segments)" % (what, d, len(segments)))
        return None

    def _count_check(self, b):
        if len(self.eng[b].run_progs) != len(self.progs[b]):
            return self.ctx.fail("engine.run_progs_count.%s" % b, "engine.run_progs has %d entries after %d program runs" % (len(self.eng[b].run_progs), len(self.progs[b])))
        return None

    # ---- engine calls ------------------------------------------------------------------------
    def run_pending(self, mode, opts=None):
        """mode: 'list' | 'tuple' | 'successive' | 'concat' | 'list_opt' (one list, compile_options={"optimize": True});
        opts: {"style": "fresh" (follow-up programs are new Program(n) objects instead of Program(predecessor)), "bind": value of the
        free parameter in this call, "modes": run option, "shots": run option}"""
        if not self.pending:
            return None
        opts = opts or {}
        segs = self.pending
        self.pending = []
        if len(self.executed) + len(segs) >= 2 and sum(1 for s in self.executed + segs if s) >= 2:
            self.nontrivial = True
        if len(segs) >= 2:
            self.labels.add("list_vs_successive")
        if any(seg_has(s, "absmeas") for s in segs):
            self.labels.add("feedforward_across_segments")
        bindv = self.bind["a"] if opts.get("bind") is None else opts["bind"]
        if any(seg_has(s, "free") for s in segs):
            self.binds_used.add(bindv)
            if len(self.binds_used) > 1:
                self.labels.add("rebind_between_calls")
        fresh = opts.get("style") == "fresh"
        kwargs = {}
        if opts.get("modes") is not None:
            kwargs["modes"] = list(opts["modes"])
            self.labels.add("run_option_modes" if kwargs["modes"] else "run_option_modes_empty")
        if opts.get("shots") is not None:
            # several shots are refused for programs with post-selection or feed-forward
            plain = not any(o[0] == "MeasureHomodyne" for s in segs for o in s) and not any(seg_has(s, "absmeas") for s in segs)
            kwargs["shots"] = int(opts["shots"]) if plain else 1
            self.labels.add("run_option_shots")
        done = [subst_free(s, bindv) for s in segs]
        for b in BACKENDS:
            if b in self.dead:
                continue
            self.labels.add("backend:" + b)
            try:
                prev = self.progs[b][-1] if self.progs[b] else None
                if fresh and prev is not None:
                    self.labels.add("fresh_program_follows")
                if mode == "concat":
                    flat = [o for s in segs for o in s]
                    built = [self._build(b, flat, None if fresh else prev)]
                else:
                    built = []
                    for s in segs:
                        built.append(self._build(b, s, None if fresh else prev))
                        prev = built[-1]
                snaps = [spec.snapshot(p) for p in built]
                np.random.seed(7)
                args = {"a": bindv}
                if mode == "successive":
                    res = None
                    for p in built:
                        res = self.eng[b].run(p, args=args, **kwargs)
                elif mode == "list_opt":
                    self.labels.add("run_with_optimize")
                    res = self.eng[b].run(built if len(built) > 1 else built[0], args=args, compile_options={"optimize": True}, **kwargs)
                elif mode == "tuple":
                    self.labels.add("tuple_of_programs")
                    res = self.eng[b].run(tuple(built), args=args, **kwargs)
                else:
                    res = self.eng[b].run(built if len(built) > 1 else built[0], args=args, **kwargs)
            except Violation:
                raise
            except Exception as exc:  # pylint: disable=broad-except
                r = self._crash(b, exc, "run_" + mode)
                if r is not None:
                    return r
                continue
            self.progs[b] += built
            self.prog_ops[b] += ([[o for s_ in segs for o in s_]] if mode == "concat" else [list(s_) for s_ in segs])
            for p, sn in zip(built, snaps):
                d = spec.snapshot_diff(sn, spec.snapshot(p))
                if d:
                    return self.ctx.fail("run.mutated_program.%s" % b, "running changed the user's program: " + d)
            if kwargs.get("modes") == []:
                if res.state is not None:
                    return self.ctx.fail("run.modes_option.%s" % b, "run(modes=[]) returned a state object")
            else:
                r = self.compare(b, res.state, self.executed + done, "compositional.%s" % mode, last_prog=len(segs) if mode == "concat" else 1, modes=kwargs.get("modes"))
                if r is not None:
                    return r
            r = self._count_check(b)
            if r is not None:
                return r
        self.executed += done
        self.executed_src += segs
        return None

    def repeat(self, how, bind=None):
        """submit the Program object that was run last once more to the SAME engine: as the next call ('successive') or twice in
        one list ('pair').  A program whose register is unchanged can follow itself (Program.can_follow)."""
        live = [b for b in BACKENDS if b not in self.dead and self.progs[b]]
        if not self.executed or not live:
            return None
        seg = self.prog_ops[live[0]][-1]
        if seg_has(seg, "absmeas"):
            return None  # F7
        times = 2 if how == "pair" else 1
        bindv = self.bind["a"] if bind is None else bind
        if seg_has(seg, "free"):
            self.binds_used.add(bindv)
            if len(self.binds_used) > 1:
                self.labels.add("rebind_between_calls")
        done = [subst_free(seg, bindv)] * times
        self.labels.add("repeat_in_one_list" if how == "pair" else "repeat_next_call")
        self.nontrivial = True
        for b in live:
            p = self.progs[b][-1]
            sn = spec.snapshot(p)
            try:
                np.random.seed(7)
                res = self.eng[b].run([p, p] if how == "pair" else p, args={"a": bindv})
            except Exception as exc:  # pylint: disable=broad-except
                r = self._crash(b, exc, "repeat_" + how)
                if r is not None:
                    return r
                continue
            self.progs[b] += [p] * times
            self.prog_ops[b] += [seg] * times
            d = spec.snapshot_diff(sn, spec.snapshot(p))
            if d:
                return self.ctx.fail("run.mutated_program.%s" % b, "running the same program again changed it: " + d)
            r = self.compare(b, res.state, self.executed + done, "repeat_same_object.%s" % how)
            if r is not None:
                return r
            r = self._count_check(b)
            if r is not None:
                return r
        self.executed += done
        self.executed_src += [seg] * times
        return None

    def reset(self, opts=None):
        opts = opts or {}
        self.pending = []
        self.snaps = {b: [] for b in BACKENDS}
        for b in BACKENDS:
            if b in self.dead:
                continue
            if not self.eng[b].run_progs:
                continue  # reset() is only documented for engines that have run something (a never-used local engine has no circuit yet)
            had_values = any(rr.val is not None for p in self.progs[b] for rr in p.reg_refs.values())
            try:
                if b == "fock" and opts.get("cutoff_dim"):
                    self.labels.add("reset_with_backend_options")
                    self.eng[b].reset({"cutoff_dim": int(opts["cutoff_dim"])})
                    self.cutoff = int(opts["cutoff_dim"])
                else:
                    self.eng[b].reset()
            except Exception as exc:  # pylint: disable=broad-except
                r = self._crash(b, exc, "reset")
                if r is not None:
                    return r
                continue
            if self.eng[b].run_progs:
                return self.ctx.fail("reset.run_progs_not_empty.%s" % b, "run_progs holds %d programs after reset()" % len(self.eng[b].run_progs))
            # "All registers of previously run Programs are cleared of measured values" (the compiled copies in run_progs share their
            # RegRefs with the user's programs)
            if had_values:
                self.labels.add("reset_clears_measured_values")
            for k, p in enumerate(self.progs[b]):
                left = [rr.ind for rr in p.reg_refs.values() if rr.val is not None]
                if left:
                    return self.ctx.fail("reset.measured_values_not_cleared.%s" % b, "after reset() program #%d run on this engine still holds measured values of modes %r" % (k, left))
            self.snaps[b] = list(zip(self.progs[b], self.prog_ops[b]))  # the programs run before this reset (see reset_rerun)
            self.progs[b] = []
            self.prog_ops[b] = []
        self.executed = []
        self.executed_src = []
        self.values = {}
        self.labels.add("reset_then_run")
        return None

    def reset_rerun(self, k=0, bind=None, opts=None):
        """reset(), then run a Program object that was run BEFORE the reset on the same engine: like a fresh engine"""
        if not self.executed:
            return None
        r = self.reset(opts)
        if r is not None:
            return r
        live = [b for b in BACKENDS if b not in self.dead and self.snaps[b] and not self.eng[b].run_progs]
        if not live:
            return None
        n = min(len(self.snaps[b]) for b in live)
        seg = self.snaps[live[0]][k % n][1]
        if seg_has(seg, "absmeas"):
            return None
        bindv = self.bind["a"] if bind is None else bind
        done = [subst_free(seg, bindv)]
        self.labels.add("old_object_after_reset")
        self.nontrivial = True
        for o in seg:
            if o[0] == "MeasureHomodyne":
                self.values[o[2][0]] = o[3]["select"]
        for b in live:
            p = self.snaps[b][k % n][0]
            sn = spec.snapshot(p)
            try:
                np.random.seed(7)
                res = self.eng[b].run(p, args={"a": bindv})
            except Exception as exc:  # pylint: disable=broad-except
                r = self._crash(b, exc, "run_after_reset")
                if r is not None:
                    return r
                continue
            self.progs[b] = [p]
            self.prog_ops[b] = [seg]
            d = spec.snapshot_diff(sn, spec.snapshot(p))
            if d:
                return self.ctx.fail("run.mutated_program.%s" % b, "running the program again after reset() changed it: " + d)
            r = self.compare(b, res.state, done, "reset.not_like_fresh_engine")
            if r is not None:
                return r
            r = self._count_check(b)
            if r is not None:
                return r
        self.executed = done
        self.executed_src = [seg]
        return None

    def refused(self, kind):
        """a run the engine refuses before executing anything ('mismatch': a 3-mode program cannot follow a 2-mode history;
        'shots_select': post-selection with shots=2) leaves the program and the engine as they were; the calls after it must
        compose as if it had not been made"""
        from strawberryfields import ops

        sf = self.sf
        for b in BACKENDS:
            if b in self.dead:
                continue
            eng = self.eng[b]
            if kind == "mismatch":
                if not eng.run_progs:
                    continue  # on an unused engine the program is simply a valid first program
                p = sf.Program(N + 1)
                with p.context as q:
                    ops.Sgate(0.1) | q[N]
                kw = {}
            else:
                p = sf.Program(self.progs[b][-1]) if self.progs[b] else sf.Program(N)
                with p.context as q:
                    ops.Sgate(0.1) | q[0]
                    ops.MeasureHomodyne(0.0, select=0.1) | q[0]
                kw = {"shots": 2}
            sn = spec.snapshot(p)
            before = list(eng.run_progs)
            try:
                eng.run(p, **kw)
                self.dead.add(b)  # accepted: what the engine holds now is not specified
                self.labels.add("refusal_expected_but_accepted")
                continue
            except RuntimeError:  # RuntimeError("Register mismatch"), NotImplementedError
                pass
            except Exception as exc:  # pylint: disable=broad-except
                r = self._crash(b, exc, "refused_" + kind)
                if r is not None:
                    return r
                continue
            self.labels.add("refused_run")
            d = spec.snapshot_diff(sn, spec.snapshot(p))
            if d:
                return self.ctx.fail("run.refused_run_mutated_program", "a refused run (%s) left the user's program changed: %s" % (kind, d))
            if len(eng.run_progs) != len(before) or any(x is not y for x, y in zip(eng.run_progs, before)):
                return self.ctx.fail("engine.run_progs_count.%s" % b, "a refused run (%s) changed engine.run_progs (%d -> %d entries)" % (kind, len(before), len(eng.run_progs)))
        return None

    def rerun_last(self, k=0):
        """run the k-th executed user Program object again on a fresh engine: same state as the model of that segment alone"""
        if not self.executed:
            return None
        for b in BACKENDS:
            if b in self.dead or not self.progs[b]:
                continue
            i = k % len(self.progs[b])
            seg0 = self.prog_ops[b][i]
            if seg_has(seg0, "absmeas"):
                continue
            self.labels.add("rerun_same_object")
            if i:
                self.labels.add("rerun_later_object")
            self.nontrivial = True
            p = self.progs[b][i]
            sn = spec.snapshot(p)
            try:
                np.random.seed(7)
                res = self._fresh_engine(b).run(p, args={"a": self.bind["a"]} if "a" in p.free_params else None)
            except Exception as exc:  # pylint: disable=broad-except
                r = self._crash(b, exc, "rerun")
                if r is not None:
                    return r
                continue
            cut, self.cutoff = self.cutoff, 9
            try:
                r = self.compare(b, res.state, [seg0], "rerun_same_object")
            finally:
                self.cutoff = cut
            if r is not None:
                return r
            d = spec.snapshot_diff(sn, spec.snapshot(p))
            if d:
                return self.ctx.fail("run.mutated_program.%s" % b, "re-running changed the user's program: " + d)
        return None

    def compile_check(self, compiler, optimize=False, shots=None, k=0):
        """compile (optionally with optimize=True, or Program.optimize() for compiler 'optimize') a freshly built copy of the k-th
        executed segment: source untouched, result is another object, and running the compiled program gives the same state; the
        source, run afterwards, still gives the same state"""
        if not self.executed:
            return None
        seg0 = self.executed_src[k % len(self.executed_src)]
        if seg_has(seg0, "absmeas") and (compiler == "gaussian_unitary" or k % len(self.executed_src)):
            return None
        from strawberryfields.program_utils import CircuitError

        self.labels.add("compile_untouched")
        try:
            p = self._build("gaussian", seg0, None)
            sn = spec.snapshot(p)
            if "a" in p.free_params and compiler == "gaussian_unitary":
                p.bind_params({"a": self.bind["a"]})
                sn = spec.snapshot(p)
            if optimize:
                self.labels.add("compile_with_optimize")
            kw = {} if shots is None else {"shots": shots}  # run options given to compile() belong to the compiled copy only
            if kw:
                self.labels.add("compile_with_run_options")
            c = p.optimize() if compiler == "optimize" else p.compile(compiler=compiler, optimize=optimize, **kw)
            if kw and compiler != "optimize" and c.run_options.get("shots") != shots:
                return self.ctx.fail("compile.run_option_not_stored", "compile(shots=%r) returned a program with run_options %r" % (shots, c.run_options))
        except CircuitError:
            return None
        except Exception as exc:  # pylint: disable=broad-except
            return self._crash("gaussian", exc, "compile_" + compiler) or None
        if c is p:
            return self.ctx.fail("compile.returned_same_object", "compile() returned the source program object")
        d = spec.snapshot_diff(sn, spec.snapshot(p))
        if d:
            return self.ctx.fail("compile.mutated_program.%s" % compiler, "compile(%s) changed the user's program: %s" % (compiler, d))
        try:
            np.random.seed(7)
            # (shots stored in the compiled copy are overridden: homodyne with several shots is not implemented on this backend)
            res = self._fresh_engine("gaussian").run(c, args={"a": self.bind["a"]} if "a" in c.free_params else None, **({} if shots is None else {"shots": 1}))
        except Exception as exc:  # pylint: disable=broad-except
            return self._crash("gaussian", exc, "run_compiled_" + compiler) or None
        r = self.compare("gaussian", res.state, [seg0], "run_compiled.%s" % compiler)
        if r is not None:
            return r
        d = spec.snapshot_diff(sn, spec.snapshot(p))
        if d:
            return self.ctx.fail("compile.mutated_program.%s" % compiler, "running the compiled copy changed the user's program: " + d)
        if optimize or compiler == "optimize":
            # the source program, run after it was compiled/optimised, still computes what it computed before
            try:
                np.random.seed(7)
                res = self._fresh_engine("gaussian").run(p, args={"a": self.bind["a"]} if "a" in p.free_params else None)
            except Exception as exc:  # pylint: disable=broad-except
                return self._crash("gaussian", exc, "run_source_after_" + compiler) or None
            r = self.compare("gaussian", res.state, [seg0], "run_source_after_optimize.%s" % compiler)
            if r is not None:
                return r
        return None

    def failing_run(self):
        """a run that raises (complex displacement amplitude with .H is rejected by the backend) must leave the program untouched"""
        from strawberryfields import ops

        self.failing_done = True
        sf = self.sf
        p = sf.Program(N)
        with p.context as q:
            ops.Sgate(0.2) | q[0]
            ops.Dgate(0.3 + 0.1j).H | q[1]
        sn = spec.snapshot(p)
        try:
            self._fresh_engine("gaussian").run(p)
            return None  # accepted: nothing to check
        except Exception:  # pylint: disable=broad-except
            pass
        self.labels.add("failed_run")
        d = spec.snapshot_diff(sn, spec.snapshot(p), ignore_meta=())
        if d:
            return self.ctx.fail("run.failed_run_mutated_program", "a run that raised left the user's program changed: " + d)
        return None

    def _crash(self, b, exc, where):
        from vf.core import crash_signature

        owner, loc = crash_signature(exc)
        self.dead.add(b)
        return self.ctx.fail("crash.%s.%s.%s@%s" % (b, where, type(exc).__name__, loc), "%s: %s" % (type(exc).__name__, str(exc)[:200]))


def apply_action(w, a):
    """one recorded action of a history -> World call (missing fields of old replay files take their defaults)"""
    if a[0] == "segment":
        w.add_segment(a[1])
        return None
    if a[0] == "run":
        return w.run_pending(a[1], a[2] if len(a) > 2 else None)
    if a[0] == "reset":
        return w.reset(a[1] if len(a) > 1 else None)
    if a[0] == "reset_rerun":
        return w.reset_rerun(a[1], a[2], a[3] if len(a) > 3 else None)
    if a[0] == "repeat":
        return w.repeat(a[1], a[2] if len(a) > 2 else None)
    if a[0] == "refused":
        return w.refused(a[1])
    if a[0] == "rerun":
        return w.rerun_last(a[1] if len(a) > 1 else 0)
    if a[0] == "compile":
        return w.compile_check(a[1], bool(a[2]) if len(a) > 2 else False, a[3] if len(a) > 3 else None, a[4] if len(a) > 4 else 0)
    if a[0] == "failing_run":
        return w.failing_run()
    raise ValueError("unknown action %r" % (a,))


def check_history(ctx, case):
    w = World(ctx, case["bind"])
    r = None
    for a in case["history"]:
        r = apply_action(w, a)
    if w.pending:
        r = w.run_pending("list")
    ctx.note(case, nontrivial=w.nontrivial, labels=sorted(w.labels))
    return r


RUN_MODES = ["list", "successive", "concat", "list_opt", "tuple"]


def make_machine(ctx):
    class RunMachine(RuleBasedStateMachine):
        def __init__(self):
            super().__init__()
            self.case = None
            self.world = None

        def do(self, *action):
            action = list(action)
            self.case["history"].append(action)
            apply_action(self.world, action)

        def new_segment(self, data):
            # F7 (open): MeasuredParameter symbols are cached by name, so two live programs that use the measured value of the
            # same mode share one symbol bound to the RegRef of the program built last; at most one feed-forward segment per history
            self.do("segment", data.draw(segment_ops(self.world.measured_modes(), allow_ff=not self.world.ff_used)))

        @initialize(bind=gen.fl(-1.0, 1.0))
        def init(self, bind):
            self.case = {"bind": bind, "history": []}
            ctx.begin_case(self.case)
            self.world = World(ctx, bind)

        @rule(data=st.data())
        def segment(self, data):
            self.new_segment(data)

        @precondition(lambda self: self.world is not None and self.world.pending)
        @rule(mode=st.sampled_from(RUN_MODES), opts=run_opts())
        def run(self, mode, opts):
            self.do("run", mode, opts)

        @precondition(lambda self: self.world is not None and len(self.world.pending) >= 2)
        @rule(mode=st.sampled_from(RUN_MODES), opts=run_opts())
        def run_several(self, mode, opts):
            self.do("run", mode, opts)

        @rule(data=st.data(), n=st.integers(1, 2), mode=st.sampled_from(RUN_MODES), opts=run_opts())
        def segments_and_run(self, data, n, mode, opts):
            # one engine call per step: histories of several calls on the same engine do not depend on two rules being enabled
            for _ in range(n):
                self.new_segment(data)
            self.do("run", mode, opts)

        @precondition(lambda self: self.world is not None and self.world.executed)
        @rule(cutoff=st.sampled_from([None, 10]))
        def reset(self, cutoff):
            self.do("reset", {} if cutoff is None else {"cutoff_dim": cutoff})

        @precondition(lambda self: self.world is not None and self.world.executed)
        @rule(k=st.integers(0, 3), bind=st.one_of(st.none(), gen.fl(-1.0, 1.0)), cutoff=st.sampled_from([None, 10]))
        def reset_rerun(self, k, bind, cutoff):
            self.do("reset_rerun", k, bind, {} if cutoff is None else {"cutoff_dim": cutoff})

        @precondition(lambda self: self.world is not None and self.world.executed)
        @rule(how=st.sampled_from(["successive", "pair"]), bind=st.one_of(st.none(), gen.fl(-1.0, 1.0)))
        def repeat(self, how, bind):
            self.do("repeat", how, bind)

        @precondition(lambda self: self.world is not None and self.world.executed)
        @rule(k=st.integers(0, 3))
        def rerun(self, k):
            self.do("rerun", k)

        @precondition(lambda self: self.world is not None and self.world.executed)
        @rule(compiler=st.sampled_from(["gaussian", "fock", "bosonic", "gaussian_unitary", "optimize"]), optimize=st.booleans(), shots=st.sampled_from([None, None, 7]),
              k=st.integers(0, 2))
        def compile(self, compiler, optimize, shots, k):
            self.do("compile", compiler, optimize, shots, k)

        @precondition(lambda self: self.world is not None and not self.world.failing_done)
        @rule()
        def failing_run(self):
            self.do("failing_run")

        @rule(data=st.data(), kind=st.sampled_from(["mismatch", "shots_select"]), mode=st.sampled_from(RUN_MODES), opts=run_opts())
        def refused_then_run(self, data, kind, mode, opts):
            self.do("refused", kind)
            self.new_segment(data)
            self.do("run", mode, opts)

        def teardown(self):
            if self.world is not None:
                if self.world.pending:
                    self.do("run", "list")
                ctx.note(self.case, nontrivial=self.world.nontrivial, labels=sorted(self.world.labels))

    return RunMachine


# ----------------------------------------------------------------------------------------------
# continuation programs that delete an inherited subsystem (Program(parent) ... Del | q[k] ...)
# ----------------------------------------------------------------------------------------------
DEL_ALPH = ["Dgate", "Sgate", "Rgate", "BSgate", "S2gate", "Xgate", "Zgate", "CXgate", "Fouriergate", "LossChannel", "Coherent", "Squeezed"]


@st.composite
def del_case(draw):
    be = draw(st.sampled_from(["gaussian", "gaussian", "fock"]))
    n = draw(st.integers(2, 3 if be == "fock" else 4))
    energy = "fock" if be == "fock" else "ps"
    k = draw(st.integers(0, n - 1))
    rest = [m for m in range(n) if m != k]
    post = [[o[0], o[1], [rest[m] for m in o[2]]] + list(o[3:]) for o in draw(gen.op_list(len(rest), DEL_ALPH, energy, 0, 3))]
    return {"backend": be, "n": n, "k": k, "a": draw(gen.op_list(n, DEL_ALPH, energy, 1, 5)), "pre": draw(gen.op_list(n, DEL_ALPH, energy, 0, 2)), "post": post,
            "third": draw(gen.op_list(len(rest), DEL_ALPH, energy, 0, 2)) if draw(st.booleans()) else None}


def _apply_specs(q, ops_):
    from strawberryfields import ops

    by_ind = {r.ind: r for r in q}  # a continuation of a program with deleted modes lists the active subsystems only
    for o in ops_:
        op = spec.make_op(ops, o[0], o[1], o[3] if len(o) > 3 else {})
        regs = tuple(by_ind[m] for m in o[2])
        op | (regs if len(regs) != 1 else regs[0])  # pylint: disable=expression-not-assigned


def check_del(ctx, case):
    """A; B = Program(A) with gates, Del | q[k], gates on the remaining modes [; C = Program(B)]: one list, successive calls and the
    concatenated single program must give refsim's reduced state of the remaining modes, and WRITING or running the continuation must
    leave the parent program (circuit, register, number of subsystems) untouched"""
    import strawberryfields as sf
    from strawberryfields import ops

    be, n, k = case["backend"], case["n"], case["k"]
    rest = [m for m in range(n) if m != k]
    third = None if case["third"] is None else [[o[0], o[1], [rest[m] for m in o[2]]] + list(o[3:]) for o in case["third"]]
    labels = ["continuation_deletes_inherited_mode", "backend:" + be, "modes:%d" % n] + (["continuation_of_continuation"] if third is not None else [])
    ctx.note(case, nontrivial=bool(gen.has_two_mode(case["a"] + case["pre"])), labels=labels)
    opts = {"cutoff_dim": 9} if be == "fock" else {}

    def build():
        A = spec.build_program(n, case["a"])
        sa = spec.snapshot(A)
        B = sf.Program(A)
        with B.context as q:
            _apply_specs(q, case["pre"])
            ops.Del | {r.ind: r for r in q}[k]  # pylint: disable=expression-not-assigned
            _apply_specs(q, case["post"])
        progs = [A, B]
        if third is not None:
            C = sf.Program(B)
            with C.context as q:
                _apply_specs(q, third)
            progs.append(C)
        return progs, sa

    ref = refsim.Ref(n, 2.0)
    spec.ref_run(n, case["a"] + case["pre"], 2.0, ref)
    ref.Vacuum(k)
    spec.ref_run(n, case["post"] + (third or []), 2.0, ref)
    mu_r, V_r = ref.reduced(rest)
    got = {}
    with sfrun.HbarCtx(2.0):
        for way in ("list", "successive", "concatenated"):
            try:
                if way == "concatenated":
                    P = sf.Program(n)
                    with P.context as q:
                        _apply_specs(q, case["a"] + case["pre"])
                        ops.Del | q[k]  # pylint: disable=expression-not-assigned
                        _apply_specs(q, case["post"] + (third or []))
                    state = sf.Engine(be, backend_options=opts).run(P).state
                else:
                    progs, sa = build()
                    d = spec.snapshot_diff(sa, spec.snapshot(progs[0]))
                    if d:
                        return ctx.fail("untouched.parent_altered_by_writing_a_continuation", "after writing B = Program(A) with Del | q[%d]: %s" % (k, d))
                    eng = sf.Engine(be, backend_options=opts)
                    if way == "list":
                        state = eng.run(progs).state
                    else:
                        for P in progs:
                            state = eng.run(P).state
                    d = spec.snapshot_diff(sa, spec.snapshot(progs[0]))
                    if d:
                        return ctx.fail("untouched.parent_altered_by_running_a_continuation", "after running [A, B] (%s): %s" % (way, d))
            except Violation:
                raise
            except Exception as exc:  # pylint: disable=broad-except
                if isinstance(exc, (RuntimeError, sf.program_utils.CircuitError)) and way != "concatenated":
                    return ctx.fail("compositional.continuation_with_del_refused", "%s run of A, B = Program(A) with Del | q[%d] raises %s: %s although the concatenated "
                                    "program is valid" % (way, k, type(exc).__name__, str(exc)[:200]))
                return ctx.crash(exc, "continuation_del." + way)
            if state.num_modes != len(rest):
                return ctx.fail("compositional.continuation_del.num_modes", "%s: state has %d modes, %d expected" % (way, state.num_modes, len(rest)))
            got[way] = sfrun.moments_of(state, be, 2.0)[:2]
    tol_same = 1e-9 if be == "gaussian" else 1e-7
    for way in ("successive", "concatenated"):
        dd = max(float(np.max(np.abs(got[way][0] - got["list"][0]))), float(np.max(np.abs(got[way][1] - got["list"][1]))))
        if dd > tol_same * (1 + float(np.max(np.abs(V_r)))):
            return ctx.fail("compositional.continuation_del.%s_differs_from_list" % way, "moments of the remaining modes differ by %.3g" % dd)
    if be == "gaussian" or tail_weight(ref, 9) < 1e-4:
        tol = 1e-8 if be == "gaussian" else 5e-3
        dd = max(float(np.max(np.abs(got["list"][0] - mu_r))), float(np.max(np.abs(got["list"][1] - V_r))))
        if dd > tol * (1 + float(np.max(np.abs(V_r)))):
            return ctx.fail("compositional.continuation_del.differs_from_reference", "moments of the remaining modes %s differ from the reduced reference state by %.3g" % (rest, dd))
    return None


SUBS = [
    Sub("run_machine", check=check_history, machine=make_machine, examples={"quick": 110, "thorough": 600}, steps={"quick": 10, "thorough": 14},
        shards={"quick": 5, "thorough": 16}, rule="rule-based machine over segment / run (list, tuple, successive, concatenated; derived or fresh follow-up programs; run options) / repeat same object / "
             "reset (+ old object, backend options) / rerun / compile / failing run / refused run on three engines"),
    Sub("continuation_del", check=check_del, strategy=lambda ctx: del_case(), examples={"quick": 120, "thorough": 1500}, shards={"quick": 1, "thorough": 4},
        budget={"quick": 100, "thorough": 1200},
        rule="A on 2..4 modes, B = Program(A) with gates, Del of an inherited mode, gates on the rest [, C = Program(B)] on gaussian / fock engines: "
             "one list == successive calls == one concatenated program == refsim's reduced state; parent snapshot unchanged by writing and by running the continuation"),
]

MANIFEST = {
    "technique": "Hypothesis stateful (rule-based) machine; metamorphic relations between call patterns with a refsim model of the concatenated history; deep snapshots for immutability",
    "text": ("Generated histories of engine calls are executed on a gaussian, a fock and a bosonic engine; after every run the state must equal "
             "refsim applied to all segments since the last reset whichever way they were submitted (one list or tuple, successive calls, one "
             "concatenated program; follow-up programs derived from their predecessor or created fresh; the same Program object submitted "
             "again; with run options modes / shots and changing values of the free parameter; with feed-forward of post-selected outcomes "
             "across segments through plain, daggered and decomposed gates), refused calls must change nothing, reset must restore a fresh "
             "engine (also with new backend options) and clear measured values, and deep snapshots show that compile, run, re-run, refused "
             "and failing runs leave the user's programs (including array-valued operations) untouched."),
}
