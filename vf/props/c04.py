"""C04 - every internal circuit reordering respects mode and measurement dependencies.

Oracle: an independent conflict relation written here (two commands conflict iff they share a
register mode, or one acts on / measures a mode whose measured value the other uses as a
parameter), and validity predicates over the *output* of each reordering routine (multiset of
command objects by identity, relative order of every conflicting pair, A/B/C partition, grid rows in
temporal order, DAG reachability).  No expected order is ever assumed: for short sequences *every*
topological sort of the DAG the repo builds is checked.
"""
from __future__ import annotations

import itertools

import networkx as nx
from hypothesis import strategies as st

from vf.core import Sub

RULE = ("command sequences over {one-mode gate, ordered two-mode gate, homodyne, MeasureFock on 1..n modes, "
        "one- or two-mode gate parameterised by the measured value of another mode or of its own target, preparation}: exhaustively up to the stated "
        "length over 3 modes, Hypothesis-generated up to 14 commands over 2..6 modes; a case is non-trivial "
        "when it has >=1 conflicting pair and >=1 independent pair of commands (a reordering is possible and "
        "constrained); distinct = distinct JSON of the sequence")
ASSUMPTIONS = [
    "conflict relation of the oracle: share a register mode, or one command's register contains a mode whose "
    "measured value is a parameter of the other (read from the command objects' reg / op.measurement_deps)",
    "networkx topological sorting enumerations (all_topological_sorts) are trusted to enumerate linearisations",
]
REQUIRED_LABELS = {"all": ["measured_param_dependency", "feedback_onto_measured_mode", "marked_between_unmarked", "measurefock_multi",
                           "gbs_accepted", "gbs_rejected", "all_toposorts_checked"]}

_STATE = {}


def _env():
    """Lazily import the repo and build one shared register (RegRefs are reused across cases so that the
    name-cached MeasuredParameter symbols always refer to the same RegRef objects)."""
    if not _STATE:
        import strawberryfields  # noqa: F401
        from strawberryfields import ops
        import strawberryfields.program_utils as pu
        from strawberryfields.compilers.gbs import GBS

        _STATE.update(ops=ops, pu=pu, GBS=GBS, regs=[pu.RegRef(i) for i in range(8)])
    return _STATE


def alphabet(nm):
    A = []
    for i in range(nm):
        A.append(["g1", [i], None])
    for i, j in itertools.permutations(range(nm), 2):
        A.append(["g2", [i, j], None])
    for i in range(nm):
        A.append(["mx", [i], None])
    for i in range(nm):
        A.append(["mf", [i], None])
    if nm >= 2:
        A.append(["mf", [0, 1], None])
    if nm >= 3:
        A.append(["mf", list(range(nm)), None])
    for i, j in itertools.permutations(range(nm), 2):
        A.append(["ff", [j], i])  # gate on j using the measured value of i
    for i in range(nm):
        A.append(["ff", [i], i])  # feedback onto the measured mode itself
    for i in range(nm):
        A.append(["pr", [i], None])
    return A


def make_cmd(item, k=0):
    e = _env()
    ops, pu, regs = e["ops"], e["pu"], e["regs"]
    kind, modes, dep = item
    if kind == "g1":
        op = ops.Sgate(0.1 + 0.01 * k)
    elif kind == "g2":
        op = ops.BSgate(0.3, 0.1)
    elif kind == "mx":
        op = ops.MeasureHomodyne(0.0)
    elif kind == "mf":
        op = ops.MeasureFock()
    elif kind == "ff":
        op = ops.Rgate(regs[dep].par)
    elif kind == "ff2":
        op = ops.BSgate(regs[dep].par, 0.2)
    elif kind == "pr":
        op = ops.Coherent(0.2)
    elif kind == "ch":
        op = ops.LossChannel(0.5)
    else:
        raise ValueError(kind)
    return pu.Command(op, [regs[m] for m in modes])


# ---------------------------------------------------------------------------------------------
# oracle
# ---------------------------------------------------------------------------------------------
def item_conflict(a, b):
    ra, rb = set(a[1]), set(b[1])
    da = set() if a[2] is None else {a[2]}
    db = set() if b[2] is None else {b[2]}
    return bool(ra & rb) or bool(ra & db) or bool(rb & da)


def order_problem(seq_items, inp, out, label):
    """inp: source commands (same indices as seq_items); out: produced commands."""
    if sorted(map(id, inp)) != sorted(map(id, out)):
        return label + ".multiset", "output commands are not exactly the input commands (in=%d out=%d)" % (len(inp), len(out))
    pos = {id(c): k for k, c in enumerate(out)}
    for i in range(len(inp)):
        for j in range(i + 1, len(inp)):
            if item_conflict(seq_items[i], seq_items[j]) and pos[id(inp[i])] > pos[id(inp[j])]:
                return label + ".order", "commands #%d %s and #%d %s conflict but were swapped" % (i, seq_items[i], j, seq_items[j])
    return None


PREDICATES = {
    "mf": lambda ops: (lambda o: isinstance(o, ops.MeasureFock)),
    "g2": lambda ops: (lambda o: isinstance(o, ops.BSgate)),
    "meas": lambda ops: (lambda o: isinstance(o, ops.Measurement)),
    "g1": lambda ops: (lambda o: isinstance(o, ops.Sgate)),
}


def check_seq(ctx, case):
    e = _env()
    ops, pu, GBS, regs = e["ops"], e["pu"], e["GBS"], e["regs"]
    items = case["seq"]
    cmds = [make_cmd(it, k) for k, it in enumerate(items)]
    n = len(cmds)

    # classify
    nconf = sum(1 for i in range(n) for j in range(i + 1, n) if item_conflict(items[i], items[j]))
    nind = n * (n - 1) // 2 - nconf
    labels = []
    if any(it[0] in ("ff", "ff2") for it in items):
        labels.append("measured_param_dependency")
    if any(it[0] in ("ff", "ff2") and it[2] in it[1] for it in items):
        labels.append("feedback_onto_measured_mode")
    if any(it[0] == "mf" and len(it[1]) > 1 for it in items):
        labels.append("measurefock_multi")
    for i in range(1, n - 1):
        if items[i][0] == "mf" and items[i - 1][0] != "mf" and items[i + 1][0] != "mf":
            labels.append("marked_between_unmarked")
            break
    ctx.note(case, nontrivial=(nconf >= 1 and nind >= 1), labels=labels)

    # --- list_to_grid: rows are in temporal order and contain the command on each dependency wire
    try:
        grid = pu.list_to_grid(cmds)
    except Exception as exc:  # pylint: disable=broad-except
        return ctx.crash(exc, "list_to_grid")
    idx = {id(c): k for k, c in enumerate(cmds)}
    for wire, row in grid.items():
        ks = [idx.get(id(c), -1) for c in row]
        if -1 in ks or ks != sorted(ks) or len(set(ks)) != len(ks):
            return ctx.fail("grid.row_order", "wire %s holds commands %s (not in temporal order)" % (wire, ks))
    for k, it in enumerate(items):
        need = set(it[1]) | (set() if it[2] is None else {it[2]})
        for w in need:
            if not any(c is cmds[k] for c in grid.get(w, [])):
                return ctx.fail("grid.missing", "command #%d %s missing on wire %d" % (k, it, w))

    # --- DAG: nodes are exactly the commands, consistent with input order, every conflicting pair ordered
    order = case.get("grid_order")
    if order:
        keys = list(grid.keys())
        keys = [keys[i % len(keys)] for i in order] + keys
        seen = []
        for kk in keys:
            if kk not in seen:
                seen.append(kk)
        grid2 = {kk: grid[kk] for kk in seen}
    else:
        grid2 = grid
    try:
        dag = pu.grid_to_DAG(grid2)
    except Exception as exc:  # pylint: disable=broad-except
        return ctx.crash(exc, "grid_to_DAG")
    if sorted(map(id, dag.nodes)) != sorted(map(id, cmds)):
        return ctx.fail("dag.nodes", "DAG nodes differ from the input commands (%d vs %d)" % (dag.number_of_nodes(), n))
    for a, b in dag.edges:
        if idx[id(a)] >= idx[id(b)]:
            return ctx.fail("dag.edge_direction", "edge from #%d to #%d points backwards in time" % (idx[id(a)], idx[id(b)]))
    # reachability among conflicting pairs
    reach = {id(c): set() for c in cmds}
    for c in reversed(cmds):  # input order is a topological order (checked above)
        for s in dag.successors(c):
            reach[id(c)].add(id(s))
            reach[id(c)] |= reach[id(s)]
    for i in range(n):
        for j in range(i + 1, n):
            if item_conflict(items[i], items[j]) and id(cmds[j]) not in reach[id(cmds[i])]:
                return ctx.fail("dag.missing_dependency", "conflicting commands #%d %s -> #%d %s are unordered in the DAG" % (i, items[i], j, items[j]))

    # --- every linearisation the sort may legally return (short sequences), and the one it returns
    if n <= 5:
        cnt = 0
        for lin in nx.all_topological_sorts(dag):
            cnt += 1
            pr = order_problem(items, cmds, list(lin), "toposort_any")
            if pr:
                return ctx.fail(*pr)
            if cnt >= 120:
                break
        ctx.label("all_toposorts_checked")
    try:
        out = pu.DAG_to_list(dag)
    except Exception as exc:  # pylint: disable=broad-except
        return ctx.crash(exc, "DAG_to_list")
    pr = order_problem(items, cmds, out, "dag_roundtrip")
    if pr:
        return ctx.fail(*pr)

    # --- group_operations: A+B+C is a legal reordering, no marked op in A or C
    for pname, mk in PREDICATES.items():
        pred = mk(ops)
        try:
            A, B, C = pu.group_operations(cmds, pred)
        except Exception as exc:  # pylint: disable=broad-except
            return ctx.crash(exc, "group_operations")
        pr = order_problem(items, cmds, list(A) + list(B) + list(C), "group_operations")
        if pr:
            return ctx.fail(*pr)
        if any(pred(c.op) for c in A) or any(pred(c.op) for c in C):
            return ctx.fail("group_operations.marked_outside_B", "predicate %s: marked operation in A or C" % pname)
        if not B and C:
            return ctx.fail("group_operations.C_without_B", "predicate %s: B empty but C not" % pname)
        marked = [c for c in cmds if pred(c.op)]
        if marked and (not pred(B[0].op) or not pred(B[-1].op)):
            # B is promised to hold the marked ops plus only what could not be moved out: its ends are marked
            return ctx.fail("group_operations.B_not_tight", "predicate %s: B starts or ends with an unmarked operation" % pname)

    # --- GBS compilation: all Fock measurements collected into one, last; the rest a legal reordering
    try:
        out = GBS().compile(list(cmds), regs[: case["nm"]])
    except pu.CircuitError:
        ctx.label("gbs_rejected")
        out = None
    except Exception as exc:  # pylint: disable=broad-except
        return ctx.crash(exc, "gbs_compile")
    if out is not None:
        ctx.label("gbs_accepted")
        src_mf = [k for k in range(n) if items[k][0] == "mf"]
        out_mf = [c for c in out if isinstance(c.op, ops.MeasureFock)]
        want = sorted(set(m for k in src_mf for m in items[k][1]))
        if len(out_mf) != 1 or out[-1] is not out_mf[0] or [r.ind for r in out_mf[0].reg] != want:
            return ctx.fail("gbs.measure_collection", "expected one final MeasureFock on %s, got %s" % (want, [[r.ind for r in c.reg] for c in out_mf]))
        rest_in = [cmds[k] for k in range(n) if k not in src_mf]
        rest_items = [items[k] for k in range(n) if k not in src_mf]
        pr = order_problem(rest_items, rest_in, [c for c in out if not isinstance(c.op, ops.MeasureFock)], "gbs")
        if pr:
            return ctx.fail(*pr)
        # accepting is only legal if moving the measurements to the end crossed no dependency
        for k in src_mf:
            for j in range(k + 1, n):
                if item_conflict(items[k], items[j]):
                    return ctx.fail("gbs.accepted_illegal", "MeasureFock #%d %s was moved past conflicting command #%d %s" % (k, items[k], j, items[j]))

    # --- optimize_circuit: surviving commands keep their dependency order
    try:
        out = pu.optimize_circuit(list(cmds))
    except Exception as exc:  # pylint: disable=broad-except
        return ctx.crash(exc, "optimize_circuit")
    surv = [c for c in out if id(c) in idx]
    if len(out) == n:
        pr = order_problem(items, cmds, out, "optimize_roundtrip")
        if pr:
            return ctx.fail(*pr)
    else:
        ks = [idx[id(c)] for c in surv]
        pos = {k: p for p, k in enumerate(ks)}
        for a in ks:
            for b in ks:
                if a < b and item_conflict(items[a], items[b]) and pos[a] > pos[b]:
                    return ctx.fail("optimize_roundtrip.order", "surviving commands #%d and #%d swapped" % (a, b))
        if len(out) > n:
            return ctx.fail("optimize_roundtrip.grew", "optimised circuit is longer than the source")
    return None


def selftest():
    """the oracle's conflict relation and order predicate on hand-made examples"""
    assert item_conflict(["g1", [0], None], ["g2", [1, 0], None])
    assert not item_conflict(["g1", [0], None], ["g1", [1], None])
    assert item_conflict(["mx", [0], None], ["ff", [1], 0])
    assert not item_conflict(["ff", [1], 0], ["ff", [2], 0])
    a, b = object(), object()
    assert order_problem([["g1", [0], None], ["g2", [0, 1], None]], [a, b], [b, a], "x")[0] == "x.order"
    assert order_problem([["g1", [0], None], ["g1", [1], None]], [a, b], [b, a], "x") is None
    assert order_problem([["g1", [0], None], ["g1", [1], None]], [a, b], [b], "x")[0] == "x.multiset"


# ---------------------------------------------------------------------------------------------
# generators
# ---------------------------------------------------------------------------------------------
def enum_cases(ctx):
    nm = 3
    A = alphabet(nm)
    maxlen = 3 if ctx.tier == "quick" else 4
    yield {"nm": nm, "seq": []}
    for L in range(1, maxlen + 1):
        for combo in itertools.product(A, repeat=L):
            yield {"nm": nm, "seq": [list(c) for c in combo]}
    ctx.info["alphabet_size"] = len(A)
    ctx.info["max_length"] = maxlen


@st.composite
def random_case(draw):
    nm = draw(st.integers(2, 6))
    n = draw(st.integers(2, 14))
    seq = []
    for _ in range(n):
        kind = draw(st.sampled_from(["g1", "g2", "g2", "mx", "mf", "mf", "ff", "ff2", "pr", "ch"]))
        if kind in ("g1", "mx", "pr", "ch"):
            seq.append([kind, [draw(st.integers(0, nm - 1))], None])
        elif kind == "g2":
            seq.append([kind, list(draw(st.permutations(range(nm)))[:2]), None])
        elif kind == "mf":
            k = draw(st.integers(1, nm))
            seq.append([kind, list(draw(st.permutations(range(nm)))[:k]), None])
        elif kind == "ff":
            # the measured mode may be the target itself (feedback onto the measured mode)
            seq.append([kind, [draw(st.integers(0, nm - 1))], draw(st.integers(0, nm - 1))])
        else:
            # two-mode gate parameterised by the measured value of a third mode or of one of its own targets
            p = draw(st.permutations(range(nm)))
            seq.append([kind, [p[0], p[1]], draw(st.integers(0, nm - 1))])
    order = draw(st.lists(st.integers(0, 7), max_size=6))
    return {"nm": nm, "seq": seq, "grid_order": order}


SUBS = [
    Sub("enum_small", check=check_seq, enumerate=enum_cases, exhaustive=True,
        shards={"quick": 6, "thorough": 16}, budget={"quick": 200, "thorough": 1500},
        rule="every command sequence of length <= 3 (quick) / <= 4 (thorough) over a 3-mode alphabet of 26 command kinds"),
    Sub("random_long", check=check_seq, strategy=lambda ctx: random_case(),
        examples={"quick": 1500, "thorough": 12000}, shards={"quick": 2, "thorough": 16},
        rule="Hypothesis: 2..14 commands over 2..6 modes, random wire insertion order for the DAG"),
]

MANIFEST = {
    "technique": "bounded exhaustive enumeration + Hypothesis-generated command sequences, validity-predicate oracle over every legal linearisation",
    "text": ("Every command sequence up to length 3 (quick) / 4 (thorough) over a 3-mode, 26-kind alphabet is enumerated "
             "completely and random sequences up to 14 commands / 6 modes are generated; for each, list_to_grid, grid_to_DAG, "
             "all topological sorts of the DAG (short sequences), DAG_to_list, group_operations (4 predicates), GBS.compile and "
             "optimize_circuit are checked against an independent conflict relation (multiset by identity, order of every "
             "conflicting pair, A/B/C partition, measurement collection). Exhaustive only for the enumerated sub-space."),
    "note": ("Trusted: the harness conflict relation (self-tested at start-up), networkx all_topological_sorts. "
             "gaussian_merge's DAG surgery is covered semantically under C11, not here."),
}
