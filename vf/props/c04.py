"""C04 - every internal circuit reordering respects mode and measurement dependencies.

Oracle: an independent conflict relation written here (two commands conflict iff they share a
register mode, or one acts on / measures a mode whose measured value the other uses as a
parameter), and validity predicates over the *output* of each reordering routine (multiset of
command objects by identity, relative order of every conflicting pair, A/B/C partition, grid rows in
temporal order, DAG reachability).  No expected order is ever assumed: for short sequences *every*
topological sort of the DAG the repo builds is checked.

Routines that replace commands (optimize_circuit merging / cancelling neighbours, GBS collecting the Fock
measurements, gaussian_merge folding Gaussian gates into GaussianTransform + Dgate) are judged by the
same relation: surviving commands keep the order of every conflicting pair and, wire by wire, a created
command lies between the same survivors as the commands it replaces (wire_problem).  gaussian_merge is
additionally observed one merge round at a time, and the graph it rebuilt is checked for a path between
every pair that must stay ordered (merge_round_problem), i.e. for every linearisation it may be sorted to.
"""
from __future__ import annotations

import json

import itertools

import networkx as nx
from hypothesis import strategies as st

from vf.core import Sub

RULE = ("command sequences over {one-mode gate, ordered two-mode gate, homodyne, MeasureFock on 1..n modes, "
        "one- or two-mode gate parameterised by the measured value of another mode or of its own target, preparation}: exhaustively up to the stated "
        "length over 3 modes, Hypothesis-generated up to 14 commands over 2..6 modes (there also: rotation / inverse rotation pairs that cancel, "
        "threshold measurements, gates reading two measured modes, register indices with gaps and >= 10, the same circuit through "
        "Program.compile('gbs'[, optimize=True]) / Program.optimize); gaussian_merge: 2..11 commands over 1..4 modes mixing mergeable Gaussian gates "
        "(incl. displacements and exact inverses) with Kerr-type gates, measurements, Ket preparations and gates reading a measured value; "
        "a case is non-trivial when it has >=1 conflicting pair and >=1 independent pair of commands (a reordering is possible and "
        "constrained; gaussian_merge: at least one block was merged and an unmerged command conflicts with it); distinct = distinct JSON of the sequence")
ASSUMPTIONS = [
    "conflict relation of the oracle: share a register mode, or one command's register contains a mode whose "
    "measured value is a parameter of the other (read from the command objects' reg / op.measurement_deps)",
    "networkx topological sorting enumerations (all_topological_sorts) are trusted to enumerate linearisations",
    "commands created by a routine (merged gates of optimize_circuit, GaussianTransform / Dgate of gaussian_merge, the collected MeasureFock) are "
    "located by the modes read from the created object (reg, measurement_deps): on every wire they must lie between the same surviving commands "
    "as commands that disappeared; a command may disappear without replacement only together with another one (exact cancellation)",
    "gaussian_merge is observed one merge round at a time (GaussianMerge.merge_a_gaussian_op, .curr_seq) and its rebuilt graph (.new_DAG) is "
    "checked for a path between every pair that has to stay ordered, i.e. for every linearisation DAG_to_list may return",
    "GBS.compile may refuse a circuit only for a reason its docstring names: no Fock measurement, a command that depends on an earlier Fock "
    "measurement (shares a mode with it or reads its result), or a mode measured twice",
]
REQUIRED_LABELS = {"all": ["measured_param_dependency", "feedback_onto_measured_mode", "marked_between_unmarked", "measurefock_multi",
                           "gbs_accepted", "gbs_rejected", "all_toposorts_checked", "circuit_deletes_modes", "operation_object_applied_twice_to_same_modes"]}

_STATE = {}
NREG = 16


def _env():
    """Lazily import the repo and build one shared register (RegRefs are reused across cases so that the
    name-cached MeasuredParameter symbols always refer to the same RegRef objects).  The register belongs to one
    shared 16-mode Program so that the same commands can also be sent through Program.compile / Program.optimize."""
    if not _STATE:
        import numpy as np
        import strawberryfields as sf
        from strawberryfields import ops
        import strawberryfields.program_utils as pu
        from strawberryfields.compilers.gbs import GBS
        from strawberryfields.compilers.gaussian_merge import GaussianMerge

        prog = sf.Program(NREG)
        _STATE.update(ops=ops, pu=pu, GBS=GBS, GM=GaussianMerge, np=np, prog=prog, regs=list(prog.register))
    return _STATE


def alphabet(nm):
    A = []
    for i in range(nm):
        A.append(["g1", [i], None])
    for i, j in itertools.permutations(range(nm), 2):
        A.append(["g2", [i, j], None])
    for i in range(nm):
        A.append(["mx", [i], None])
    for i in range(nm):
        A.append(["mf", [i], None])
    if nm >= 2:
        A.append(["mf", [0, 1], None])
    if nm >= 3:
        A.append(["mf", list(range(nm)), None])
    for i, j in itertools.permutations(range(nm), 2):
        A.append(["ff", [j], i])  # gate on j using the measured value of i
    for i in range(nm):
        A.append(["ff", [i], i])  # feedback onto the measured mode itself
    for i in range(nm):
        A.append(["pr", [i], None])
    return A


def deps_of(item):
    """modes whose measured value the command reads: None | int | list of ints in the case JSON"""
    d = item[2]
    if d is None:
        return set()
    if isinstance(d, int):
        return {d}
    return set(d)


def remap(items, mode_map):
    """mode labels 0..nm-1 of the case -> register indices (registers with gaps / two-digit indices)"""
    if not mode_map:
        return [list(it) for it in items]
    out = []
    for kind, modes, dep in items:
        if dep is not None:
            dep = mode_map[dep] if isinstance(dep, int) else [mode_map[d] for d in dep]
        out.append([kind, [mode_map[m] for m in modes], dep])
    return out


def _unitary(np, k):
    return np.fft.fft(np.eye(k)) / np.sqrt(k)


def _sympl(np, k):
    r = [0.2 - 0.05 * i for i in range(k)]
    return np.diag([np.exp(-x) for x in r] + [np.exp(x) for x in r])


GM_GAUSS = ("S", "R", "Ri", "D", "Di", "BS", "BSi", "S2", "MZ", "IF", "GT")   # kinds gaussian_merge may merge
GM_NONGAUSS = ("K", "V", "CK", "ffk", "mx", "mf", "pk")                         # kinds it has to leave alone


def make_cmd(item, k=0):
    e = _env()
    ops, pu, regs, np = e["ops"], e["pu"], e["regs"], e["np"]
    kind, modes = item[0], item[1]
    dep = sorted(deps_of(item))
    if kind == "g1":
        op = ops.Sgate(0.1 + 0.01 * k)
    elif kind == "g2":
        op = ops.BSgate(0.3, 0.1)
    elif kind == "mx":
        op = ops.MeasureHomodyne(0.0)
    elif kind == "mf":
        op = ops.MeasureFock()
    elif kind == "mt":
        op = ops.MeasureThreshold()
    elif kind == "ff":
        # one measured value, or an expression of two measured values
        op = ops.Rgate(regs[dep[0]].par) if len(dep) == 1 else ops.Rgate(regs[dep[0]].par + 2 * regs[dep[1]].par)
    elif kind == "ff2":
        # the measured values sit in the first, or in the first and the second parameter
        op = ops.BSgate(regs[dep[0]].par, 0.2) if len(dep) == 1 else ops.BSgate(regs[dep[0]].par, regs[dep[1]].par)
    elif kind == "pr":
        op = ops.Coherent(0.2)
    elif kind == "ch":
        op = ops.LossChannel(0.5)
    elif kind == "r":
        op = ops.Rgate(0.4)
    elif kind == "ri":
        op = ops.Rgate(0.4).H  # cancels "r" exactly
    # ---- gaussian_merge alphabet
    elif kind == "S":
        op = ops.Sgate(0.3, 0.2)
    elif kind == "R":
        op = ops.Rgate(0.4)
    elif kind == "Ri":
        op = ops.Rgate(-0.4)
    elif kind == "D":
        op = ops.Dgate(0.2, 0.1)
    elif kind == "Di":
        op = ops.Dgate(0.2, 0.1).H
    elif kind == "BS":
        op = ops.BSgate(0.3, 0.1)
    elif kind == "BSi":
        op = ops.BSgate(0.3, 0.1).H
    elif kind == "S2":
        op = ops.S2gate(0.2, 0.1)
    elif kind == "MZ":
        op = ops.MZgate(0.3, 0.5)
    elif kind == "IF":
        op = ops.Interferometer(_unitary(np, len(modes)))
    elif kind == "GT":
        op = ops.GaussianTransform(_sympl(np, len(modes)))
    elif kind == "K":
        op = ops.Kgate(0.1)
    elif kind == "V":
        op = ops.Vgate(0.1)
    elif kind == "CK":
        op = ops.CKgate(0.1)
    elif kind == "ffk":
        op = ops.Kgate(regs[dep[0]].par)
    elif kind == "pk":
        op = ops.Ket(np.array([0.0, 1.0]))
    elif kind == "del":
        op = ops.Del  # the library's single _Delete instance, as written by `Del | q[m]`
    else:
        raise ValueError(kind)
    return pu.Command(op, [regs[m] for m in modes])


# ---------------------------------------------------------------------------------------------
# oracle
# ---------------------------------------------------------------------------------------------
def item_conflict(a, b):
    ra, rb = set(a[1]), set(b[1])
    da, db = deps_of(a), deps_of(b)
    return bool(ra & rb) or bool(ra & db) or bool(rb & da)


def sig_conflict(a, b):
    """a, b: (modes acted on, modes whose measured value is read)"""
    return bool(a[0] & b[0]) or bool(a[0] & b[1]) or bool(b[0] & a[1])


def obj_sig(c):
    """wires of a command the routine under test created (there is no descriptor for it): read from the object"""
    return (frozenset(r.ind for r in c.reg), frozenset(r.ind for r in c.op.measurement_deps))


def make_sigof(items, cmds):
    known = {id(c): (frozenset(it[1]), frozenset(deps_of(it))) for it, c in zip(items, cmds)}

    def sigof(c):
        s = known.get(id(c))
        return obj_sig(c) if s is None else s

    return sigof


def order_problem(seq_items, inp, out, label):
    """inp: source commands (same indices as seq_items); out: produced commands."""
    if sorted(map(id, inp)) != sorted(map(id, out)):
        return label + ".multiset", "output commands are not exactly the input commands (in=%d out=%d)" % (len(inp), len(out))
    pos = {id(c): k for k, c in enumerate(out)}
    for i in range(len(inp)):
        for j in range(i + 1, len(inp)):
            if item_conflict(seq_items[i], seq_items[j]) and pos[id(inp[i])] > pos[id(inp[j])]:
                return label + ".order", "commands #%d %s and #%d %s conflict but were swapped" % (i, seq_items[i], j, seq_items[j])
    return None


def wire_problem(prev, out, sigof, label):
    """A routine that may replace commands (merge, cancel, collect) turned ``prev`` into ``out``.  Commands present in both
    (by identity) are survivors.  Valid iff no command is emitted twice, every conflicting pair of survivors keeps its order
    and, on every wire, a created command lies between the same survivors as some command that disappeared.  A command
    that disappears without any replacement between its surviving neighbours must do so together with a second one."""
    pid = {id(c): k for k, c in enumerate(prev)}
    oid = {}
    for p, c in enumerate(out):
        if id(c) in oid:
            return label + ".multiset", "output position %d repeats a command" % p
        oid[id(c)] = p
    surv = [c for c in prev if id(c) in oid]
    for i, a in enumerate(surv):
        for b in surv[i + 1:]:
            if sig_conflict(sigof(a), sigof(b)) and oid[id(a)] > oid[id(b)]:
                return label + ".order", "commands #%d and #%d of the source conflict but were swapped" % (pid[id(a)], pid[id(b)])
    wires = set()
    for c in list(prev) + list(out):
        wires |= sigof(c)[0] | sigof(c)[1]

    def profile(lst, known, w):
        seen = frozenset()
        prof = {}
        for c in lst:
            sg = sigof(c)
            if w not in sg[0] and w not in sg[1]:
                continue
            if id(c) in known:
                seen = seen | {id(c)}
            else:
                prof[seen] = prof.get(seen, 0) + 1
        return prof

    for w in sorted(wires):
        gone = profile(prev, oid, w)
        made = profile(out, pid, w)
        for key in made:
            if not gone.get(key):
                return label + ".misplaced_new", ("wire %d: a command created by the routine sits after source commands %s where no source command disappeared"
                                                  % (w, sorted(pid[i] for i in key)))
        for key, cnt in gone.items():
            if not made.get(key) and cnt < 2:
                return label + ".lost", "wire %d: one command after source commands %s vanished without a replacement" % (w, sorted(pid[i] for i in key))
    return None


def merge_round_problem(prev, out, dag, sigof, gaussian, label, note=None):
    """One merge round of gaussian_merge.  Returns (signature, detail) or None.  ``dag`` (may be None) is the graph the
    routine sorted to obtain ``out``: every pair that has to stay ordered must be connected by a path in it."""
    pid = {id(c): k for k, c in enumerate(prev)}
    oid = {}
    for p, c in enumerate(out):
        if id(c) in oid:
            return label + ".multiset", "output position %d repeats a command" % p
        oid[id(c)] = p
    surv = [c for c in prev if id(c) in oid]
    gone = [c for c in prev if id(c) not in oid]
    made = [c for c in out if id(c) not in pid]
    if not gone or not made:
        return label + ".empty_round", "the round reported a merge but removed %d and created %d commands" % (len(gone), len(made))
    for c in gone:
        if not gaussian(c):
            return label + ".nongaussian_removed", "source command #%d is not a mergeable Gaussian gate but disappeared" % pid[id(c)]
    for c in made:
        if type(c.op).__name__ not in ("GaussianTransform", "Dgate"):
            return label + ".foreign_command", "the round created a %s" % type(c.op).__name__
    need = []  # (first, second, why)
    for i, a in enumerate(surv):
        for b in surv[i + 1:]:
            if sig_conflict(sigof(a), sigof(b)):
                need.append((a, b, "unmerged #%d before unmerged #%d" % (pid[id(a)], pid[id(b)])))
    for s in surv:
        sides = set()
        for m in gone:
            if sig_conflict(sigof(s), sigof(m)):
                sides.add(pid[id(m)] > pid[id(s)])
        for x in made:
            if not sig_conflict(sigof(s), sigof(x)):
                continue
            if not sides:
                return label + ".misplaced_new", "created %s acts on a mode of unmerged #%d that no merged command touched" % (type(x.op).__name__, pid[id(s)])
            if len(sides) == 2:
                return label + ".merged_across", "merged commands lie on both sides of unmerged #%d, which conflicts with them" % pid[id(s)]
            if True in sides:
                need.append((s, x, "unmerged #%d before the merged block" % pid[id(s)]))
            else:
                need.append((x, s, "merged block before unmerged #%d" % pid[id(s)]))
    for x in made:
        for y in made:
            if type(x.op).__name__ == "GaussianTransform" and type(y.op).__name__ == "Dgate" and sig_conflict(sigof(x), sigof(y)):
                need.append((x, y, "transformation before its displacement"))
    for a, b, why in need:
        if oid[id(a)] > oid[id(b)]:
            return label + ".order", "returned list violates: " + why
    if dag is not None:
        if sorted(map(id, dag.nodes)) != sorted(oid):
            return label + ".dag_nodes", "the rebuilt graph does not hold exactly the returned commands"
        reach = {}
        for c in out:
            reach[id(c)] = set(map(id, nx.descendants(dag, c)))
        for a, b, why in need:
            if id(b) not in reach[id(a)]:
                # (finding F60, fixed: the displacement gate of a merged block used to get no edge to a successor whose other
                # non-Gaussian predecessor acts on the displaced mode; replays/C04/F60-*.json)
                return label + ".dag_missing_dependency", "rebuilt graph has no path for: %s (a legal topological sort may swap them)" % why
    return None


PREDICATES = {
    "mf": lambda ops: (lambda o: isinstance(o, ops.MeasureFock)),
    "g2": lambda ops: (lambda o: isinstance(o, ops.BSgate)),
    "meas": lambda ops: (lambda o: isinstance(o, ops.Measurement)),
    "g1": lambda ops: (lambda o: isinstance(o, ops.Sgate)),
}


def gbs_problem(ops, items, cmds, out, label, strict=True):
    """out: command list GBS accepted, or None when it refused (CircuitError).  strict: the circuit reached GBS.compile
    unchanged (no optimisation in front), so acceptance / refusal can be decided from the source."""
    n = len(cmds)
    src_mf = [k for k in range(n) if items[k][0] == "mf"]
    blocked = [(k, j) for k in src_mf for j in range(k + 1, n) if item_conflict(items[k], items[j])]
    if out is None:
        if strict and src_mf and not blocked:
            return label + ".rejected_legal", "circuit with Fock measurements %s that nothing depends on was refused" % [items[k][1] for k in src_mf]
        return None
    out_mf = [c for c in out if isinstance(c.op, ops.MeasureFock)]
    want = sorted(set(m for k in src_mf for m in items[k][1]))
    if len(out_mf) != 1 or out[-1] is not out_mf[0] or [r.ind for r in out_mf[0].reg] != want:
        return label + ".measure_collection", "expected one final MeasureFock on %s, got %s" % (want, [[r.ind for r in c.reg] for c in out_mf])
    if strict:
        rest_in = [cmds[k] for k in range(n) if k not in src_mf]
        rest_items = [items[k] for k in range(n) if k not in src_mf]
        pr = order_problem(rest_items, rest_in, [c for c in out if not isinstance(c.op, ops.MeasureFock)], label)
        if pr:
            return pr
        # accepting is only legal if moving the measurements to the end crossed no dependency
        if blocked:
            k, j = blocked[0]
            return label + ".accepted_illegal", "MeasureFock #%d %s was moved past conflicting command #%d %s" % (k, items[k], j, items[j])
    return wire_problem(cmds, out, make_sigof(items, cmds), label)


def optimize_problem(items, cmds, out, label):
    n = len(cmds)
    idx = {id(c): k for k, c in enumerate(cmds)}
    if len(out) == n:
        return order_problem(items, cmds, out, label)
    surv = [c for c in out if id(c) in idx]
    ks = [idx[id(c)] for c in surv]
    pos = {k: p for p, k in enumerate(ks)}
    for a in ks:
        for b in ks:
            if a < b and item_conflict(items[a], items[b]) and pos[a] > pos[b]:
                return label + ".order", "surviving commands #%d and #%d swapped" % (a, b)
    if len(out) > n:
        return label + ".grew", "optimised circuit is longer than the source"
    # merged commands must lie where the commands they replace were
    return wire_problem(cmds, out, make_sigof(items, cmds), label)


def check_seq(ctx, case):
    """modes deleted at the end of the circuit (`Del | q[m]`): their RegRefs are inactive by the time any routine sees the circuit, exactly
    as in a user's program (the shared register is restored afterwards)"""
    e = _env()
    dels = [m for it in remap(case["seq"], case.get("mode_map")) if it[0] == "del" for m in it[1]]
    try:
        return _check_seq(ctx, case, dels)
    finally:
        for m in dels:
            e["regs"][m].active = True


def _check_seq(ctx, case, dels=()):
    e = _env()
    ops, pu, GBS, regs = e["ops"], e["pu"], e["GBS"], e["regs"]
    mode_map = case.get("mode_map")
    items = remap(case["seq"], mode_map)
    cmds = [make_cmd(it, k) for k, it in enumerate(items)]
    has_del = bool(dels)
    for m in dels:  # the commands were written while the subsystems existed
        regs[m].active = False
    shared_ops = False
    if case.get("share_ops"):
        # ONE Operation object applied several times to the same subsystems (a gate defined once and used in every layer): the commands
        # are distinct objects that share .op (seeded change C04-F gave Command value equality, which collapses them in the DAG)
        first = {}
        for k, it in enumerate(items):
            key = json.dumps([it[0], it[1], it[2]])
            if key in first:
                cmds[k] = pu.Command(cmds[first[key]].op, list(cmds[first[key]].reg))
                shared_ops = True
            else:
                first[key] = k
    n = len(cmds)
    used = sorted(mode_map) if mode_map else list(range(case["nm"]))

    # classify
    nconf = sum(1 for i in range(n) for j in range(i + 1, n) if item_conflict(items[i], items[j]))
    nind = n * (n - 1) // 2 - nconf
    labels = []
    if any(it[0] in ("ff", "ff2") for it in items):
        labels.append("measured_param_dependency")
    if any(it[0] in ("ff", "ff2") and deps_of(it) & set(it[1]) for it in items):
        labels.append("feedback_onto_measured_mode")
    if any(len(deps_of(it)) > 1 for it in items):
        labels.append("two_measured_modes_in_one_gate")
    if any(it[0] == "mf" and len(it[1]) > 1 for it in items):
        labels.append("measurefock_multi")
    for i in range(1, n - 1):
        if items[i][0] == "mf" and items[i - 1][0] != "mf" and items[i + 1][0] != "mf":
            labels.append("marked_between_unmarked")
            break
    if used and used[-1] >= 10:
        labels.append("mode_index_ge10")
        if any(it[0] == "mf" and max(it[1]) >= 10 and min(it[1]) < 10 and min(it[1]) > 1 for it in items):
            labels.append("measurefock_one_and_two_digit_modes")
    if used != list(range(len(used))):
        labels.append("register_with_gaps")
    # a rotation directly followed on its wire by its exact inverse (the optimiser cancels the pair)
    last = {}
    for k, it in enumerate(items):
        for w in set(it[1]) | deps_of(it):
            if it[0] in ("r", "ri") and w in last and items[last[w]][0] in ("r", "ri") and items[last[w]][0] != it[0]:
                labels.append("inverse_pair_neighbours")
            last[w] = k
    if case.get("api") and not has_del:
        labels.append("program_api")
    if has_del:
        labels.append("circuit_deletes_modes")
    if shared_ops:
        labels.append("operation_object_applied_twice_to_same_modes")
    ctx.note(case, nontrivial=(nconf >= 1 and nind >= 1), labels=sorted(set(labels)))

    # --- list_to_grid: rows are in temporal order and contain the command on each dependency wire
    try:
        grid = pu.list_to_grid(cmds)
    except Exception as exc:  # pylint: disable=broad-except
        return ctx.crash(exc, "list_to_grid")
    idx = {id(c): k for k, c in enumerate(cmds)}
    for wire, row in grid.items():
        ks = [idx.get(id(c), -1) for c in row]
        if -1 in ks or ks != sorted(ks) or len(set(ks)) != len(ks):
            return ctx.fail("grid.row_order", "wire %s holds commands %s (not in temporal order)" % (wire, ks))
    for k, it in enumerate(items):
        need = set(it[1]) | deps_of(it)
        for w in need:
            if not any(c is cmds[k] for c in grid.get(w, [])):
                return ctx.fail("grid.missing", "command #%d %s missing on wire %d" % (k, it, w))
    for wire, row in grid.items():
        for c in row:
            it = items[idx[id(c)]]
            if wire not in set(it[1]) | deps_of(it):
                return ctx.fail("grid.foreign_wire", "command #%d %s entered on wire %s" % (idx[id(c)], it, wire))

    # --- DAG: nodes are exactly the commands, consistent with input order, every conflicting pair ordered
    order = case.get("grid_order")
    if order:
        keys = list(grid.keys())
        keys = [keys[i % len(keys)] for i in order] + keys
        seen = []
        for kk in keys:
            if kk not in seen:
                seen.append(kk)
        grid2 = {kk: grid[kk] for kk in seen}
    else:
        grid2 = grid
    try:
        dag = pu.grid_to_DAG(grid2)
    except Exception as exc:  # pylint: disable=broad-except
        return ctx.crash(exc, "grid_to_DAG")
    if sorted(map(id, dag.nodes)) != sorted(map(id, cmds)):
        return ctx.fail("dag.nodes", "DAG nodes differ from the input commands (%d vs %d)" % (dag.number_of_nodes(), n))
    for a, b in dag.edges:
        if idx[id(a)] >= idx[id(b)]:
            return ctx.fail("dag.edge_direction", "edge from #%d to #%d points backwards in time" % (idx[id(a)], idx[id(b)]))
    # reachability among conflicting pairs
    reach = {id(c): set() for c in cmds}
    for c in reversed(cmds):  # input order is a topological order (checked above)
        for s in dag.successors(c):
            reach[id(c)].add(id(s))
            reach[id(c)] |= reach[id(s)]
    for i in range(n):
        for j in range(i + 1, n):
            if item_conflict(items[i], items[j]) and id(cmds[j]) not in reach[id(cmds[i])]:
                return ctx.fail("dag.missing_dependency", "conflicting commands #%d %s -> #%d %s are unordered in the DAG" % (i, items[i], j, items[j]))

    # --- every linearisation the sort may legally return (short sequences), and the one it returns
    if n <= 5:
        cnt = 0
        for lin in nx.all_topological_sorts(dag):
            cnt += 1
            pr = order_problem(items, cmds, list(lin), "toposort_any")
            if pr:
                return ctx.fail(*pr)
            if cnt >= 120:
                break
        ctx.label("all_toposorts_checked")
    try:
        out = pu.DAG_to_list(dag)
    except Exception as exc:  # pylint: disable=broad-except
        return ctx.crash(exc, "DAG_to_list")
    pr = order_problem(items, cmds, out, "dag_roundtrip")
    if pr:
        return ctx.fail(*pr)

    # --- group_operations: A+B+C is a legal reordering, no marked op in A or C
    for pname, mk in PREDICATES.items():
        pred = mk(ops)
        try:
            A, B, C = pu.group_operations(cmds, pred)
        except Exception as exc:  # pylint: disable=broad-except
            return ctx.crash(exc, "group_operations")
        pr = order_problem(items, cmds, list(A) + list(B) + list(C), "group_operations")
        if pr:
            return ctx.fail(*pr)
        if any(pred(c.op) for c in A) or any(pred(c.op) for c in C):
            return ctx.fail("group_operations.marked_outside_B", "predicate %s: marked operation in A or C" % pname)
        if not B and C:
            return ctx.fail("group_operations.C_without_B", "predicate %s: B empty but C not" % pname)
        marked = [c for c in cmds if pred(c.op)]
        if marked and (not pred(B[0].op) or not pred(B[-1].op)):
            # B is promised to hold the marked ops plus only what could not be moved out: its ends are marked
            return ctx.fail("group_operations.B_not_tight", "predicate %s: B starts or ends with an unmarked operation" % pname)

    # --- GBS compilation: all Fock measurements collected into one, last; the rest a legal reordering
    try:
        out = GBS().compile(list(cmds), [regs[i] for i in used])
    except pu.CircuitError:
        ctx.label("gbs_rejected")
        out = None
    except Exception as exc:  # pylint: disable=broad-except
        return ctx.crash(exc, "gbs_compile")
    if out is not None:
        ctx.label("gbs_accepted")
        if len([1 for it in items if it[0] == "mf"]) >= 2:
            ctx.label("gbs_accepted_several_measurefock")
    pr = gbs_problem(ops, items, cmds, out, "gbs")
    if pr:
        return ctx.fail(*pr)

    # --- optimize_circuit: surviving commands keep their dependency order, merged commands replace their sources in place
    try:
        out = pu.optimize_circuit(list(cmds))
    except Exception as exc:  # pylint: disable=broad-except
        return ctx.crash(exc, "optimize_circuit")
    if len(out) < n:
        ctx.label("optimize_merged_or_cancelled")
        if any(id(c) not in idx for c in out) and any(id(c) in idx for c in out):
            ctx.label("optimize_merged_next_to_survivor")
    pr = optimize_problem(items, cmds, out, "optimize_roundtrip")
    if pr:
        return ctx.fail(*pr)

    # --- the same routines reached through the Program API (Program.compile(compiler="gbs").circuit, Program.optimize)
    if case.get("api") and not has_del:
        prog = e["prog"]
        prog.circuit = list(cmds)
        for opt in (False, True):
            try:
                out = list(prog.compile(compiler="gbs", optimize=opt).circuit)
            except pu.CircuitError:
                out = None
            except Exception as exc:  # pylint: disable=broad-except
                return ctx.crash(exc, "program_compile_gbs")
            pr = gbs_problem(ops, items, cmds, out, "program_gbs_optimize" if opt else "program_gbs", strict=not opt)
            if pr:
                return ctx.fail(*pr)
        try:
            out = list(prog.optimize().circuit)
        except Exception as exc:  # pylint: disable=broad-except
            return ctx.crash(exc, "program_optimize")
        pr = optimize_problem(items, cmds, out, "program_optimize")
        if pr:
            return ctx.fail(*pr)
        if len(prog.circuit) != n or any(a is not b for a, b in zip(prog.circuit, cmds)):
            return ctx.fail("program.source_modified", "compile / optimize changed the circuit of the source program")
    return None


def check_gm(ctx, case):
    """gaussian_merge: its DAG surgery is a reordering too.  Unmerged commands keep their order relative to each other and
    to the merged blocks, observed for the whole compilation and for every single merge round (list and rebuilt graph)."""
    e = _env()
    pu, GM, regs = e["pu"], e["GM"], e["regs"]
    mode_map = case.get("mode_map")
    items = remap(case["seq"], mode_map)
    cmds = [make_cmd(it, k) for k, it in enumerate(items)]
    n = len(cmds)
    used = sorted(mode_map) if mode_map else list(range(case["nm"]))
    registers = [regs[i] for i in used]
    sigof = make_sigof(items, cmds)
    kind_of = {id(c): it[0] for it, c in zip(items, cmds)}

    def gaussian(c):
        return kind_of.get(id(c), "made") in GM_GAUSS + ("made",)

    labels = set()
    if any(it[0] == "ffk" for it in items):
        labels.add("gm_nongaussian_reads_measurement")
    if used and used[-1] >= 10:
        labels.add("mode_index_ge10")
    if used != list(range(len(used))):
        labels.add("register_with_gaps")
    problem = None
    crash = None
    interesting = False

    # --- one merge round at a time (first: the number of rounds is capped here, compile() itself loops until no merge is left)
    rounds_ok = True
    final_len = None
    if hasattr(GM, "merge_a_gaussian_op"):
        gm = GM()
        gm.curr_seq = list(cmds)
        rounds = 0
        while problem is None:
            prev = list(gm.curr_seq)
            pids = set(map(id, prev))
            try:
                merged = gm.merge_a_gaussian_op(registers)
            except nx.NetworkXUnfeasible as exc:
                problem = ("gaussian_merge.cycle", "round %d: the rebuilt graph has a cycle: %s" % (rounds + 1, str(exc)[:80]))
                break
            except Exception as exc:  # pylint: disable=broad-except
                crash = (exc, "gaussian_merge_round")
                break
            cur = list(gm.curr_seq)
            cids = set(map(id, cur))
            if not merged:
                if len(cur) != len(prev) or any(a is not b for a, b in zip(cur, prev)):
                    problem = ("gaussian_merge_round.changed_without_merge", "a round that reported no merge changed the circuit")
                break
            rounds += 1
            if rounds > 4 * n + 4:
                problem = ("gaussian_merge.no_termination", "more than %d merge rounds on %d commands" % (4 * n + 4, n))
                break
            problem = merge_round_problem(prev, cur, getattr(gm, "new_DAG", None), sigof, gaussian, "gaussian_merge_round", note=labels)
            made = [c for c in cur if id(c) not in pids]
            gone = [c for c in prev if id(c) not in cids]
            if any(type(c.op).__name__ == "Dgate" for c in made):
                labels.add("gm_block_with_displacement")
            if made and all(type(c.op).__name__ == "Dgate" for c in made):
                labels.add("gm_block_displacement_only")
            if any(type(c.op).__name__ == "GaussianTransform" and abs(c.op.p[0] - e["np"].identity(len(c.op.p[0]))).max() < 1e-12 for c in made):
                labels.add("gm_identity_block")
            for s in cur:
                if id(s) in pids and any(sig_conflict(sigof(s), sigof(m)) for m in gone):
                    interesting = True
                    labels.add("gm_unmerged_gaussian_next_to_block" if gaussian(s) else "gm_nongaussian_next_to_block")
        if rounds >= 1:
            labels.add("gm_merged")
        if rounds >= 2:
            labels.add("gm_several_rounds")
        rounds_ok = problem is None and crash is None
        final_len = len(gm.curr_seq)

    # --- the whole compilation through the public entry point
    if rounds_ok:
        try:
            out = list(GM().compile(list(cmds), registers))
        except nx.NetworkXUnfeasible as exc:
            out, problem = None, ("gaussian_merge.cycle", "the rebuilt graph has a cycle: %s" % str(exc)[:80])
        except Exception as exc:  # pylint: disable=broad-except
            out, crash = None, (exc, "gaussian_merge_compile")
        if out is not None:
            oid = set(map(id, out))
            for k, c in enumerate(cmds):
                if id(c) not in oid and not gaussian(c):
                    problem = problem or ("gaussian_merge.nongaussian_removed", "source command #%d %s disappeared" % (k, items[k]))
            for c in out:
                if id(c) not in kind_of and type(c.op).__name__ not in ("GaussianTransform", "Dgate"):
                    problem = problem or ("gaussian_merge.foreign_command", "compilation created a %s" % type(c.op).__name__)
            problem = problem or wire_problem(cmds, out, sigof, "gaussian_merge")
            if problem is None and final_len is not None and len(out) != final_len:
                problem = ("gaussian_merge.compile_differs_from_rounds", "compile() returned %d commands, the same rounds one by one %d" % (len(out), final_len))

    ctx.note(case, nontrivial=interesting, labels=sorted(labels))
    if crash:
        return ctx.crash(crash[0], crash[1])
    if problem:
        return ctx.fail(*problem)
    return None


class _FakeReg:
    def __init__(self, ind):
        self.ind = ind


class _FakeOp:
    measurement_deps = ()


class GaussianTransform(_FakeOp):  # names matter to merge_round_problem (self-test only)
    pass


class Dgate(_FakeOp):
    pass


class _FakeCmd:
    def __init__(self, op, modes):
        self.op = op
        self.reg = [_FakeReg(m) for m in modes]


def selftest():
    """the oracle's conflict relation and order predicates on hand-made examples"""
    assert item_conflict(["g1", [0], None], ["g2", [1, 0], None])
    assert not item_conflict(["g1", [0], None], ["g1", [1], None])
    assert item_conflict(["mx", [0], None], ["ff", [1], 0])
    assert item_conflict(["mx", [2], None], ["ff", [1], [0, 2]])
    assert not item_conflict(["mx", [3], None], ["ff", [1], [0, 2]])
    assert not item_conflict(["ff", [1], 0], ["ff", [2], 0])
    assert remap([["ff", [1], 0], ["ff2", [0, 2], [1, 2]]], [3, 7, 12]) == [["ff", [7], 3], ["ff2", [3, 12], [7, 12]]]
    a, b = object(), object()
    assert order_problem([["g1", [0], None], ["g2", [0, 1], None]], [a, b], [b, a], "x")[0] == "x.order"
    assert order_problem([["g1", [0], None], ["g1", [1], None]], [a, b], [b, a], "x") is None
    assert order_problem([["g1", [0], None], ["g1", [1], None]], [a, b], [b], "x")[0] == "x.multiset"
    # wire_problem: S S K on wire 0 -> merged S' must stay in front of K; R Ri may vanish as a pair, a single R may not
    s1, s2, k, r1 = object(), object(), object(), object()
    its = [["g1", [0], None], ["g1", [0], None], ["K", [0], None], ["r", [1], None]]
    sg = make_sigof(its, [s1, s2, k, r1])
    m = _FakeCmd(_FakeOp(), [0])
    assert wire_problem([s1, s2, k, r1], [m, k, r1], sg, "x") is None
    assert wire_problem([s1, s2, k, r1], [k, m, r1], sg, "x")[0] == "x.misplaced_new"
    assert wire_problem([s1, s2, k, r1], [k, r1], sg, "x") is None
    assert wire_problem([s1, s2, k, r1], [m, k], sg, "x")[0] == "x.lost"
    assert wire_problem([s1, s2, k, r1], [m, k, k, r1], sg, "x")[0] == "x.multiset"
    # merge_round_problem: BS(0,1) R(0) | K(1) S2(1,2): the block {BS, R} -> T(0,1) must precede K and S2
    bs, r, kk, s2g = object(), object(), object(), object()
    its = [["BS", [0, 1], None], ["R", [0], None], ["K", [1], None], ["S2", [1, 2], None]]
    cm = [bs, r, kk, s2g]
    sg = make_sigof(its, cm)
    kinds = {id(c): it[0] for it, c in zip(its, cm)}
    gauss = lambda c: kinds.get(id(c), "made") in GM_GAUSS + ("made",)  # noqa: E731
    T = _FakeCmd(GaussianTransform(), [0, 1])
    D = _FakeCmd(Dgate(), [1])
    g = nx.DiGraph([(T, kk), (kk, s2g)])
    assert merge_round_problem(cm, [T, kk, s2g], g, sg, gauss, "x") is None
    assert merge_round_problem(cm, [kk, T, s2g], g, sg, gauss, "x")[0] == "x.order"
    g2 = nx.DiGraph([(kk, s2g)])
    g2.add_node(T)
    assert merge_round_problem(cm, [T, kk, s2g], g2, sg, gauss, "x")[0] == "x.dag_missing_dependency"
    g3 = nx.DiGraph([(T, D), (T, kk), (kk, s2g)])
    seen = set()
    assert merge_round_problem(cm, [T, D, kk, s2g], g3, sg, gauss, "x", note=seen)[0] == "x.dag_missing_dependency"   # D -> K missing, T -> K there (F60)
    g4 = nx.DiGraph([(T, D), (D, kk), (kk, s2g)])
    assert merge_round_problem(cm, [T, D, kk, s2g], g4, sg, gauss, "x") is None
    g5 = nx.DiGraph([(T, D), (kk, s2g)])
    assert merge_round_problem(cm, [T, D, kk, s2g], g5, sg, gauss, "x")[0] == "x.dag_missing_dependency"
    assert merge_round_problem(cm, [T, s2g], None, sg, gauss, "x")[0] == "x.nongaussian_removed"
    assert merge_round_problem([bs, kk, r, s2g][:3], [kk, _FakeCmd(GaussianTransform(), [0, 1])], None,
                               make_sigof([its[0], ["K", [0], None], its[1]], [bs, kk, r]), gauss, "x")[0] == "x.merged_across"


# ---------------------------------------------------------------------------------------------
# generators
# ---------------------------------------------------------------------------------------------
def enum_cases(ctx):
    nm = 3
    A = alphabet(nm)
    maxlen = 3 if ctx.tier == "quick" else 4
    yield {"nm": nm, "seq": []}
    for L in range(1, maxlen + 1):
        for combo in itertools.product(A, repeat=L):
            yield {"nm": nm, "seq": [list(c) for c in combo]}
    ctx.info["alphabet_size"] = len(A)
    ctx.info["max_length"] = maxlen


@st.composite
def mode_map_of(draw, nm):
    """register indices of the nm mode labels: the contiguous prefix, or increasing indices below 16 with gaps whose
    upper part is two-digit (q[10]..q[15] sort differently as text)"""
    style = draw(st.sampled_from(["prefix", "high", "gaps", "prefix", "high"]))
    if style == "prefix":
        return None
    if style == "high":
        lo = draw(st.integers(1, nm - 1)) if nm > 1 else 0
        low = sorted(draw(st.permutations(range(2, 10)))[:lo])     # 2..9: text order differs from numeric order against 1x
        high = sorted(draw(st.permutations(range(10, NREG)))[: nm - lo])
        return low + high
    return sorted(draw(st.permutations(range(NREG)))[:nm])


@st.composite
def random_case(draw):
    nm = draw(st.integers(2, 6))
    n = draw(st.integers(2, 14))
    seq = []
    for _ in range(n):
        kind = draw(st.sampled_from(["g1", "g2", "g2", "mx", "mf", "mf", "ff", "ff2", "pr", "ch", "r", "ri", "mt", "pair"]))
        if kind in ("g1", "mx", "pr", "ch", "r", "ri", "mt"):
            seq.append([kind, [draw(st.integers(0, nm - 1))], None])
        elif kind == "pair":
            # a rotation and its exact inverse next to each other on one mode (cancelled by the optimiser), possibly with a
            # command on another mode in between
            m = draw(st.integers(0, nm - 1))
            a, b = draw(st.sampled_from([("r", "ri"), ("ri", "r")]))
            seq.append([a, [m], None])
            if draw(st.booleans()):
                seq.append(["g1", [(m + 1) % nm], None])
            seq.append([b, [m], None])
        elif kind == "g2":
            seq.append([kind, list(draw(st.permutations(range(nm)))[:2]), None])
        elif kind == "mf":
            k = draw(st.integers(1, nm))
            seq.append([kind, list(draw(st.permutations(range(nm)))[:k]), None])
        elif kind == "ff":
            # the measured mode may be the target itself (feedback onto the measured mode); sometimes two measured modes
            dep = draw(st.integers(0, nm - 1))
            if draw(st.integers(0, 3)) == 0:
                dep = list(draw(st.permutations(range(nm)))[:2])
            seq.append([kind, [draw(st.integers(0, nm - 1))], dep])
        else:
            # two-mode gate parameterised by the measured value of a third mode or of one of its own targets
            p = draw(st.permutations(range(nm)))
            dep = draw(st.integers(0, nm - 1))
            if draw(st.integers(0, 3)) == 0:
                dep = list(draw(st.permutations(range(nm)))[:2])
            seq.append([kind, [p[0], p[1]], dep])
    if draw(st.integers(0, 3)) == 0:
        # GBS-shaped tail: the Fock measurements of the circuit are moved to the end as several commands on disjoint modes
        seq = [it for it in seq if it[0] != "mf"]
        perm = list(draw(st.permutations(range(nm))))
        cut = draw(st.integers(1, len(perm)))
        seq.append(["mf", perm[:cut], None])
        if perm[cut:]:
            seq.append(["mf", perm[cut:], None])
    if draw(st.integers(0, 3)) == 0:
        for m in sorted(draw(st.permutations(range(nm)))[:draw(st.integers(1, 2))]):
            seq.append(["del", [m], None])
    order = draw(st.lists(st.integers(0, 7), max_size=6))
    case = {"nm": nm, "seq": seq, "grid_order": order}
    if draw(st.integers(0, 2)) == 0:
        case["share_ops"] = True
    mm = draw(mode_map_of(nm))
    if mm:
        case["mode_map"] = mm
    if draw(st.integers(0, 3)) != 0:
        case["api"] = True
    return case


@st.composite
def gm_case(draw):
    nm = draw(st.integers(1, 4))
    one = ["R", "D", "S", "Ri", "Di", "D"]
    two = ["BS", "BSi", "S2", "MZ", "BS"] if nm >= 2 else []
    multi = ["IF", "GT"]
    ng1 = ["K", "V", "K", "mx", "mf", "pk", "ffk"]
    ng2 = ["CK", "CK", "mf"] if nm >= 2 else []

    def gauss():
        kind = draw(st.sampled_from(one + two + one + two + multi))
        if kind in one:
            return [kind, [draw(st.integers(0, nm - 1))], None]
        if kind in two:
            return [kind, list(draw(st.permutations(range(nm)))[:2]), None]
        return [kind, list(draw(st.permutations(range(nm)))[: draw(st.integers(1, min(nm, 3)))]), None]

    def nongauss():
        kind = draw(st.sampled_from(ng1 + ng2))
        if kind == "ffk":
            return [kind, [draw(st.integers(0, nm - 1))], draw(st.integers(0, nm - 1))]
        if kind in ng1 and not (kind == "mf" and nm >= 2 and draw(st.booleans())):
            return [kind, [draw(st.integers(0, nm - 1))], None]
        return [kind, list(draw(st.permutations(range(nm)))[:2]), None]

    seq = []
    if draw(st.booleans()):
        # layers of Gaussian gates separated by layers of commands that cannot be merged (the shape the compiler is made for)
        for _ in range(draw(st.integers(1, 3))):
            seq += [gauss() for _ in range(draw(st.integers(1, 4)))]
            seq += [nongauss() for _ in range(draw(st.integers(1, 2)))]
        seq = seq[:11]
    else:
        for _ in range(draw(st.integers(2, 10))):
            what = draw(st.integers(0, 7))
            if what == 0 and nm >= 3:
                # a Gaussian gate that directly follows the gate the merge starts from but must stay out of the block, because a
                # two-mode non-Gaussian gate precedes it on its other mode: N(a,b); G(c,b); g(c); G'(a,b)
                a, b, c = draw(st.permutations(range(nm)))[:3]
                seq.append(["CK", draw(st.sampled_from([[a, b], [b, a]])), None])
                seq.append([draw(st.sampled_from(two)), draw(st.sampled_from([[c, b], [b, c]])), None])
                seq.append([draw(st.sampled_from(one)), [c], None])
                seq.append([draw(st.sampled_from(two)), draw(st.sampled_from([[a, b], [b, a]])), None])
            elif what == 1 and nm >= 2:
                # two Gaussian gates on the same pair separated on one mode by a command that cannot be merged: G(a,b); g(b); N(b); G'(a,b)
                a, b = draw(st.permutations(range(nm)))[:2]
                seq.append([draw(st.sampled_from(two)), [a, b], None])
                seq.append([draw(st.sampled_from(one)), [b], None])
                seq.append([draw(st.sampled_from(["K", "V", "mx"])), [b], None])
                seq.append([draw(st.sampled_from(two)), draw(st.sampled_from([[a, b], [b, a]])), None])
            else:
                seq.append(gauss() if what % 3 else nongauss())
        seq = seq[:12]
    case = {"nm": nm, "seq": seq}
    mm = draw(mode_map_of(nm))
    if mm:
        case["mode_map"] = mm
    return case


REQUIRED_LABELS["all"] += ["mode_index_ge10", "register_with_gaps", "two_measured_modes_in_one_gate", "inverse_pair_neighbours",
                           "optimize_merged_next_to_survivor", "program_api", "gbs_accepted_several_measurefock",
                           "gm_merged", "gm_block_with_displacement", "gm_nongaussian_next_to_block",
                           "gm_unmerged_gaussian_next_to_block", "gm_several_rounds", "measurefock_one_and_two_digit_modes"]

SUBS = [
    # the Hypothesis sub-checks come first: their shards run longest and the pool starts tasks in this order
    Sub("random_long", check=check_seq, strategy=lambda ctx: random_case(),
        examples={"quick": 1000, "thorough": 12000}, shards={"quick": 3, "thorough": 16},
        rule="Hypothesis: 2..14 commands over 2..6 modes (register indices with gaps / >= 10), random wire insertion order for the DAG, "
             "half of the cases also through Program.compile('gbs') / Program.optimize"),
    Sub("gaussian_merge_order", check=check_gm, strategy=lambda ctx: gm_case(),
        examples={"quick": 500, "thorough": 6000}, shards={"quick": 3, "thorough": 16},
        rule="Hypothesis: 2..11 commands over 1..4 modes, Gaussian gates (incl. displacements, exact inverses) mixed with commands "
             "gaussian_merge must not merge; whole compilation and every merge round (list and rebuilt graph) checked"),
    Sub("enum_small", check=check_seq, enumerate=enum_cases, exhaustive=True,
        shards={"quick": 6, "thorough": 16}, budget={"quick": 200, "thorough": 1500},
        rule="every command sequence of length <= 3 (quick) / <= 4 (thorough) over a 3-mode alphabet of 29 command kinds"),
]

MANIFEST = {
    "technique": "bounded exhaustive enumeration + Hypothesis-generated command sequences, validity-predicate oracle over every legal linearisation",
    "text": ("Every command sequence up to length 3 (quick) / 4 (thorough) over a 3-mode, 29-kind alphabet is enumerated "
             "completely and random sequences up to 14 commands / 6 modes are generated; for each, list_to_grid, grid_to_DAG, "
             "all topological sorts of the DAG (short sequences), DAG_to_list, group_operations (4 predicates), GBS.compile and "
             "optimize_circuit (also through Program.compile / Program.optimize) are checked against an independent conflict relation "
             "(multiset by identity, order of every conflicting pair, A/B/C partition, measurement collection, position of merged "
             "commands). gaussian_merge is checked one merge round at a time: unmerged commands keep their order relative to each "
             "other and to the merged block in the returned list and by a path in the rebuilt graph. Exhaustive only for the enumerated sub-space."),
    "note": ("Trusted: the harness conflict relation and wire predicates (self-tested at start-up), networkx all_topological_sorts / descendants. "
             "The semantics of merged blocks (the matrices) are covered under C11 / C03, not here."),
}
