"""C01 - all simulator backends compute the same physics for the same program.

Sub-checks
  ps_vs_ref            gaussian and bosonic backends vs refsim (independent phase-space calculation) and vs
                       each other, numerical precision, any hbar
  fock_pure_vs_mixed   the same program on the Fock simulator in pure and in mixed representation: the
                       truncation is identical on both sides, so the density tensors must agree to 1e-9
  fock_vs_ref          Gaussian programs on the Fock simulator vs refsim: quadrature moments read with
                       fockref and photon-number probabilities vs thewalrus, under a truncation guard
  fock_mzgate          MZgate special cases (dagger, phi_in = 0) native on fock vs refsim  (finding F3)
  bosonic_vs_fock      non-Gaussian preparations (Fock, cat) followed by Gaussian gates: bosonic vs fock
"""
from __future__ import annotations

import numpy as np
from hypothesis import strategies as st

from vf import fockref, gen, refsim, sfrun, spec
from vf.core import Sub

RULE = ("Hypothesis-generated programs (1..4 modes, 1..8 commands, every ordered target choice, parameters incl. 0, "
        "negative values and multiples of pi/2, optional .H, hbar in {0.5,1,2,3.3}, cutoff 5..11, pure/mixed); a case is "
        "non-trivial when >=2 independent computations of the state were compared and the program has a two-mode "
        "operation, or a channel/preparation on a register of >=2 modes; distinct = distinct JSON")
ASSUMPTIONS = [
    "TensorFlow backend not exercised: tensorflow is not installed in this sandbox",
    "refsim (vf/refsim.py) encodes the Heisenberg maps of the ops.py docstrings; self-tested against closed forms at start-up",
    "phase-space comparisons: atol 1e-8*(1+max|V|); Fock vs reference only when every prefix state has per-mode tail weight "
    "< 1e-5 below the cutoff (computed by the oracle with thewalrus), tolerance 5e-4 + 50*(1-trace)",
    "thewalrus.quantum.probabilities is trusted as the Fock representation of a Gaussian state",
    "PassiveChannel(T) acts as a -> T a (same convention as Interferometer; its docstring is ambiguous)",
]
REQUIRED_LABELS = {"all": ["descending_pair", "second_target_mode0", "mixed_rep", "pure_rep", "thermal_loss_not_mode0",
                           "dagger", "param_zero", "param_pi_multiple", "backend:gaussian", "backend:bosonic", "backend:fock"]}

ALPH_G = ["Dgate", "Sgate", "Rgate", "BSgate", "S2gate", "MZgate", "Xgate", "Zgate", "Pgate", "CXgate", "CZgate",
          "Fouriergate", "LossChannel", "Vacuum", "Coherent", "Squeezed", "DisplacedSqueezed", "Thermal"]
ALPH_G2 = ALPH_G + ["ThermalLossChannel", "sMZgate"]
ALPH_F = ALPH_G + ["Kgate", "CKgate", "Vgate", "Fock", "sMZgate"]
HBARS = [2.0, 2.0, 0.5, 1.0, 3.3]


def selftest():
    refsim.selftest()
    fockref.selftest()


def _scale(V):
    return 1.0 + float(np.max(np.abs(V)))


def _nontrivial(case):
    ops_ = case["ops"]
    return gen.has_two_mode(ops_) or (case["n"] >= 2 and any(s[0] in gen.CHANNELS or s[0] in gen.PREPS for s in ops_))


# ---------------------------------------------------------------------------------------------
# ps_vs_ref
# ---------------------------------------------------------------------------------------------
@st.composite
def matrix_op(draw, n, hbar):
    """one matrix-parametrised operation on k >= 2 modes listed in any order (cyclic listings of >= 3 modes included):
    Gaussian(V, r) preparation (native and decomposed), Interferometer(U), GaussianTransform(S)"""
    k = draw(st.integers(2, n))
    modes = list(draw(st.permutations(list(range(n))))[:k])
    what = draw(st.sampled_from(["Gaussian", "Gaussian", "Interferometer", "GaussianTransform"]))
    if what == "Gaussian":
        _, V = draw(gen.covariance(k, hbar, ["pure_generic", "mixed_generic", "mixed_diag", "pure_blockdiag"]))
        r = [draw(gen.fl(-1.0, 1.0)) * np.sqrt(hbar / 2) for _ in range(2 * k)]
        return ["Gaussian", [spec.enc_matrix(V), spec.enc_vec(r)], modes, {"kw": {"decomp": draw(st.booleans())}}]
    if what == "Interferometer":
        return ["Interferometer", [spec.enc_matrix(draw(gen.unitary(k, ["haar"]))[1])], modes, {}]
    return ["GaussianTransform", [spec.enc_matrix(draw(gen.symplectic(k, 0.5, ["generic"]))[2])], modes, {}]


@st.composite
def ps_case(draw):
    n = draw(st.integers(1, 4))
    hbar = draw(st.sampled_from(HBARS))
    ops_ = draw(gen.op_list(n, ALPH_G2, "ps", 1, 8))
    if n >= 2 and draw(st.integers(0, 3)) == 0:
        ops_.insert(draw(st.integers(0, len(ops_))), draw(matrix_op(n, hbar)))
    return {"n": n, "hbar": hbar, "ops": ops_}


def check_ps(ctx, case):
    n, hbar, ops_ = case["n"], case["hbar"], case["ops"]
    ref = spec.ref_run(n, ops_, hbar)
    labels = gen.labels_of(ops_)
    got = {}
    for be in ("gaussian", "bosonic"):
        try:
            res = sfrun.run(be, n, ops_, hbar)
        except sfrun.Rejected:
            labels.append("rejected:" + be)
            continue
        except Exception as exc:  # pylint: disable=broad-except
            return ctx.crash(exc, be)
        mu, V, info = sfrun.moments_of(res.state, be, hbar)
        got[be] = (mu, V)
        labels.append("backend:" + be)
        if be == "bosonic" and sfrun.weights_bad(info):
            return ctx.fail("bosonic.weights", "weights sum to %r" % (info["wsum"],))
    ctx.note(case, nontrivial=len(got) >= 1 and _nontrivial(case), labels=labels)
    tol = 1e-8 * _scale(ref.V)
    for be, (mu, V) in got.items():
        dm, dv = float(np.max(np.abs(mu - ref.mu))), float(np.max(np.abs(V - ref.V)))
        if dm > tol or dv > tol:
            return ctx.fail("%s_vs_ref.%s" % (be, _culprit(case, be, hbar)), "%s differs from the reference: |dmu|=%.3g |dV|=%.3g (tol %.1g)" % (be, dm, dv, tol))
    if len(got) == 2:
        dm = float(np.max(np.abs(got["gaussian"][0] - got["bosonic"][0])))
        dv = float(np.max(np.abs(got["gaussian"][1] - got["bosonic"][1])))
        if dm > tol or dv > tol:
            return ctx.fail("gaussian_vs_bosonic", "|dmu|=%.3g |dV|=%.3g" % (dm, dv))
    return None


def _culprit(case, be, hbar):
    """name of the first operation after which the backend deviates from the reference (root-cause label)"""
    n, ops_ = case["n"], case["ops"]
    for k in range(1, len(ops_) + 1):
        try:
            ref = spec.ref_run(n, ops_[:k], hbar)
            res = sfrun.run(be, n, ops_[:k], hbar)
            mu, V, _ = sfrun.moments_of(res.state, be, hbar)
            if max(np.max(np.abs(mu - ref.mu)), np.max(np.abs(V - ref.V))) > 1e-7 * _scale(ref.V):
                return ops_[k - 1][0]
        except Exception:  # pylint: disable=broad-except
            return ops_[k - 1][0] + ".exc"
    return "unknown"


# ---------------------------------------------------------------------------------------------
# fock pure vs mixed
# ---------------------------------------------------------------------------------------------
@st.composite
def fock_pm_case(draw):
    n = draw(st.integers(1, 3))
    cutoff = draw(st.integers(4, 8 if n < 3 else 6))
    ops_ = draw(gen.op_list(n, ALPH_F, "fock", 1, 7))
    ops_ = [s for s in ops_ if not (s[0] == "Fock" and s[1][0] >= cutoff)] or [["Rgate", [0.3], [0], {}]]
    return {"n": n, "cutoff": cutoff, "ops": ops_}


def check_fock_pm(ctx, case):
    n, cutoff, ops_ = case["n"], case["cutoff"], case["ops"]
    labels = gen.labels_of(ops_)
    states = {}
    for pure in (True, False):
        try:
            res = sfrun.run("fock", n, ops_, 2.0, cutoff, pure)
        except sfrun.Rejected:
            ctx.note(case, False, labels + ["rejected:fock"])
            return None
        except Exception as exc:  # pylint: disable=broad-except
            return ctx.crash(exc, "fock.pure=%s" % pure)
        states[pure] = res.state
    labels += ["backend:fock", "pure_rep" if states[True].is_pure else "pure_run_became_mixed", "mixed_rep"]
    ctx.note(case, nontrivial=_nontrivial(case), labels=labels)
    a = fockref.state_dm(states[True])
    b = fockref.state_dm(states[False])
    d = float(np.max(np.abs(a - b)))
    if d > 1e-9:
        return ctx.fail("fock.pure_vs_mixed.%s" % _culprit_pm(case), "pure and mixed representation differ by %.3g" % d)
    return None


def _culprit_pm(case):
    n, cutoff, ops_ = case["n"], case["cutoff"], case["ops"]
    for k in range(1, len(ops_) + 1):
        try:
            a = fockref.state_dm(sfrun.run("fock", n, ops_[:k], 2.0, cutoff, True).state)
            b = fockref.state_dm(sfrun.run("fock", n, ops_[:k], 2.0, cutoff, False).state)
            if np.max(np.abs(a - b)) > 1e-9:
                return ops_[k - 1][0]
        except Exception:  # pylint: disable=broad-except
            return ops_[k - 1][0] + ".exc"
    return "unknown"


# ---------------------------------------------------------------------------------------------
# fock vs refsim
# ---------------------------------------------------------------------------------------------
def tail_weight(ref, cutoff):
    """largest per-mode weight above the cutoff of the reference state"""
    from thewalrus.quantum import probabilities

    worst = 0.0
    for m in range(ref.n):
        mu, V = ref.reduced([m])
        p = probabilities(mu, V, cutoff, hbar=ref.h)
        worst = max(worst, 1.0 - float(np.sum(p)))
    return worst


def choose_cutoff(n, ops_, hbar, cutoffs):
    """smallest cutoff for which every prefix state of the reference has tail weight < 1e-5 (None if none)"""
    refs = []
    ref = refsim.Ref(n, hbar)
    for s in ops_:
        spec.ref_run(n, [s], hbar, ref)
        r2 = refsim.Ref(n, hbar)
        r2.mu, r2.V = ref.mu.copy(), ref.V.copy()
        refs.append(r2)
    for c in cutoffs:
        if all(tail_weight(r, c) < 1e-5 for r in refs):
            return c
    return None


@st.composite
def fock_ref_case(draw):
    n = draw(st.integers(1, 3))
    hbar = draw(st.sampled_from([2.0, 2.0, 2.0, 1.0, 0.5]))
    pure = draw(st.booleans())
    ops_ = draw(gen.op_list(n, ALPH_G + ["sMZgate"], "fock", 1, 6, no_mz_dagger=True))
    return {"n": n, "hbar": hbar, "pure": pure, "ops": ops_}


def check_fock_ref(ctx, case):
    from thewalrus.quantum import probabilities

    n, hbar, pure, ops_ = case["n"], case["hbar"], case["pure"], case["ops"]
    labels = gen.labels_of(ops_)
    cutoffs = [7, 9, 11] if n <= 2 else [7, 9]
    cutoff = choose_cutoff(n, ops_, hbar, cutoffs)
    if cutoff is None:
        ctx.note(case, False, ["truncation_dominated"])
        return None
    ref = spec.ref_run(n, ops_, hbar)
    try:
        res = sfrun.run("fock", n, ops_, hbar, cutoff, pure)
    except sfrun.Rejected:
        ctx.note(case, False, labels + ["rejected:fock"])
        return None
    except Exception as exc:  # pylint: disable=broad-except
        return ctx.crash(exc, "fock")
    rho = fockref.state_dm(res.state)
    tr = fockref.trace(rho, n)
    labels += ["backend:fock", "pure_rep" if res.state.is_pure else "mixed_rep", "cutoff:%d" % cutoff]
    ctx.note(case, nontrivial=_nontrivial(case), labels=labels)
    if tr > 1 + 1e-9:
        return ctx.fail("fock.trace_gt_1", "trace %.12f" % tr)
    tol = 5e-4 + 50 * (1 - tr)
    if tol > 0.05:
        ctx.label("trace_deficit_too_large")
        return None
    mu, V = fockref.moments(rho, n, hbar)
    sc = hbar / 2
    dm = float(np.max(np.abs(mu - ref.mu))) / np.sqrt(sc)
    dv = float(np.max(np.abs(V - ref.V))) / sc
    if dm > tol * 2 or dv > tol * 4 * _scale(ref.V / sc):
        return ctx.fail("fock_vs_ref.moments.%s" % _culprit_fock(case, cutoff), "fock (cutoff %d, trace %.6f) differs from the reference: |dmu|=%.3g |dV|=%.3g tol=%.2g" % (cutoff, tr, dm, dv, tol))
    pr = probabilities(ref.mu, ref.V, cutoff, hbar=hbar)
    pf = fockref.probs(rho, n)
    dp = float(np.max(np.abs(pr - pf)))
    if dp > tol:
        return ctx.fail("fock_vs_ref.probs.%s" % _culprit_fock(case, cutoff), "Fock probabilities differ from thewalrus(reference) by %.3g (tol %.2g)" % (dp, tol))
    return None


def _culprit_fock(case, cutoff):
    n, hbar, pure, ops_ = case["n"], case["hbar"], case["pure"], case["ops"]
    for k in range(1, len(ops_) + 1):
        try:
            ref = spec.ref_run(n, ops_[:k], hbar)
            rho = fockref.state_dm(sfrun.run("fock", n, ops_[:k], hbar, cutoff, pure).state)
            mu, V = fockref.moments(rho, n, hbar)
            if max(np.max(np.abs(mu - ref.mu)), np.max(np.abs(V - ref.V))) > 0.02 * hbar:
                return ops_[k - 1][0]
        except Exception:  # pylint: disable=broad-except
            return ops_[k - 1][0] + ".exc"
    return "unknown"


# ---------------------------------------------------------------------------------------------
# MZgate first-parameter convention on the fock backend (finding F3)
# ---------------------------------------------------------------------------------------------
@st.composite
def mz_case(draw):
    n = draw(st.integers(2, 3))
    pre = draw(gen.op_list(n, ["Dgate", "Sgate", "BSgate", "Rgate"], "fock", 1, 3))
    modes = list(draw(st.permutations(list(range(n))))[:2])
    kind = draw(st.sampled_from(["dagger", "zero", "zero_dagger"]))
    a = 0.0 if kind.startswith("zero") else draw(gen.angle())
    b = draw(gen.angle())
    flags = {"H": True} if kind.endswith("dagger") else {}
    return {"n": n, "pure": draw(st.booleans()), "ops": pre + [["MZgate", [a, b], modes, flags]]}


def check_mz(ctx, case):
    n, pure, ops_ = case["n"], case["pure"], case["ops"]
    cutoff = choose_cutoff(n, ops_, 2.0, [7, 9])
    if cutoff is None:
        ctx.note(case, False, ["truncation_dominated"])
        return None
    ref = spec.ref_run(n, ops_, 2.0)
    try:
        res = sfrun.run("fock", n, ops_, 2.0, cutoff, pure)
    except Exception as exc:  # pylint: disable=broad-except
        return ctx.crash(exc, "fock")
    rho = fockref.state_dm(res.state)
    tr = fockref.trace(rho, n)
    mu, V = fockref.moments(rho, n, 2.0)
    tol = 5e-4 + 50 * (1 - tr)
    ctx.note(case, True, ["mzgate_special", "backend:fock"])
    err = max(float(np.max(np.abs(mu - ref.mu))) / 2, float(np.max(np.abs(V - ref.V))) / (4 * _scale(ref.V)))
    if err > tol:
        # bug-compatible prediction of F3: Gate.apply skips the gate when p[0] == 0 and negates p[0] for .H
        last = ops_[-1]
        a, b = last[1]
        if a == 0:
            pred_ops = ops_[:-1]
        else:
            pred_ops = ops_[:-1] + [["MZgate", [-a, b], last[2], {}]]
        pred = spec.ref_run(n, pred_ops, 2.0)
        perr = max(float(np.max(np.abs(mu - pred.mu))) / 2, float(np.max(np.abs(V - pred.V))) / (4 * _scale(pred.V)))
        if perr <= tol:
            return ctx.fail("F3.fock_mzgate_first_param_convention", "native fock MZgate%s ignores that phi_in=0 is not the identity / -phi_in is not the inverse (error %.3g)" % (last[1], err))
        return ctx.fail("fock_mzgate.other", "fock MZgate special case differs from reference by %.3g and not in the way F3 predicts (%.3g)" % (err, perr))
    return None


# ---------------------------------------------------------------------------------------------
# bosonic vs fock for non-Gaussian preparations
# ---------------------------------------------------------------------------------------------
@st.composite
def bf_case(draw):
    n = draw(st.integers(1, 2))
    preps = []
    for m in range(n):
        kind = draw(st.sampled_from(["Fock", "Catstate", "Vacuum", "Coherent"]))
        if kind == "Fock":
            preps.append(["Fock", [draw(st.integers(0, 2))], [m], {}])
        elif kind == "Catstate":
            preps.append(["Catstate", [draw(gen.fl(0.3, 1.0)), draw(st.sampled_from([0.0, 1.0]))], [m], {}])
        elif kind == "Coherent":
            preps.append(["Coherent", [draw(gen.fl(0.0, 0.5)), draw(gen.angle())], [m], {}])
    gates = draw(gen.op_list(n, ["Rgate", "BSgate", "Dgate", "Sgate", "LossChannel", "MZgate"], "fock", 0, 4, no_mz_dagger=True))
    for g in gates:
        if g[0] == "Sgate":
            g[1][0] = max(-0.2, min(0.2, g[1][0]))
        if g[0] == "Dgate":
            g[1][0] = min(g[1][0], 0.3)
    return {"n": n, "ops": preps + gates}


def check_bf(ctx, case):
    n, ops_ = case["n"], case["ops"]
    cutoff = 12
    labels = gen.labels_of(ops_)
    try:
        rb = sfrun.run("bosonic", n, ops_, 2.0)
        rf = sfrun.run("fock", n, ops_, 2.0, cutoff, False)
    except sfrun.Rejected:
        ctx.note(case, False, labels + ["rejected"])
        return None
    except Exception as exc:  # pylint: disable=broad-except
        return ctx.crash(exc, "bosonic_or_fock")
    rho = fockref.state_dm(rf.state)
    tr = fockref.trace(rho, n)
    if tr < 1 - 2e-4:
        ctx.note(case, False, ["truncation_dominated"])
        return None
    mu_f, V_f = fockref.moments(rho, n, 2.0)
    mu_b, V_b, info = sfrun.moments_of(rb.state, "bosonic", 2.0)
    nongauss = any(s[0] in ("Fock", "Catstate") and not (s[0] == "Fock" and s[1][0] == 0) for s in ops_)
    ctx.note(case, nontrivial=nongauss, labels=labels + ["backend:bosonic", "backend:fock", "nongaussian_prep" if nongauss else "gaussian_only"])
    if sfrun.weights_bad(info):
        return ctx.fail("bosonic.weights", "weights sum to %r" % (info["wsum"],))
    tol = 2e-2 if nongauss else 2e-3
    dm = float(np.max(np.abs(mu_f - mu_b)))
    dv = float(np.max(np.abs(V_f - V_b))) / _scale(V_f)
    if dm > tol or dv > tol:
        return ctx.fail("bosonic_vs_fock.moments", "|dmu|=%.3g |dV|/scale=%.3g (tol %.2g; bosonic Fock/cat preparations are approximations)" % (dm, dv, tol))
    return None


SUBS = [
    Sub("ps_vs_ref", check=check_ps, strategy=lambda ctx: ps_case(), examples={"quick": 500, "thorough": 5000},
        shards={"quick": 2, "thorough": 16}, rule="gaussian + bosonic backends vs refsim on 1..4 modes"),
    Sub("fock_pure_vs_mixed", check=check_fock_pm, strategy=lambda ctx: fock_pm_case(), examples={"quick": 60, "thorough": 500},
        shards={"quick": 2, "thorough": 16}, rule="same program, Fock simulator pure vs mixed, density tensors equal to 1e-9"),
    Sub("fock_vs_ref", check=check_fock_ref, strategy=lambda ctx: fock_ref_case(), examples={"quick": 40, "thorough": 400},
        shards={"quick": 2, "thorough": 16}, rule="Gaussian programs on fock vs refsim moments and thewalrus probabilities"),
    Sub("fock_mzgate", check=check_mz, strategy=lambda ctx: mz_case(), examples={"quick": 15, "thorough": 100},
        shards={"quick": 1, "thorough": 4}, rule="MZgate.H / MZgate(0, x) natively on fock vs refsim"),
    Sub("bosonic_vs_fock", check=check_bf, strategy=lambda ctx: bf_case(), examples={"quick": 25, "thorough": 200},
        shards={"quick": 1, "thorough": 8}, rule="Fock/cat preparations + Gaussian gates: bosonic vs fock moments (1e-2)"),
]

MANIFEST = {
    "technique": "Hypothesis differential testing: three simulators vs an independent phase-space reference (refsim), Fock pure-vs-mixed metamorphic check",
    "text": ("Generated programs over the operations shared by the simulators are run on the gaussian, bosonic and fock backends and "
             "compared with refsim (written from the ops.py docstrings) at numerical precision for phase space, to 1e-9 between the "
             "pure and mixed Fock representations, and within a stated truncation tolerance between Fock and reference; every ordered "
             "target choice, .H, special parameter values, hbar and cutoff are generator axes. Exploration only: <=4 modes (Fock <=3)."),
}
