"""C01 - all simulator backends compute the same physics for the same program.

Sub-checks
  ps_vs_ref            gaussian and bosonic backends vs refsim (independent phase-space calculation) and vs
                       each other, numerical precision, any hbar
  fock_pure_vs_mixed   the same program on the Fock simulator in pure and in mixed representation: the
                       truncation is identical on both sides, so the density tensors must agree to 1e-9
  fock_vs_ref          Gaussian programs on the Fock simulator vs refsim: quadrature moments read with
                       fockref and photon-number probabilities vs thewalrus, under a truncation guard
  fock_mzgate          MZgate special cases (dagger, phi_in = 0) native on fock vs refsim  (finding F3)
  bosonic_vs_fock      non-Gaussian preparations (Fock, cat of any parity/representation, GKP) in any mode order, interleaved
                       with Gaussian gates: bosonic vs fock
  postselected_homodyne  MeasureHomodyne(phi, select of either sign) on one mode of an entangled Gaussian state, optional further
                       gates: gaussian, bosonic and fock (pure / mixed) vs the conditional state of refsim

Input classes added by the generator audit (all sub-checks unless noted): registers that lose (Del) and gain (New) modes in
the middle of the program, so that the used modes are not a contiguous prefix and the simulators have to re-map indices;
ONE Program object (operation objects shared between equal commands) handed to every engine; squeezing parameters that are
tiny but not zero; Gaussian(V) without means / on a single mode; cat states with odd / fractional parity, any phase and the
real representation, GKP states, preparations that are not the first commands of the program (bosonic_vs_fock).
"""
from __future__ import annotations

import numpy as np
from hypothesis import strategies as st

from vf import fockref, gen, refsim, sfrun, spec
from vf.core import Sub

RULE = ("Hypothesis-generated programs (1..4 modes, 1..8 commands, every ordered target choice, parameters incl. 0, "
        "negative values, multiples of pi/2 and tiny non-zero squeezing, optional .H, optional Del / New in the middle of the "
        "program, fresh Program per engine or one shared Program, hbar in {0.5,1,2,3.3}, cutoff 3..12, pure/mixed); a case is "
        "non-trivial when >=2 independent computations of the state were compared and the program has a two-mode "
        "operation, or a channel/preparation on a register of >=2 modes; distinct = distinct JSON")
ASSUMPTIONS = [
    "TensorFlow backend not exercised: tensorflow is not installed in this sandbox",
    "refsim (vf/refsim.py) encodes the Heisenberg maps of the ops.py docstrings; self-tested against closed forms at start-up",
    "phase-space comparisons: atol 1e-8*(1+max|V|); Fock vs reference only when every prefix state has per-mode tail weight "
    "< 1e-5 below the cutoff (computed by the oracle with thewalrus), tolerance 5e-4 + 50*(1-trace)",
    "thewalrus.quantum.probabilities is trusted as the Fock representation of a Gaussian state",
    "PassiveChannel(T) acts as a -> T a (same convention as Interferometer; its docstring is ambiguous)",
    "Del | q[k] traces mode k out (docstring of ops._Delete): the returned state is compared with the reference reduced to the "
    "modes still alive, in ascending index order; New() appends vacuum modes",
    "bosonic vs fock: 2e-2 when a Fock preparation is present (bosonic Fock states are approximations with r = 0.05), 5e-3 with a "
    "GKP state (cutoff 12, epsilon >= 0.5), 2e-3 otherwise (cat states are exact in both representations)",
]
REQUIRED_LABELS = {"all": ["descending_pair", "second_target_mode0", "mixed_rep", "pure_rep", "thermal_loss_not_mode0",
                           "dagger", "param_zero", "param_pi_multiple", "backend:gaussian", "backend:bosonic", "backend:fock",
                           "deleted_mode", "new_mode", "one_program_all_engines", "shared_operation_object", "tiny_squeezing", "select_negative", "select_positive"]}

ALPH_G = ["Dgate", "Sgate", "Rgate", "BSgate", "S2gate", "MZgate", "Xgate", "Zgate", "Pgate", "CXgate", "CZgate",
          "Fouriergate", "LossChannel", "Vacuum", "Coherent", "Squeezed", "DisplacedSqueezed", "Thermal"]
ALPH_G2 = ALPH_G + ["ThermalLossChannel", "sMZgate"]
ALPH_F = ALPH_G + ["Kgate", "CKgate", "Vgate", "Fock", "sMZgate"]
HBARS = [2.0, 2.0, 0.5, 1.0, 3.3]


def selftest():
    refsim.selftest()
    fockref.selftest()


def _scale(V):
    return 1.0 + float(np.max(np.abs(V)))


def _nontrivial(case):
    ops_ = _plain(case["ops"])
    return gen.has_two_mode(ops_) or (case["n"] >= 2 and any(s[0] in gen.CHANNELS or s[0] in gen.PREPS for s in ops_))


# ---------------------------------------------------------------------------------------------
# registers that change on the way (Del / New), one Program for all engines
# ---------------------------------------------------------------------------------------------
META = ("Del", "New")  # op specs ["Del", [], [modes...], {}] and ["New", [k], [], {}]
SQ_INDEX = {"Sgate": 0, "Squeezed": 0, "S2gate": 0, "DisplacedSqueezed": 2}  # position of the squeezing magnitude
TINY = [1e-6, -1e-6, 1e-4, -1e-4, 3e-8, 1e-3]


def _plain(ops_):
    return [s for s in ops_ if s[0] not in META]


def _layout(n, ops_):
    """(number of modes ever allocated, ascending list of the modes alive after ops_).  Indices are never re-used."""
    total, alive = n, list(range(n))
    for s in ops_:
        if s[0] == "New":
            alive = alive + list(range(total, total + int(s[1][0])))
            total += int(s[1][0])
        elif s[0] == "Del":
            alive = [m for m in alive if m not in s[2]]
    return total, alive


def _peak(n, ops_):
    """largest number of modes alive at the same time"""
    return max(len(_layout(n, ops_[:k])[1]) for k in range(len(ops_) + 1))


def _build(n, ops_, share):
    """like spec.build_program, plus New(); with `share`, commands with equal (name, parameters, flags) use ONE operation
    object (g = Sgate(r, phi).H ; g | q[0] ; g | q[1])"""
    import json

    import strawberryfields as sf
    from strawberryfields import ops

    prog = sf.Program(n)
    made = {}
    with prog.context as q:
        regs = list(q)
        for s in ops_:
            name, params, modes = s[0], s[1], s[2]
            flags = s[3] if len(s) > 3 else {}
            if name == "New":
                regs += list(ops.New(int(params[0])))
                continue
            key = json.dumps([name, params, flags], sort_keys=True)
            if share and key in made:
                op = made[key]
            else:
                op = made[key] = spec.make_op(ops, name, params, flags)
            tgt = tuple(regs[m] for m in modes)
            op | (tgt if len(tgt) != 1 else tgt[0])  # pylint: disable=expression-not-assigned
    return prog


def _runner(case, hbar, ops_=None):
    """run(backend, cutoff, pure) -> Result.  Default: a fresh Program per engine.  case['share']: ONE Program object is built
    and handed to every engine, which is how a user compares simulators; nothing in a run may leak into the next one."""
    n, share = case["n"], bool(case.get("share", 0))
    ops_ = case["ops"] if ops_ is None else ops_
    own = share or any(s[0] == "New" for s in ops_)
    cache = {}

    def run(be, cutoff=6, pure=True):
        prog = None
        if own:
            prog = cache.get("prog") if share else None
            if prog is None:
                with sfrun.HbarCtx(hbar):
                    prog = cache["prog"] = _build(n, ops_, share)
        return sfrun.run(be, n, ops_, hbar, cutoff, pure, prog=prog)

    return run


def _ref(n, ops_, hbar):
    """reference state on all modes ever allocated (a deleted mode is traced out = reset to vacuum and ignored; a new mode is
    vacuum from the start) and the list of modes alive at the end"""
    total, alive = _layout(n, ops_)
    return spec.ref_run(total, [s for s in ops_ if s[0] != "New"], hbar), alive


def _meta_labels(case):
    n, ops_ = case["n"], case["ops"]
    labs = set()
    alive, total, deleted = list(range(n)), n, False
    for s in ops_:
        if s[0] == "Del":
            labs.add("deleted_mode")
            if len(s[2]) == 2:
                labs.add("del_two_modes" + ("_descending" if s[2][0] > s[2][1] else ""))
            alive = [m for m in alive if m not in s[2]]
            if any(a > min(s[2]) for a in alive):
                labs.add("del_not_last")  # a surviving mode changes its internal position
            deleted = True
        elif s[0] == "New":
            labs.add("new_mode")
            if deleted:
                labs.add("new_after_del")
            alive = alive + [total]
            total += 1
        else:
            if deleted and len(s[2]) >= 2:
                labs.add("two_mode_op_after_del")
            if s[0] in SQ_INDEX and 0 < abs(s[1][SQ_INDEX[s[0]]]) <= 1e-3:
                labs.add("tiny_squeezing")
            if s[0] == "Gaussian":
                labs.add("gaussian_no_means" if len(s[1]) < 2 else "gaussian_means")
                if len(s[2]) == 1:
                    labs.add("gaussian_one_mode")
    if case.get("share"):
        labs.add("one_program_all_engines")
        keys = [repr([s[0], s[1], s[3] if len(s) > 3 else {}]) for s in _plain(ops_)]
        if len(set(keys)) < len(keys):
            labs.add("shared_operation_object")
    return sorted(labs)


@st.composite
def program(draw, n, alphabet, energy, min_len, max_len, max_alive, meta, **kw):
    """operation list over a register that may change on the way: segments of ordinary operations on the modes alive at that
    point, separated by `Del` of one or two alive modes (listed in any order) or `New(1)`; mode indices are never re-used, so
    after a Del the used modes are no contiguous prefix.  `meta` False: fixed register (as before the audit)."""
    if max_alive < 2 or not meta:
        return draw(gen.op_list(n, alphabet, energy, min_len, max_len, **kw))
    alive, total, out = list(range(n)), n, []

    def segment(lo, hi):
        seg = draw(gen.op_list(len(alive), alphabet, energy, lo, hi, **kw))
        for s in seg:
            s[2] = [alive[m] for m in s[2]]
        return seg

    # the first segment has to build the correlations that a later Del / New can get wrong: longer where that is cheap (phase space),
    # and never without an operation that couples two modes
    out += segment(2, max(2, 3 * max_len // 4)) if energy == "ps" else segment(1, max(1, max_len // 2))
    two = [a for a in alphabet if a in gen.TWO_MODE]
    if len(alive) >= 2 and two and not gen.has_two_mode(out):
        g = draw(gen.op_spec(len(alive), two, energy, **kw))
        g[2] = [alive[m] for m in g[2]]
        out.append(g)
    for _ in range(draw(st.integers(1, 2))):
        kinds = (["del"] if len(alive) >= 2 else []) + (["new"] if len(alive) < max_alive else [])
        if not kinds:
            break
        if draw(st.sampled_from(kinds)) == "del":
            gone = list(draw(st.permutations(alive))[:draw(st.sampled_from([1, 1, 2, 1])) if len(alive) >= 3 else 1])
            out.append(["Del", [], gone, {}])
            alive = [m for m in alive if m not in gone]
        else:
            out.append(["New", [1], [], {}])
            alive = alive + [total]
            total += 1
        out += segment(2, max(2, max_len // 2))  # enough operations on the changed register to meet each kind of gate
    return out


@st.composite
def special_squeezing(draw, ops_, fock):
    """every fourth program: one squeezing magnitude (Sgate, Squeezed, S2gate, DisplacedSqueezed) is tiny but not zero"""
    idx = [i for i, s in enumerate(ops_) if s[0] in SQ_INDEX]
    if idx and draw(st.integers(0, 3)) == 0:
        s = ops_[draw(st.sampled_from(idx))]
        s[1][SQ_INDEX[s[0]]] = draw(st.sampled_from(TINY))
    # (finding F64, fixed: the Fock-basis DisplacedSqueezed vector was not normalised for small non-zero squeezing; generated again)
    return ops_


@st.composite
def shared(draw, n, ops_):
    """share flag (every third case) and, with it, up to two gates of the program repeated on other targets, so that one
    operation object is applied several times"""
    if draw(st.integers(0, 2)) != 0:
        return 0
    for _ in range(draw(st.integers(0, 2))):
        gates = [i for i, s in enumerate(ops_) if s[0] in gen.GATES]
        if not gates:
            break
        i = draw(st.sampled_from(gates))
        src = ops_[i]
        pos = draw(st.integers(i + 1, len(ops_)))
        alive = _layout(n, ops_[:pos])[1]
        if len(alive) >= len(src[2]):
            ops_.insert(pos, [src[0], list(src[1]), list(draw(st.permutations(alive))[:len(src[2])]), dict(src[3])])
    return 1


# ---------------------------------------------------------------------------------------------
# ps_vs_ref
# ---------------------------------------------------------------------------------------------
@st.composite
def matrix_op(draw, alive, hbar, all_gaussian=False):
    """one matrix-parametrised operation on k >= 1 of the alive modes listed in any order (cyclic listings of >= 3 modes
    included): Gaussian(V[, r]) preparation (native and decomposed, with and without a vector of means, all Williamson
    classes), Interferometer(U), GaussianTransform(S)"""
    k = len(alive) if all_gaussian else draw(st.integers(2 if len(alive) >= 2 and draw(st.integers(0, 3)) else 1, len(alive)))
    modes = list(draw(st.permutations(alive))[:k])
    what = "Gaussian" if all_gaussian else draw(st.sampled_from(["Gaussian", "Gaussian", "Interferometer", "GaussianTransform"]))
    if what == "Gaussian":
        _, V = draw(gen.covariance(k, hbar, ["pure_generic", "mixed_generic", "mixed_diag", "pure_blockdiag", "thermal", "pure_diag"]))
        params = [spec.enc_matrix(V)]
        if draw(st.integers(0, 3)):
            params.append(spec.enc_vec([draw(gen.fl(-1.0, 1.0)) * np.sqrt(hbar / 2) for _ in range(2 * k)]))
        return ["Gaussian", params, modes, {"kw": {"decomp": draw(st.booleans())}}]
    if what == "Interferometer":
        return ["Interferometer", [spec.enc_matrix(draw(gen.unitary(k, ["haar"]))[1])], modes, {}]
    return ["GaussianTransform", [spec.enc_matrix(draw(gen.symplectic(k, 0.5, ["generic"]))[2])], modes, {}]


@st.composite
def ps_case(draw):
    meta = draw(st.integers(0, 2)) == 0  # every third program changes its register on the way; those start with more modes
    n = draw(st.sampled_from([3, 4, 2, 1, 4, 3])) if meta else draw(st.integers(1, 4))
    hbar = draw(st.sampled_from(HBARS))
    ops_ = draw(program(n, ALPH_G2, "ps", 1, 8, max_alive=4, meta=meta))
    if meta and n >= 2 and draw(st.booleans()):
        # start from a generic correlated Gaussian state of the whole register: every later Del / New acts on modes whose N and M
        # matrices are full and complex
        ops_.insert(0, draw(matrix_op(list(range(n)), hbar, all_gaussian=True)))
    if _layout(n, ops_)[0] >= 2 and draw(st.integers(0, 3)) == 0:
        pos = draw(st.integers(0, len(ops_)))
        ops_.insert(pos, draw(matrix_op(_layout(n, ops_[:pos])[1], hbar)))
    ops_ = draw(special_squeezing(ops_, fock=False))
    # (finding F65, fixed: Pgate(s) was decomposed with r = acosh(sqrt(1 + s^2/4)), no correct digit for |s| around 1e-8..1e-7)
    return {"n": n, "hbar": hbar, "ops": ops_, "share": draw(shared(n, ops_))}


def check_ps(ctx, case):
    n, hbar, ops_ = case["n"], case["hbar"], case["ops"]
    ref, alive = _ref(n, ops_, hbar)
    mu_r, V_r = ref.reduced(alive)
    labels = gen.labels_of(_plain(ops_)) + _meta_labels(case)
    run = _runner(case, hbar)
    got = {}
    for be in ("gaussian", "bosonic"):
        try:
            res = run(be)
        except sfrun.Rejected:
            labels.append("rejected:" + be)
            continue
        except Exception as exc:  # pylint: disable=broad-except
            return ctx.crash(exc, be)
        mu, V, info = sfrun.moments_of(res.state, be, hbar)
        got[be] = (mu, V)
        labels.append("backend:" + be)
        if be == "bosonic" and sfrun.weights_bad(info):
            return ctx.fail("bosonic.weights", "weights sum to %r" % (info["wsum"],))
    ctx.note(case, nontrivial=len(got) >= 1 and _nontrivial(case), labels=labels)
    tol = 1e-8 * _scale(ref.V)
    for be, (mu, V) in got.items():
        if mu.shape != mu_r.shape:
            return ctx.fail("%s.mode_count" % be, "%s returns %d modes, the register has %d (%s)" % (be, len(mu) // 2, len(alive), alive))
        dm, dv = float(np.max(np.abs(mu - mu_r))), float(np.max(np.abs(V - V_r)))
        if dm > tol or dv > tol:
            return ctx.fail("%s_vs_ref.%s" % (be, _culprit(case, be, hbar)), "%s differs from the reference: |dmu|=%.3g |dV|=%.3g (tol %.1g)" % (be, dm, dv, tol))
    if len(got) == 2:
        dm = float(np.max(np.abs(got["gaussian"][0] - got["bosonic"][0])))
        dv = float(np.max(np.abs(got["gaussian"][1] - got["bosonic"][1])))
        if dm > tol or dv > tol:
            return ctx.fail("gaussian_vs_bosonic", "|dmu|=%.3g |dV|=%.3g" % (dm, dv))
    return None


def _culprit(case, be, hbar):
    """name of the first operation after which the backend deviates from the reference (root-cause label)"""
    n, ops_ = case["n"], case["ops"]
    for k in range(1, len(ops_) + 1):
        try:
            ref, alive = _ref(n, ops_[:k], hbar)
            mu_r, V_r = ref.reduced(alive)
            res = _runner({"n": n}, hbar, ops_[:k])(be)
            mu, V, _ = sfrun.moments_of(res.state, be, hbar)
            if max(np.max(np.abs(mu - mu_r)), np.max(np.abs(V - V_r))) > 1e-7 * _scale(ref.V):
                return ops_[k - 1][0]
        except Exception:  # pylint: disable=broad-except
            return ops_[k - 1][0] + ".exc"
    return "shared_program" if case.get("share") else "unknown"


# ---------------------------------------------------------------------------------------------
# fock pure vs mixed
# ---------------------------------------------------------------------------------------------
@st.composite
def fock_pm_case(draw):
    meta = draw(st.integers(0, 2)) == 0  # every third program changes its register on the way; half of those start with 3 modes
    n = draw(st.sampled_from([3, 2, 3, 1])) if meta else draw(st.integers(1, 3))
    cutoff = draw(st.integers(4, 8 if n < 3 else 6))
    ops_ = draw(program(n, ALPH_F, "fock", 1, 7, max_alive=3 if cutoff <= 6 else 2, meta=meta))
    ops_ = [s for s in ops_ if not (s[0] == "Fock" and s[1][0] >= cutoff)] or [["Rgate", [0.3], [0], {}]]
    ops_ = draw(special_squeezing(ops_, fock=True))
    return {"n": n, "cutoff": cutoff, "ops": ops_, "share": draw(shared(n, ops_))}


def check_fock_pm(ctx, case):
    cutoff, ops_ = case["cutoff"], case["ops"]
    labels = gen.labels_of(_plain(ops_)) + _meta_labels(case)
    run = _runner(case, 2.0)
    states = {}
    for pure in (True, False):
        try:
            res = run("fock", cutoff, pure)
        except sfrun.Rejected:
            ctx.note(case, False, labels + ["rejected:fock"])
            return None
        except Exception as exc:  # pylint: disable=broad-except
            return ctx.crash(exc, "fock.pure=%s" % pure)
        states[pure] = res.state
    labels += ["backend:fock", "pure_rep" if states[True].is_pure else "pure_run_became_mixed", "mixed_rep", "fock_modes:%d" % _peak(case["n"], ops_)]
    ctx.note(case, nontrivial=_nontrivial(case), labels=labels)
    a = fockref.state_dm(states[True])
    b = fockref.state_dm(states[False])
    if a.shape != b.shape:
        return ctx.fail("fock.pure_vs_mixed.mode_count", "pure run returns %d modes, mixed run %d" % (a.ndim // 2, b.ndim // 2))
    d = float(np.max(np.abs(a - b)))
    if d > 1e-9:
        return ctx.fail("fock.pure_vs_mixed.%s" % _culprit_pm(case), "pure and mixed representation differ by %.3g" % d)
    return None


def _culprit_pm(case):
    n, cutoff, ops_ = case["n"], case["cutoff"], case["ops"]
    for k in range(1, len(ops_) + 1):
        try:
            a = fockref.state_dm(_runner({"n": n}, 2.0, ops_[:k])("fock", cutoff, True).state)
            b = fockref.state_dm(_runner({"n": n}, 2.0, ops_[:k])("fock", cutoff, False).state)
            if np.max(np.abs(a - b)) > 1e-9:
                return ops_[k - 1][0]
        except Exception:  # pylint: disable=broad-except
            return ops_[k - 1][0] + ".exc"
    return "shared_program" if case.get("share") else "unknown"


# ---------------------------------------------------------------------------------------------
# fock vs refsim
# ---------------------------------------------------------------------------------------------
def tail_weight(ref, cutoff):
    """largest per-mode weight above the cutoff of the reference state"""
    from thewalrus.quantum import probabilities

    worst = 0.0
    for m in range(ref.n):
        mu, V = ref.reduced([m])
        p = probabilities(mu, V, cutoff, hbar=ref.h)
        worst = max(worst, 1.0 - float(np.sum(p)))
    return worst


def choose_cutoff(n, ops_, hbar, cutoffs):
    """smallest cutoff for which every prefix state of the reference has tail weight < 1e-5 (None if none); n = number of modes
    ever allocated, New is a no-op for the reference"""
    refs = []
    ref = refsim.Ref(n, hbar)
    for s in ops_:
        if s[0] == "New":
            continue
        spec.ref_run(n, [s], hbar, ref)
        r2 = refsim.Ref(n, hbar)
        r2.mu, r2.V = ref.mu.copy(), ref.V.copy()
        refs.append(r2)
    for c in cutoffs:
        if all(tail_weight(r, c) < 1e-5 for r in refs):
            return c
    return None


@st.composite
def fock_ref_case(draw, meta):
    """meta: the register changes on the way (Del / New).  Decided per shard, not per case: with 30-40 examples per shard a class drawn
    with probability 1/3 is sometimes nearly absent, and only this sub-check sees how the Fock simulator re-maps modes after a Del"""
    n = draw(st.sampled_from([3, 2, 3, 1])) if meta else draw(st.integers(1, 3))
    hbar = draw(st.sampled_from([2.0, 2.0, 2.0, 1.0, 0.5]))
    pure = draw(st.booleans())
    # F3 (native MZgate vs the first-parameter convention) is fixed: MZgate.H and MZgate(0, x) are ordinary members of the alphabet
    ops_ = draw(program(n, ALPH_G + ["sMZgate"], "fock", 1, 6, max_alive=3, meta=meta))
    ops_ = draw(special_squeezing(ops_, fock=True))
    return {"n": n, "hbar": hbar, "pure": pure, "ops": ops_, "share": draw(shared(n, ops_))}


def check_fock_ref(ctx, case):
    from thewalrus.quantum import probabilities

    n, hbar, pure, ops_ = case["n"], case["hbar"], case["pure"], case["ops"]
    labels = gen.labels_of(_plain(ops_)) + _meta_labels(case)
    total = _layout(n, ops_)[0]
    cutoffs = [7, 9, 11] if _peak(n, ops_) <= 2 else [7, 9]
    cutoff = choose_cutoff(total, ops_, hbar, cutoffs)
    if cutoff is None:
        ctx.note(case, False, ["truncation_dominated"])
        return None
    ref, alive = _ref(n, ops_, hbar)
    mu_r, V_r = ref.reduced(alive)
    k = len(alive)
    try:
        res = _runner(case, hbar)("fock", cutoff, pure)
    except sfrun.Rejected:
        ctx.note(case, False, labels + ["rejected:fock"])
        return None
    except Exception as exc:  # pylint: disable=broad-except
        return ctx.crash(exc, "fock")
    labels += ["backend:fock", "pure_rep" if res.state.is_pure else "mixed_rep", "cutoff:%d" % cutoff]
    ctx.note(case, nontrivial=_nontrivial(case), labels=labels)
    if res.state.num_modes != k:
        return ctx.fail("fock.mode_count", "fock returns %d modes, the register has %d (%s)" % (res.state.num_modes, k, alive))
    rho = fockref.state_dm(res.state)
    tr = fockref.trace(rho, k)
    if tr > 1 + 1e-9:
        return ctx.fail("fock.trace_gt_1", "trace %.12f" % tr)
    tol = 5e-4 + 50 * (1 - tr)
    if tol > 0.05:
        ctx.label("trace_deficit_too_large")
        return None
    mu, V = fockref.moments(rho, k, hbar)
    sc = hbar / 2
    dm = float(np.max(np.abs(mu - mu_r))) / np.sqrt(sc)
    dv = float(np.max(np.abs(V - V_r))) / sc
    if dm > tol * 2 or dv > tol * 4 * _scale(V_r / sc):
        return ctx.fail("fock_vs_ref.moments.%s" % _culprit_fock(case, cutoff), "fock (cutoff %d, trace %.6f) differs from the reference: |dmu|=%.3g |dV|=%.3g tol=%.2g" % (cutoff, tr, dm, dv, tol))
    pr = probabilities(mu_r, V_r, cutoff, hbar=hbar)
    pf = fockref.probs(rho, k)
    dp = float(np.max(np.abs(pr - pf)))
    if dp > tol:
        return ctx.fail("fock_vs_ref.probs.%s" % _culprit_fock(case, cutoff), "Fock probabilities differ from thewalrus(reference) by %.3g (tol %.2g)" % (dp, tol))
    return None


def _culprit_fock(case, cutoff):
    n, hbar, pure, ops_ = case["n"], case["hbar"], case["pure"], case["ops"]
    for k in range(1, len(ops_) + 1):
        try:
            ref, alive = _ref(n, ops_[:k], hbar)
            mu_r, V_r = ref.reduced(alive)
            rho = fockref.state_dm(_runner({"n": n}, hbar, ops_[:k])("fock", cutoff, pure).state)
            mu, V = fockref.moments(rho, len(alive), hbar)
            if max(np.max(np.abs(mu - mu_r)), np.max(np.abs(V - V_r))) > 0.02 * hbar:
                return ops_[k - 1][0]
        except Exception:  # pylint: disable=broad-except
            return ops_[k - 1][0] + ".exc"
    return "shared_program" if case.get("share") else "unknown"


# ---------------------------------------------------------------------------------------------
# MZgate first-parameter convention on the fock backend (finding F3)
# ---------------------------------------------------------------------------------------------
@st.composite
def mz_case(draw):
    n = draw(st.integers(2, 3))
    pre = draw(gen.op_list(n, ["Dgate", "Sgate", "BSgate", "Rgate"], "fock", 1, 3))
    modes = list(draw(st.permutations(list(range(n))))[:2])
    kind = draw(st.sampled_from(["dagger", "zero", "zero_dagger"]))
    a = 0.0 if kind.startswith("zero") else draw(gen.angle())
    b = draw(gen.angle())
    flags = {"H": True} if kind.endswith("dagger") else {}
    return {"n": n, "pure": draw(st.booleans()), "ops": pre + [["MZgate", [a, b], modes, flags]]}


def check_mz(ctx, case):
    n, pure, ops_ = case["n"], case["pure"], case["ops"]
    cutoff = choose_cutoff(n, ops_, 2.0, [7, 9])
    if cutoff is None:
        ctx.note(case, False, ["truncation_dominated"])
        return None
    ref = spec.ref_run(n, ops_, 2.0)
    try:
        res = sfrun.run("fock", n, ops_, 2.0, cutoff, pure)
    except Exception as exc:  # pylint: disable=broad-except
        return ctx.crash(exc, "fock")
    rho = fockref.state_dm(res.state)
    tr = fockref.trace(rho, n)
    mu, V = fockref.moments(rho, n, 2.0)
    tol = 5e-4 + 50 * (1 - tr)
    ctx.note(case, True, ["mzgate_special", "backend:fock"])
    err = max(float(np.max(np.abs(mu - ref.mu))) / 2, float(np.max(np.abs(V - ref.V))) / (4 * _scale(ref.V)))
    if err > tol:
        # bug-compatible prediction of F3: Gate.apply skips the gate when p[0] == 0 and negates p[0] for .H
        last = ops_[-1]
        a, b = last[1]
        if a == 0:
            pred_ops = ops_[:-1]
        else:
            pred_ops = ops_[:-1] + [["MZgate", [-a, b], last[2], {}]]
        pred = spec.ref_run(n, pred_ops, 2.0)
        perr = max(float(np.max(np.abs(mu - pred.mu))) / 2, float(np.max(np.abs(V - pred.V))) / (4 * _scale(pred.V)))
        if perr <= tol:
            return ctx.fail("F3.fock_mzgate_first_param_convention", "native fock MZgate%s ignores that phi_in=0 is not the identity / -phi_in is not the inverse (error %.3g)" % (last[1], err))
        return ctx.fail("fock_mzgate.other", "fock MZgate special case differs from reference by %.3g and not in the way F3 predicts (%.3g)" % (err, perr))
    return None


# ---------------------------------------------------------------------------------------------
# bosonic vs fock for non-Gaussian preparations
# ---------------------------------------------------------------------------------------------
BF_GATES = ["Rgate", "BSgate", "Dgate", "Sgate", "LossChannel", "MZgate", "S2gate", "Fouriergate", "Xgate"]
BF_LIMIT = {"Sgate": 0.2, "Dgate": 0.3, "S2gate": 0.15, "Xgate": 0.4}  # keeps the energy inside the cutoff


@st.composite
def bf_gates(draw, modes, lo, hi):
    gates = draw(gen.op_list(len(modes), BF_GATES, "fock", lo, hi))
    for g in gates:
        g[2] = [modes[m] for m in g[2]]
        if g[0] in BF_LIMIT:
            g[1][0] = max(-BF_LIMIT[g[0]], min(BF_LIMIT[g[0]], g[1][0]))
    return gates


@st.composite
def bf_prep(draw, m, n, gkp_ok):
    """first operation of mode m: Fock(0..2), cat state (amplitude 0 or 0.3..1, any phase, parity 0 / 1 / fractional, complex or
    real representation), GKP qubit state (epsilon 0.5..1.2; registers of <= 2 modes), Vacuum, Coherent, or nothing"""
    gkp = "GKP" if gkp_ok else "Catstate"  # one GKP state per program (hundreds of weights each), not on 3 modes (cutoff 9)
    kind = draw(st.sampled_from([gkp, "Catstate", "Fock", "Catstate", gkp, "Vacuum", "Coherent", "none"]))
    if kind == "Fock":
        return ["Fock", [draw(st.integers(0, 2))], [m], {}]
    if kind == "Catstate":
        rep = draw(st.sampled_from(["complex", "real", "complex"]))
        if draw(st.integers(0, 7)) == 0:
            return ["Catstate", [0.0, draw(gen.angle()), 0], [m], {"kw": {"representation": rep}}]  # amplitude 0: vacuum (even parity only)
        par = draw(st.sampled_from(["odd", "fractional", "even", "odd", "any"]))  # parity p: theta = p pi
        par = {"odd": 1, "even": 0}[par] if par in ("odd", "even") else draw(st.sampled_from([0.5, -0.5, 1.5, 0.25])) if par == "fractional" else draw(gen.fl(0.0, 2.0))
        return ["Catstate", [draw(gen.fl(0.3, 1.0 if n <= 2 else 0.7)), draw(gen.angle()), par], [m], {"kw": {"representation": rep}}]
    if kind == "GKP":
        st_ = [draw(st.one_of(st.sampled_from([0.0, gen.PI, gen.PI / 2]), gen.fl(0.0, gen.PI))), draw(gen.angle())]
        return ["GKP", [], [m], {"kw": {"state": st_, "epsilon": draw(gen.fl(0.5, 1.2))}}]
    if kind == "Vacuum":
        return ["Vacuum", [], [m], {}]
    if kind == "Coherent":
        return ["Coherent", [draw(gen.fl(0.0, 0.5)), draw(gen.angle())], [m], {}]
    return None


@st.composite
def bf_case(draw):
    """the modes are opened in any order; the first operation of a mode is its preparation (the bosonic simulator accepts
    non-Gaussian preparations only there), gates on the modes opened so far may come before the next mode is prepared"""
    n = draw(st.sampled_from([1, 2, 2, 2, 2, 3]))
    ops_, opened = [], []
    for m in draw(st.permutations(list(range(n)))):
        prep = draw(bf_prep(m, n, n <= 2 and not any(s[0] == "GKP" for s in ops_)))
        if prep is not None:
            ops_.append(prep)
        opened.append(m)
        if len(opened) < n and draw(st.booleans()):
            ops_ += draw(bf_gates(opened, 1, 2))
    ops_ += draw(bf_gates(list(range(n)), 0, 4))
    return {"n": n, "ops": ops_ or [["Vacuum", [], [0], {}]]}


def _nongauss(s):
    return (s[0] == "Fock" and s[1][0] != 0) or (s[0] == "Catstate" and s[1][0] != 0) or s[0] == "GKP"


def check_bf(ctx, case):
    n, ops_ = case["n"], case["ops"]
    cutoff = 12 if n <= 2 else 9
    labels = gen.labels_of(ops_)
    try:
        rb = sfrun.run("bosonic", n, ops_, 2.0)
        rf = sfrun.run("fock", n, ops_, 2.0, cutoff, False)
    except sfrun.Rejected:
        ctx.note(case, False, labels + ["rejected"])
        return None
    except Exception as exc:  # pylint: disable=broad-except
        return ctx.crash(exc, "bosonic_or_fock")
    rho = fockref.state_dm(rf.state)
    tr = fockref.trace(rho, n)
    if tr < 1 - 2e-4:
        ctx.note(case, False, ["truncation_dominated"])
        return None
    mu_f, V_f = fockref.moments(rho, n, 2.0)
    mu_b, V_b, info = sfrun.moments_of(rb.state, "bosonic", 2.0)
    nongauss = any(_nongauss(s) for s in ops_)
    seen_gate = False
    for s in ops_:
        seen_gate = seen_gate or s[0] in gen.GATES or s[0] in gen.CHANNELS
        if s[0] == "Catstate" and s[1][0] != 0:
            par = s[1][2] if len(s[1]) > 2 else 0
            labels.append("cat_even" if par == 0 else "cat_odd" if par == 1 else "cat_parity_fractional")
            if (s[3] if len(s) > 3 else {}).get("kw", {}).get("representation") == "real":
                labels.append("cat_real_rep")
        if _nongauss(s) and seen_gate:
            labels.append("nongaussian_prep_after_gates")
        if _nongauss(s) and s[2][0] != 0:
            labels.append("nongaussian_prep_not_mode0")
    labels = sorted(set(labels)) + ["modes:%d" % n]
    ctx.note(case, nontrivial=nongauss, labels=labels + ["backend:bosonic", "backend:fock", "nongaussian_prep" if nongauss else "gaussian_only"])
    if sfrun.weights_bad(info):
        return ctx.fail("bosonic.weights", "weights sum to %r" % (info["wsum"],))
    # bosonic Fock states are approximations (quality parameter r = 0.05); GKP states need more of the cutoff; cat states are exact
    tol = 2e-2 if any(s[0] == "Fock" and s[1][0] != 0 for s in ops_) else 5e-3 if any(s[0] == "GKP" for s in ops_) else 2e-3
    dm = float(np.max(np.abs(mu_f - mu_b)))
    dv = float(np.max(np.abs(V_f - V_b))) / _scale(V_f)
    if dm > tol or dv > tol:
        return ctx.fail("bosonic_vs_fock.moments", "|dmu|=%.3g |dV|/scale=%.3g (tol %.2g; bosonic Fock preparations are approximations)" % (dm, dv, tol))
    return None


# ---------------------------------------------------------------------------------------------
# post-selected homodyne measurement: an operation all three simulators share; the state it leaves on the OTHER modes
# ---------------------------------------------------------------------------------------------
@st.composite
def psh_case(draw):
    from vf.props.c05 import entangling_prior

    n = draw(st.integers(2, 3))
    hbar = draw(st.sampled_from([2.0, 2.0, 1.0, 0.5]))
    prior = [o for o in draw(entangling_prior(n, "fock")) if o[0] != "Thermal"]
    for o in prior:  # energies for which cutoff 10 holds the state (same bounds as C06 fock_homodyne)
        if o[0] in ("Sgate", "Squeezed", "S2gate"):
            o[1][0] = float(np.clip(o[1][0], -0.25, 0.25))
        if o[0] == "Dgate":
            o[1][0] = min(o[1][0], 0.4)
    sel = draw(st.one_of(gen.fl(-0.8, 0.8), gen.fl(-0.8, -0.1), st.just(0.0)))  # in units of the vacuum standard deviation at hbar = 2
    post = draw(gen.op_list(n, ["Rgate", "BSgate", "Rgate"], "fock", 0, 2))
    return {"n": n, "hbar": hbar, "prior": prior, "mode": draw(st.integers(0, n - 1)), "phi": draw(gen.angle()), "select": sel * float(np.sqrt(hbar / 2)),
            "post": post, "pure": draw(st.booleans())}


def check_psh(ctx, case):
    n, hbar, m, phi, sel = case["n"], case["hbar"], case["mode"], case["phi"], case["select"]
    program_ = case["prior"] + [["MeasureHomodyne", [phi], [m], {"select": sel}]] + case["post"]
    ref = spec.ref_run(n, case["prior"], hbar)
    fock_ok = tail_weight(ref, 10) < 1e-6
    ref.condition_homodyne(phi, sel, m)
    spec.ref_run(n, case["post"], hbar, ref)
    sc = hbar / 2
    labels = ["op:MeasureHomodyne", "select_negative" if sel < 0 else "select_zero" if sel == 0 else "select_positive", "hbar:%g" % hbar]
    got = {}
    for be in ("gaussian", "bosonic", "fock"):
        if be == "fock" and not fock_ok:
            labels.append("truncation_dominated")
            continue
        try:
            res = sfrun.run(be, n, program_, hbar, 10, case["pure"])
        except sfrun.Rejected:
            labels.append("rejected:" + be)
            continue
        except Exception as exc:  # pylint: disable=broad-except
            ctx.note(case, True, labels)
            return ctx.crash(exc, be + ".MeasureHomodyne")
        if be == "fock":
            rho = fockref.state_dm(res.state)
            got[be] = fockref.moments(rho, n, hbar)
            labels.append("pure_rep" if res.state.is_pure else "mixed_rep")
        else:
            got[be] = sfrun.moments_of(res.state, be, hbar)[:2]
        labels.append("backend:" + be)
    ctx.note(case, nontrivial=len(got) >= 2, labels=labels)
    for be, (mu, V) in got.items():
        # phase space: the gaussian / bosonic POVM is a finitely squeezed one (2e-5); fock: truncation at 10 (5e-3, as C06 fock_homodyne)
        tol = (5e-3 if be == "fock" else 2e-5) * (1 + float(np.max(np.abs(ref.V))) / sc)
        dm, dv = float(np.max(np.abs(mu - ref.mu))) / np.sqrt(sc), float(np.max(np.abs(V - ref.V))) / sc
        if dm > tol or dv > tol:
            return ctx.fail("postselected_homodyne.%s_vs_ref" % be, "state after MeasureHomodyne(%.3f, select=%.4f) | q[%d] on %s differs from the conditional state of the "
                            "reference: |dmu|=%.3g |dV|=%.3g (tol %.2g, hbar %g)" % (phi, sel, m, be, dm, dv, tol, hbar))
    return None


SUBS = [
    Sub("ps_vs_ref", check=check_ps, strategy=lambda ctx: ps_case(), examples={"quick": 500, "thorough": 5000},
        shards={"quick": 2, "thorough": 16}, rule="gaussian + bosonic backends vs refsim on 1..4 modes, registers with Del / New"),
    Sub("fock_pure_vs_mixed", check=check_fock_pm, strategy=lambda ctx: fock_pm_case(), examples={"quick": 60, "thorough": 500},
        shards={"quick": 2, "thorough": 16}, rule="same program, Fock simulator pure vs mixed, density tensors equal to 1e-9"),
    Sub("fock_vs_ref", check=check_fock_ref, strategy=lambda ctx: fock_ref_case(meta=ctx.shard % 3 == 2), examples={"quick": 34, "thorough": 400},
        shards={"quick": 3, "thorough": 16}, rule="Gaussian programs on fock vs refsim moments and thewalrus probabilities"),
    Sub("fock_mzgate", check=check_mz, strategy=lambda ctx: mz_case(), examples={"quick": 15, "thorough": 100},
        shards={"quick": 1, "thorough": 4}, rule="MZgate.H / MZgate(0, x) natively on fock vs refsim"),
    Sub("bosonic_vs_fock", check=check_bf, strategy=lambda ctx: bf_case(), examples={"quick": 80, "thorough": 400},
        shards={"quick": 1, "thorough": 8}, rule="Fock/cat/GKP preparations in any mode order + Gaussian gates: bosonic vs fock moments"),
    Sub("postselected_homodyne", check=check_psh, strategy=lambda ctx: psh_case(), examples={"quick": 60, "thorough": 600},
        shards={"quick": 2, "thorough": 8}, rule="entangled 2..3 mode Gaussian state, MeasureHomodyne(phi, select of either sign) on one mode, 0..2 further gates: "
                                                 "gaussian, bosonic and fock (pure / mixed) vs the conditional state of refsim"),
]

MANIFEST = {
    "technique": "Hypothesis differential testing: three simulators vs an independent phase-space reference (refsim), Fock pure-vs-mixed metamorphic check",
    "text": ("Generated programs over the operations shared by the simulators are run on the gaussian, bosonic and fock backends and "
             "compared with refsim (written from the ops.py docstrings) at numerical precision for phase space, to 1e-9 between the "
             "pure and mixed Fock representations, and within a stated truncation tolerance between Fock and reference; every ordered "
             "target choice, .H, special parameter values (zero, multiples of pi/2, tiny squeezing), modes deleted and added in the middle "
             "of the program, one Program object shared by all engines, hbar and cutoff are generator axes; Fock, cat (any parity, both "
             "representations) and GKP preparations are compared between the bosonic and the Fock simulator. Exploration only: <=4 modes "
             "(Fock <=3)."),
}
