"""C14 - writing a program to Blackbird / XIR text (or to Python code with ``generate_code``) and loading it back
yields a program that computes the same thing.

Three writers are exercised: ``blackbird`` (``sf.save`` / ``to_blackbird(..).serialize()``), ``xir`` (``sf.save(ir="xir")`` /
``to_xir(..).serialize()``) and ``code`` (``sf.io.generate_code`` + ``exec`` in a fresh namespace).

Outcomes of one case
  (1) the writer raises a deliberate rejection (ValueError / NotImplementedError / CircuitError): counted, not a violation;
      the writer dies with an internal error (KeyError, IndexError, TypeError, ...): violation ``io.writer_crash.<w>.<cause>``
  (2) the writer succeeds, the reader raises: violation ``io.unloadable.<w>.<cause>``
  (3) both succeed: source and loaded program are compared command by command (class, modes, parameters evaluated under
      three bindings of the free parameters / three forced sets of measured values, dagger, select, dark_counts,
      constructor options, target, run and backend options, register size, TDM data), modulo an order change that
      keeps every per-wire subsequence; Gaussian programs are also compared as phase-space maps with refsim.
Every difference gets its own signature so that a different loss is a different finding.
"""
from __future__ import annotations

import math
import os
import tempfile

import numpy as np
from hypothesis import strategies as st

from vf import gen, refsim, spec
from vf.core import Sub

PI = math.pi
F12 = PI / 12

RULE = ("programs of 1..4 modes and 1..6 commands over every operation class of ops.__all__ (gates with .H, channels, "
        "preparations incl. Fock/Catstate/GKP/Ket/DensityMatrix/Bosonic, measurements with select / dark_counts, "
        "Interferometer/GraphEmbed/BipartiteGraphEmbed/GaussianTransform/Gaussian with matrix arguments and constructor "
        "options, New/Del, sMZgate), python int / float / complex / array parameters incl. formatting stress values and "
        "values within 1e-5 of multiples of pi/12, free-parameter and measured-parameter expressions, optionally compiled "
        "(target, shots, crop, cutoff_dim), sf.hbar in {2, 1, 0.5, 3}, TDMPrograms with per-bin arrays (N, shift, loop-variable "
        "expressions); an exhaustive grid of k*pi/12 +- offsets for generate_code; each through blackbird, xir (string and "
        "file path) or generate_code; at most one 'hazard' feature (a construct that is known or likely not to be "
        "loadable) per program so that the rest of the comparison stays live; non-trivial = at least 2 commands and at "
        "least one of dagger / symbolic parameter / array parameter / select / dark_counts / constructor option / "
        "run option; distinct = distinct JSON.  Audit additions: sf.save / sf.load through a name that already has the extension, a "
        "pathlib.Path, an open file object, to_xir(add_decl=True) as string; integer-dtype matrices and np.float64 scalars as "
        "parameters; identifier program names; generate_code with a local engine (backend, cutoff_dim) and with a register larger "
        "than the highest mode used; TDM programs with .H gates, MeasureFock / MeasureThreshold / MeasureHeterodyne / MeasureX / "
        "MeasureP, 12 per-bin arrays (p10, p11), arrays given as numpy arrays / tuples, add_decl; every successful write is "
        "followed by a comparison of the source program with its snapshot from before the write and by a second write")
ASSUMPTIONS = [
    "numeric parameters equal within 1e-12 relative (arrays: relative to the largest entry); python type (int/float/"
    "numpy scalar, list/tuple/array) and the program name are not compared",
    "symbolic parameters are compared by value under 3 bindings of the free parameters and 3 forced sets of measured "
    "values drawn into the case (sympy lambdify is trusted)",
    "Gate(p0, ..).H and Gate(-p0, ..) are the same inverse form for every Gate subclass that obeys the documented "
    "first-parameter convention (all but MZgate, sMZgate, Fouriergate, Ggate)",
    "the register size is compared only through the highest mode used (generated programs always use their top mode)",
    "blackbird 0.5 and xir 0.2 parsers are third-party; a file they cannot parse is still a violation of the property "
    "because the strawberryfields writer produced it",
    "refsim back-stop: affine maps equal within 1e-9 relative; skipped for non-Gaussian programs, unconditioned "
    "measurements and non-finite intermediate values",
    "the source program is evaluated completely before anything is loaded and sympy's caches are cleared at the start of "
    "every case (symbols are shared by name across Programs, F7)",
    "an empty program (no commands after compilation) is not written: both readers document ValueError for it",
    "writing is a read-only operation: after to_blackbird / to_xir / generate_code / sf.save the source program has the same snapshot as "
    "before and a second write gives the same text (every caller saves a program and then runs it); excluded for blackbird TDM "
    "programs whose measurement angle is a loop variable (finding F69, fixed)",
    "generate_code(prog, eng): the code is executed without its last line 'results = eng.run(prog)' (nothing is simulated); the "
    "engine it constructs must have the backend name and backend_options of eng (only cutoff_dim is generated: the documented "
    "output format has no place for other options); the register size is compared for generate_code even if the top modes are "
    "unused (it prints sf.Program(n))",
    "run options are only generated together with a compile target (Blackbird has no place for them otherwise); "
    "generate_code is only given uncompiled programs and eng=None",
]
REQUIRED_LABELS = {"all": ["path:file_ext", "path:pathlib", "path:fileobj", "code_with_engine", "code_unused_top_modes", "tdm_dagger",
                           "tdm_measurement_not_homodyne_phi", "numpy_scalar_param", "w:blackbird", "w:xir", "w:code", "tdm", "dagger", "sym:free", "sym:meas", "array_param", "select", "mode_index_ge_10", "measured_parameter_of_mode_ge_10",
                           "dark_counts", "ctor_option", "compiled", "path:file", "path:string", "complex_param",
                           "near_pi12", "outcome:compared", "outcome:writer_rejected_or_crashed", "outcome:unloadable"]}

NONCONV_GATES = ("MZgate", "sMZgate", "Fouriergate", "Ggate")
OPT_ATTRS = {"Interferometer": ["mesh", "drop_identity", "decomp"], "GraphEmbed": ["identity", "sq", "U", "decomp"],
             "BipartiteGraphEmbed": ["mean_photon_per_mode", "drop_identity", "decomp"],
             "GaussianTransform": ["vacuum", "decomp"], "Gaussian": ["decomp"]}


OPT_DEFAULTS = {"mesh": "rectangular", "drop_identity": True, "vacuum": False, "decomp": True, "mean_photon_per_mode": 1.0}


class SourceRejected(Exception):
    """the front end refused to build the *source* program (not C14's subject)"""


# ---------------------------------------------------------------------------------------------
# JSON parameter encoding (superset of vf.spec): number | {"re","im"} | {"mat"} | {"cmat"} | {"vec"} | {"cvec"} |
# {"arr3": nested list} | {"list": [...]} | {"str": s} | {"bool": b} | None | symbolic AST (a JSON list)
# AST: ["free", name] | ["meas", mode] | ["tdm", i] | ["neg", x] | ["add", x, y] | ["sub", x, y] | ["mul", x, y] |
#      ["div", x, y] | ["pow", x, int] | ["fn", name, x]       (x, y: AST or number)
# ---------------------------------------------------------------------------------------------
def dec(x):
    if isinstance(x, dict):
        if "str" in x:
            return x["str"]
        if "bool" in x:
            return bool(x["bool"])
        if "list" in x:
            return [dec(y) for y in x["list"]]
        if "arr3" in x:
            return np.array(x["arr3"], dtype=float)
        if "imat" in x:  # integer dtype (adjacency / permutation matrices as networkx or np.eye(n, dtype=int) give them)
            return np.array(x["imat"], dtype=np.int64)
        if "npf" in x:  # numpy scalar as np.sqrt(2), arr[i] give them
            return np.float64(x["npf"])
        if "npi" in x:
            return np.int64(x["npi"])
        return spec.dec_param(x)
    return x


def is_ast(x):
    return isinstance(x, list)


def ast_eval(a, free, meas, tdm=None):
    """independent evaluation of an AST with python floats (oracle side)"""
    if not is_ast(a):
        return a
    k = a[0]
    if k == "free":
        return free[a[1]]
    if k == "meas":
        return meas[a[1]]
    if k == "tdm":
        return tdm[a[1]]
    if k == "neg":
        return -ast_eval(a[1], free, meas, tdm)
    if k == "fn":
        return {"sin": math.sin, "cos": math.cos, "exp": math.exp, "sqrt": math.sqrt}[a[1]](ast_eval(a[2], free, meas, tdm))
    x = ast_eval(a[1], free, meas, tdm)
    y = ast_eval(a[2], free, meas, tdm)
    if k == "add":
        return x + y
    if k == "sub":
        return x - y
    if k == "mul":
        return x * y
    if k == "div":
        return x / y
    if k == "pow":
        return x ** y
    raise ValueError("bad AST %r" % (a,))


def ast_atoms(a, out=None):
    out = set() if out is None else out
    if is_ast(a):
        if a[0] in ("free", "meas", "tdm"):
            out.add((a[0], a[1]))
        elif a[0] == "fn":
            out.add(("fn", a[1]))
            ast_atoms(a[2], out)
        else:
            if a[0] == "pow":
                out.add(("pow", a[2]))
            for y in a[1:]:
                ast_atoms(y, out)
    return out


def ast_to_sympy(a, free_sym, meas_sym, tdm_sym=None):
    """build the front-end expression with python operators / sf.math functions, as a user would"""
    import strawberryfields as sf

    if not is_ast(a):
        return a
    k = a[0]
    if k == "free":
        return free_sym(a[1])
    if k == "meas":
        return meas_sym(a[1])
    if k == "tdm":
        return tdm_sym(a[1])
    if k == "neg":
        return -ast_to_sympy(a[1], free_sym, meas_sym, tdm_sym)
    if k == "fn":
        return getattr(sf.math, a[1])(ast_to_sympy(a[2], free_sym, meas_sym, tdm_sym))
    x = ast_to_sympy(a[1], free_sym, meas_sym, tdm_sym)
    y = ast_to_sympy(a[2], free_sym, meas_sym, tdm_sym)
    if k == "add":
        return x + y
    if k == "sub":
        return x - y
    if k == "mul":
        return x * y
    if k == "div":
        return x / y
    if k == "pow":
        return x ** y
    raise ValueError("bad AST %r" % (a,))


# ---------------------------------------------------------------------------------------------
# building the source program
# ---------------------------------------------------------------------------------------------
def _apply_ops(prog, q, oplist, tdm_sym=None):
    from strawberryfields import ops

    free = {}

    def free_sym(name):
        if name not in free:
            free[name] = prog.params(name)
        return free[name]

    def meas_sym(m):
        return q[m].par

    for o in oplist:
        name, params, modes = o[0], o[1], o[2]
        flags = o[3] if len(o) > 3 else {}
        if name == "New":
            ops.New(int(params[0]))
            continue
        regs = tuple(q[m] for m in modes)
        target = regs if len(regs) != 1 else regs[0]
        if name == "Del":
            ops.Del | target
            continue
        ps = [ast_to_sympy(p, free_sym, meas_sym, tdm_sym) if is_ast(p) else dec(p) for p in params]
        kw = {k: dec(v) for k, v in flags.get("kw", {}).items()}
        if flags.get("select") is not None:
            kw["select"] = dec(flags["select"])
        if flags.get("dark_counts") is not None:
            kw["dark_counts"] = dec(flags["dark_counts"])
        if flags.get("shorthand"):
            op = getattr(ops, flags["shorthand"])  # Vac, Fourier, MeasureX, MeasureP, MeasureHD instances
        else:
            cname = {"Ket1": "Ket", "Ket2": "Ket"}.get(name, name)
            op = getattr(ops, cname)(*ps, **kw)
        if flags.get("H"):
            op = op.H
        op | target


def build_program(case):
    import strawberryfields as sf

    name = {"name": case["name"]} if case.get("name") is not None else {}
    try:
        if case.get("tdm"):
            t = case["tdm"]
            N = t["N"] if len(t["N"]) > 1 or t.get("N_as_list") else t["N"][0]
            prog = sf.TDMProgram(N=N, **name)
            kw = {} if t.get("shift", "default") == "default" else {"shift": t["shift"]}
            conv = {"list": list, "tuple": tuple, "numpy": np.array}[t.get("arrays_as", "list")]  # np.array: float64 / int64 by content
            with prog.context(*[conv(list(a)) for a in t["arrays"]], **kw) as (p, q):
                _apply_ops(prog, q, case["ops"], tdm_sym=lambda i: p[i])
            if case.get("tdm_shots"):
                prog.run_options["shots"] = int(case["tdm_shots"])
        else:
            prog = sf.Program(case["n"], **name)
            with prog.context as q:
                _apply_ops(prog, q, case["ops"])
    except Exception as exc:  # pylint: disable=broad-except
        raise SourceRejected("%s: %s" % (type(exc).__name__, str(exc)[:200])) from exc
    return prog


# ---------------------------------------------------------------------------------------------
# reading programs: hazard tags of what is about to be written, numeric snapshots
# ---------------------------------------------------------------------------------------------
def program_tags(prog):
    """features of the program object that is handed to the writer (after an optional compile)"""
    import sympy
    from strawberryfields.parameters import FreeParameter, MeasuredParameter, par_is_symbolic

    tags = set()
    for cmd in prog.circuit:
        op = cmd.op
        cls = op.__class__.__name__
        tags.add("cls:" + cls)
        if getattr(op, "dagger", False):
            tags.add("dagger")
            if cls in NONCONV_GATES:
                tags.add("dagger_nonconv")
        if getattr(op, "select", None) is not None:
            tags.add("select")
        if getattr(op, "dark_counts", None) is not None:
            tags.add("dark_counts")
        for p in op.p:
            if isinstance(p, str):
                tags.add("str_param")
            elif isinstance(p, (bool, np.bool_)):
                tags.add("bool_param")
            elif isinstance(p, (list, tuple)):
                tags.add("list_param")
            elif isinstance(p, np.ndarray):
                tags.add("array_param")
                if p.ndim != 2:
                    tags.add("array_not_2d")
                if np.iscomplexobj(p):
                    tags.add("complex_param")
            elif isinstance(p, (complex, np.complexfloating)):
                tags.add("complex_param")
            elif par_is_symbolic(p):
                at_f = p.atoms(FreeParameter)
                at_m = p.atoms(MeasuredParameter)
                if at_f:
                    tags.add("sym:free")
                    if any(s.val is not None for s in at_f):
                        tags.add("sym:bound")
                if at_m:
                    tags.add("sym:meas")
                if p.atoms(sympy.Pow):
                    tags.add("sym:pow")
                if p.atoms(sympy.Function):
                    tags.add("sym:fn")
                if not p.is_symbol:
                    tags.add("sym:expr")
        sel = getattr(op, "select", None)
        if isinstance(sel, (complex, np.complexfloating)):
            tags.add("complex_param")
        if hasattr(prog, "tdm_params") and "Measure" in cls and op.p and not par_is_symbolic(op.p[0]):
            tags.add("tdm_numeric_measurement_angle")
    return tags


def _norm(v):
    if v is None or isinstance(v, str):
        return v
    try:
        a = np.asarray(v)
        if a.dtype == object:
            return "<object %s>" % (repr(v)[:80],)
        return a.astype(complex)
    except Exception:  # pylint: disable=broad-except
        return "<unreadable %s>" % (repr(v)[:80],)


def same_val(a, b, rtol=1e-12):
    """numerically equal: arrays of the same shape, |a-b| <= rtol * largest magnitude"""
    if a is None or b is None or isinstance(a, str) or isinstance(b, str):
        return type(a) is type(b) and a == b
    if a.shape != b.shape:
        return False
    if a.size == 0:
        return True
    if not (np.all(np.isfinite(a)) and np.all(np.isfinite(b))):
        return bool(np.array_equal(a, b, equal_nan=True))
    scale = max(float(np.max(np.abs(a))), float(np.max(np.abs(b))))
    return bool(np.all(np.abs(a - b) <= rtol * scale))


def _fmt(v):
    if isinstance(v, np.ndarray):
        if v.ndim == 0:
            z = complex(v)
            return repr(z.real) if z.imag == 0 else repr(z)
        return "array%s%s" % (list(v.shape), np.array2string(v.ravel()[:6], precision=17, max_line_width=200))
    return repr(v)


def snapshot(prog, binds, meas_sets):
    """comparable record of a Program; symbolic parameters are evaluated under each (binding, measured values) pair.
    Leaves the program unbound."""
    from strawberryfields.parameters import par_evaluate, par_is_symbolic

    circuit = list(prog.circuit)
    recs = []
    for cmd in circuit:
        op = cmd.op
        cls = op.__class__.__name__
        opts = {}
        for attr in OPT_ATTRS.get(cls, []):
            if hasattr(op, attr):
                opts[attr] = _norm(getattr(op, attr))
        recs.append({"cls": cls, "modes": [r.ind for r in cmd.reg], "dagger": bool(getattr(op, "dagger", False)),
                     "select": _norm(getattr(op, "select", None)), "dark": _norm(getattr(op, "dark_counts", None)),
                     "has_select": hasattr(op, "select"), "opts": opts, "deps": sorted(r.ind for r in op.measurement_deps),
                     "p": [{"kind": "sym" if par_is_symbolic(p) else "str" if isinstance(p, str) else "none" if p is None else "num",
                            "text": str(p) if par_is_symbolic(p) else None, "vals": []} for p in op.p]})
    regs = list(prog.reg_refs.values())
    for free, meas in zip(binds, meas_sets):
        prog.bind_params({k: v for k, v in free.items() if k in prog.free_params})
        for r in regs:
            r.val = meas[r.ind] if r.ind < len(meas) else 0.37
        for cmd, rec in zip(circuit, recs):
            for p, pr in zip(cmd.op.p, rec["p"]):
                if pr["kind"] == "sym":
                    try:
                        pr["vals"].append(_norm(par_evaluate(p)))
                    except Exception as exc:  # pylint: disable=broad-except
                        pr["vals"].append("<eval %s: %s>" % (type(exc).__name__, str(exc)[:60]))
                elif not pr["vals"]:
                    pr["vals"].append(_norm(p))
    prog.bind_params({k: None for k in prog.free_params})
    for r in regs:
        r.val = None
    top = max([m for rec in recs for m in rec["modes"]] + [-1])
    out = {"type": type(prog).__name__, "n": prog.num_subsystems, "top": top, "target": prog.target,
           "run": dict(prog.run_options), "backend": dict(prog.backend_options), "cmds": recs, "tdm": None}
    if hasattr(prog, "tdm_params"):
        out["tdm"] = {"N": [int(x) for x in np.ravel(prog.N)], "arrays": [_norm(a) for a in prog.tdm_params],
                      "timebins": prog.timebins, "concurr": prog.concurr_modes, "spatial": prog.spatial_modes,
                      "shift": getattr(prog, "shift", "default")}
    return out


def canon(rec):
    """fold .H into the first parameter for gates that obey the Gate first-parameter convention"""
    if rec["dagger"] and rec["cls"] not in NONCONV_GATES and rec["p"] and rec["p"][0]["kind"] in ("num", "sym"):
        p0 = dict(rec["p"][0])
        p0["vals"] = [(-v if isinstance(v, np.ndarray) else v) for v in p0["vals"]]
        r = dict(rec)
        r["p"] = [p0] + rec["p"][1:]
        r["dagger"] = False
        return r
    return rec


def _vals_equal(pa, pb):
    va, vb = pa["vals"], pb["vals"]
    n = max(len(va), len(vb))
    va = va * n if len(va) == 1 else va
    vb = vb * n if len(vb) == 1 else vb
    return len(va) == len(vb) and all(same_val(x, y) for x, y in zip(va, vb))


def pi_classify(x, y):
    """generate_code prints values close to k*pi/12 as that multiple: is y what truncation / snapping predicts for x?"""
    if not (isinstance(x, np.ndarray) and isinstance(y, np.ndarray) and x.shape == y.shape):
        return None
    kinds = set()
    for xv, yv in zip(x.ravel(), y.ravel()):
        if same_val(np.asarray(xv), np.asarray(yv)):
            continue
        if xv.imag != 0 or yv.imag != 0:
            return None
        xr, yr = float(xv.real), float(yv.real)
        k = round(xr / F12)
        if abs(xr - k * F12) > 1e-5 * F12 + 1e-8 + 1e-12:
            return None
        t = int(xr / F12)
        if abs(yr - k * F12) <= 1e-12 * max(1.0, abs(yr)):
            kinds.add("snap")
        elif t != k and abs(yr - t * F12) <= 1e-12 * max(1.0, abs(yr)):
            kinds.add("trunc")
        else:
            return None
    if not kinds:
        return None
    return "trunc" if "trunc" in kinds else "snap"


def compare_cmd(w, k, a, b, info):
    """differences between source record a and loaded record b -> list of (signature, detail)"""
    out = []
    cls = a["cls"]
    head = "command #%d %s|%s" % (k, cls, a["modes"])
    if cls != b["cls"]:
        return [("io.op_changed.%s" % w, "%s was loaded as %s|%s" % (head, b["cls"], b["modes"]))]
    if a["modes"] != b["modes"]:
        out.append(("io.modes_changed.%s.%s" % (w, cls), "%s was loaded on modes %s" % (head, b["modes"])))
    ca, cb = canon(a), canon(b)
    if a["dagger"] == b["dagger"] and ca["dagger"] != cb["dagger"]:
        ca, cb = a, b  # same flag, but one first parameter cannot be folded (it was loaded as a str): compare as written
    dag_reported = False
    if ca["dagger"] != cb["dagger"]:
        out.append(("io.dagger_dropped.%s" % w if a["dagger"] and not b["dagger"] else "io.dagger_changed.%s" % w,
                    "%s: dagger %s -> %s" % (head, a["dagger"], b["dagger"])))
        dag_reported = True
    elif a["dagger"] and not b["dagger"] and a["p"] and b["p"] and not _vals_equal(ca["p"][0], cb["p"][0]):
        # loaded gate has no dagger and the un-negated first parameter of the source (for generate_code: what its
        # pi-factoring makes of the un-negated parameter): the flag was dropped
        pa0, pb0 = a["p"][0], b["p"][0]
        pic = pi_classify(pa0["vals"][0], pb0["vals"][0]) if w == "code" and pa0["kind"] == "num" == pb0["kind"] else None
        evald = bool(info.get("prebound")) and pa0["kind"] == "sym" and pb0["kind"] == "num" and same_val(pa0["vals"][0], pb0["vals"][0])
        if _vals_equal(pa0, pb0) or pic or evald:
            out.append(("io.dagger_dropped.%s" % w, "%s.H was loaded as the non-inverted gate with the same first parameter" % head))
            if pic:
                out.append(({"trunc": "io.pi_factor_truncated.code", "snap": "io.pi_snapped.code"}[pic],
                            "%s: parameter 0 %s -> %s" % (head, _fmt(pa0["vals"][0]), _fmt(pb0["vals"][0]))))
            if evald:
                out.append(("io.bound_param_evaluated.%s" % w, "%s: parameter 0 %s -> %s" % (head, pa0["text"], _fmt(pb0["vals"][0]))))
            dag_reported = True
    if len(a["p"]) != len(b["p"]):
        out.append(("io.param_count.%s.%s" % (w, cls), "%s: %d parameters -> %d" % (head, len(a["p"]), len(b["p"]))))
    else:
        for j, (pa, pb) in enumerate(zip(ca["p"], cb["p"])):
            if dag_reported and j == 0:
                continue
            if _vals_equal(pa, pb):
                continue
            det = "%s: parameter %d %s -> %s" % (head, j, pa["text"] or _fmt(pa["vals"][0]),
                                                 pb["text"] or _fmt(pb["vals"][0]))
            if pa["kind"] == "sym" and pb["kind"] == "str":
                if info.get("tdm"):
                    sig = "io.tdm_expression_becomes_string.%s" % w
                else:
                    sig = "io.symbolic_param_becomes_string.%s" % w
            elif w == "blackbird" and pa["kind"] == "sym" == pb["kind"] and pa["text"].startswith("-") and "**" in pa["text"] \
                    and all(isinstance(x, np.ndarray) and isinstance(y, np.ndarray) and same_val(x, -y) for x, y in zip(pa["vals"], pb["vals"])):
                sig = "io.sign_flipped.blackbird.negated_power"  # blackbird parses -x**2 as (-x)**2
            elif cls == "Gaussian" and j == 0 and info.get("hbar", 2.0) != 2.0 and pa["kind"] == "num" == pb["kind"] \
                    and isinstance(pa["vals"][0], np.ndarray) and same_val(pa["vals"][0] * (2.0 / info["hbar"]), pb["vals"][0]):
                sig = "io.gaussian_cov_rescaled_by_hbar.%s" % w  # p[0] is V / (hbar/2); the reader divides once more
            elif pa["kind"] == "sym" and pb["kind"] == "num" and info.get("prebound") and same_val(pa["vals"][0], pb["vals"][0]):
                sig = "io.bound_param_evaluated.%s" % w
            elif w == "code" and pa["kind"] == "str":
                sig = "io.str_param_unquoted.code"
            elif w == "code" and isinstance(pa["vals"][0], np.ndarray) and pa["vals"][0].ndim >= 1:
                sig = "io.array_param_mangled.code"  # str(array) happened to be a valid python expression
            elif w == "code" and pa["kind"] == "num" and pb["kind"] == "num" and pi_classify(pa["vals"][0], pb["vals"][0]):
                sig = {"trunc": "io.pi_factor_truncated.code", "snap": "io.pi_snapped.code"}[pi_classify(pa["vals"][0], pb["vals"][0])]
            else:
                sig = "io.param_changed.%s.%s.p%d" % (w, cls, j)
            out.append((sig, det))
    if not same_val(a["select"], b["select"]) or a["has_select"] != b["has_select"]:
        out.append(("io.select_lost.%s" % w if b["select"] is None else "io.select_changed.%s" % w,
                    "%s: select %s -> %s" % (head, _fmt(a["select"]), _fmt(b["select"]))))
    if not same_val(a["dark"], b["dark"]):
        out.append(("io.dark_counts_lost.%s" % w if b["dark"] is None else "io.dark_counts_changed.%s" % w,
                    "%s: dark_counts %s -> %s" % (head, _fmt(a["dark"]), _fmt(b["dark"]))))
    kws = info.get("kw", {}).get(k)
    for attr in sorted(set(a["opts"]) | set(b["opts"])):
        x, y = a["opts"].get(attr), b["opts"].get(attr)
        if not same_val(x, y, 1e-9):
            if attr in OPT_DEFAULTS and same_val(y, _norm(OPT_DEFAULTS[attr])):
                sig = "io.option_dropped.%s.%s.%s" % (w, cls, attr)  # the loaded operation has the constructor default
            elif cls == "GraphEmbed" and kws:
                sig = "io.option_dropped.%s.%s.%s" % (w, cls, "+".join(sorted(kws)))  # sq, U derive from the options
            else:
                sig = "io.attr_changed.%s.%s.%s" % (w, cls, attr)
            out.append((sig, "%s: attribute %s %s -> %s" % (head, attr, _fmt(x), _fmt(y))))
            break
    return out


def wire_projections(cmds):
    """per wire: indices of the commands that touch it (through their modes or a measured parameter)"""
    proj = {}
    for i, c in enumerate(cmds):
        for m in sorted(set(c["modes"]) | set(c["deps"])):
            proj.setdefault(m, []).append(i)
    return proj


def compare_programs(w, A, B, info):
    """all differences between source snapshot A and loaded snapshot B -> list of (signature, detail)"""
    out = []
    if A["type"] != B["type"]:
        out.append(("io.program_type_changed.%s" % w, "%s was loaded as %s" % (A["type"], B["type"])))
    if (A["top"] + 1 == A["n"] or w == "code") and B["n"] != A["n"] and not info.get("tdm"):
        out.append(("io.num_modes_changed.%s" % w, "register size %d -> %d" % (A["n"], B["n"])))
    if A["target"] != B["target"]:
        out.append(("io.target_lost.%s" % w if B["target"] is None else "io.target_changed.%s" % w,
                    "target %r -> %r" % (A["target"], B["target"])))
    for nm, key in (("run_option", "run"), ("backend_option", "backend")):
        for k in sorted(set(A[key]) | set(B[key])):
            if k not in B[key]:
                out.append(("io.%s_lost.%s.%s" % (nm, w, k), "%s %s=%r is missing after loading" % (nm, k, A[key][k])))
            elif k not in A[key] or not same_val(_norm(A[key][k]), _norm(B[key][k])):
                out.append(("io.%s_changed.%s.%s" % (nm, w, k), "%s %s: %r -> %r" % (nm, k, A[key].get(k), B[key][k])))
    if A["tdm"] and B["tdm"]:
        ta, tb = A["tdm"], B["tdm"]
        if ta["N"] != tb["N"]:
            out.append(("io.tdm_N_changed.%s" % w, "N %s -> %s" % (ta["N"], tb["N"])))
        if ta["shift"] != tb["shift"]:
            out.append(("io.tdm_shift_lost.%s" % w, "shift %r -> %r" % (ta["shift"], tb["shift"])))
        if len(ta["arrays"]) != len(tb["arrays"]) or ta["timebins"] != tb["timebins"]:
            out.append(("io.tdm_arrays_changed.%s" % w, "%d arrays x %d bins -> %d x %d" % (len(ta["arrays"]), ta["timebins"], len(tb["arrays"]), tb["timebins"])))
        else:
            for i, (x, y) in enumerate(zip(ta["arrays"], tb["arrays"])):
                if not same_val(x, y):
                    c = pi_classify(x, y) if w == "code" else None
                    sig = {"trunc": "io.pi_factor_truncated.code", "snap": "io.pi_snapped.code", None: "io.tdm_arrays_changed.%s" % w}[c]
                    out.append((sig, "per-bin array p%d %s -> %s" % (i, _fmt(x), _fmt(y))))
    ca, cb = A["cmds"], B["cmds"]
    if len(ca) != len(cb):
        out.append(("io.command_count.%s" % w, "%d commands -> %d (%s -> %s)" % (len(ca), len(cb), [c["cls"] for c in ca], [c["cls"] for c in cb])))
        return out
    diffs = []
    for k, (a, b) in enumerate(zip(ca, cb)):
        diffs += compare_cmd(w, k, a, b, info)
    if diffs:
        # a different but compatible order?  per-wire subsequences must agree command by command
        pa, pb = wire_projections(ca), wire_projections(cb)
        if sorted(pa) == sorted(pb) and all(len(pa[m]) == len(pb[m]) for m in pa):
            pairs = {(i, j) for m in pa for i, j in zip(pa[m], pb[m])}
            fwd = {}
            ok = True
            for i, j in sorted(pairs):
                if fwd.setdefault(i, j) != j:
                    ok = False
            if ok and len(set(fwd.values())) == len(fwd) == len(ca) and any(i != j for i, j in fwd.items()):
                if not any(compare_cmd(w, i, ca[i], cb[j], info) for i, j in fwd.items()):
                    diffs = []
    return out + diffs


# ---------------------------------------------------------------------------------------------
# writers / readers
# ---------------------------------------------------------------------------------------------
def _deliberate():
    from strawberryfields.program_utils import CircuitError

    return (ValueError, NotImplementedError, CircuitError)


PATHS_FILE = ("file", "file_decl", "file_ext", "pathlib", "fileobj")


def make_engine(e):
    """the local engine described by case["eng"] = {"backend": name, "cutoff_dim": int | None}"""
    import strawberryfields as sf

    if e.get("cutoff_dim") is not None:
        return sf.Engine(e["backend"], backend_options={"cutoff_dim": int(e["cutoff_dim"])})
    return sf.Engine(e["backend"])


def write_text(prog, w, path, tmpdir, eng=None):
    """returns (text, handle for the reader or None).  ``path``: string | string_decl (to_xir(add_decl=True)) | file (name
    without extension) | file_decl | file_ext (name that already has the extension) | pathlib (pathlib.Path without
    extension) | fileobj (an open text file object / io.StringIO is handed to sf.save and to sf.load)"""
    import pathlib

    import strawberryfields as sf

    if w == "code":
        return (sf.io.generate_code(prog) if eng is None else sf.io.generate_code(prog, eng=make_engine(eng))), None
    if path in ("string", "string_decl"):
        if w == "blackbird":
            return sf.io.to_blackbird(prog).serialize(), None
        return (sf.io.to_xir(prog, add_decl=True) if path == "string_decl" else sf.io.to_xir(prog)).serialize(), None
    ext = ".xbb" if w == "blackbird" else ".xir"
    fn = os.path.join(tmpdir, "prog")  # extension is appended by sf.save
    if path == "fileobj":
        fn += ".txt"
        with open(fn, "w") as f:
            sf.save(f, prog, ir=w)
        with open(fn) as f:
            return f.read(), ("fileobj", fn)
    if path == "file_decl" and w == "xir":
        sf.save(fn, prog, ir="xir", add_decl=True)
    elif path == "file_ext":
        sf.save(fn + ext, prog, ir=w)  # documented: the extension is appended "if it does not already have one"
    elif path == "pathlib":
        sf.save(pathlib.Path(fn), prog, ir=w)
    else:
        sf.save(fn, prog, ir=w)
    fn += ext
    with open(fn) as f:
        return f.read(), (("pathlib", fn) if path == "pathlib" else fn)


def read_back(text, fn, w, with_np=False):
    import pathlib

    import strawberryfields as sf

    if w == "code":
        ns = {"np": np} if with_np else {}
        lines = text.rstrip().splitlines()
        ran = bool(lines) and lines[-1].startswith("results = eng.run(")
        if ran:
            lines = lines[:-1]  # with eng=...: the program and the engine are constructed, the simulation is not run
        exec(compile("\n".join(lines), "<generate_code>", "exec"), ns)  # pylint: disable=exec-used
        loaded = ns["prog"]
        loaded._vf_engine = (ns.get("eng"), ran)  # pylint: disable=protected-access
        return loaded
    if isinstance(fn, tuple) and fn[0] == "fileobj":
        with open(fn[1]) as f:
            return sf.load(f, ir=w)
    if isinstance(fn, tuple):
        return sf.load(pathlib.Path(fn[1]), ir=w)
    if fn is not None:
        return sf.load(fn, ir=w)
    return sf.io.loads(text, ir=w)


def writer_crash_cause(w, exc, tags, is_tdm):
    msg = str(exc)
    if w == "blackbird" and is_tdm and isinstance(exc, KeyError) and "'O'" in msg:
        return "tdm_object_array"
    if w == "blackbird" and isinstance(exc, IndexError) and "Replacement index" in msg and "array_not_2d" in tags:
        return "array_not_2d"
    return type(exc).__name__


def unloadable_cause(w, exc, tags):
    """root-cause label of a reader failure, from the exception and what the written program contained"""
    msg = str(exc)
    tn = type(exc).__name__
    if isinstance(exc, TypeError) and "Fouriergate.__init__()" in msg and "cls:Fouriergate" in tags:
        return "Fouriergate_args"
    for cls, lab in (("sMZgate", "sMZgate_not_exported"), ("Ggate", "Ggate_not_exported"), ("_New_modes", "New_modes"), ("_Delete", "Delete")):
        if "cls:" + cls in tags:
            if isinstance(exc, NameError) and cls in msg:
                return lab
            if w == "blackbird" and cls.startswith("_") and isinstance(exc, KeyError) and "parentCtx" in msg:
                return lab
            if w == "code" and cls.startswith("_"):
                return lab
    if "cls:BipartiteGraphEmbed" in tags and isinstance(exc, ValueError) and ("bipartite graph" in msg or "Wrong number of subsystems" in msg):
        return "BipartiteGraphEmbed_edges"
    sym = "sym:free" in tags or "sym:meas" in tags
    if w == "xir":
        if isinstance(exc, TypeError) and "has no len()" in msg and "tdm_numeric_measurement_angle" in tags:
            return "tdm_numeric_measurement_angle"
        if isinstance(exc, TypeError) and "_listr" in msg:
            if sym:
                return "symbolic_param"
            if "bool_param" in tags:
                return "bool_param"
            if "str_param" in tags:
                return "str_param"
        if tn in ("UnexpectedToken", "UnexpectedCharacters", "UnexpectedInput") and "sym:pow" in tags:
            return "symbolic_power"
    if w == "blackbird":
        if "sym:meas" in tags and ("sym:fn" in tags or "sym:pow" in tags) and ((isinstance(exc, TypeError) and "ufunc" in msg) or
                                                         (isinstance(exc, KeyError) and "parentCtx" in msg) or tn == "BlackbirdSyntaxError"):
            return "measured_function"  # numpy ufunc applied to a symbol / function name unknown to the parser
        if tn == "BlackbirdSyntaxError" and "list_param" in tags:
            return "list_param"
    if w == "code":
        if isinstance(exc, NameError) and "'np'" in msg:
            return "numpy_not_imported"
        if isinstance(exc, SyntaxError) and "array_param" in tags:
            return "array_param"
        if isinstance(exc, NameError) and "str_param" in tags and any("'%s'" % s in msg for s in ("complex", "real", "square", "rectangular")):
            return "str_param_unquoted"
        if isinstance(exc, (NameError, TypeError, SyntaxError)) and sym:
            return "symbolic_param"
        if "array_param" in tags and isinstance(exc, (AttributeError, TypeError, ValueError, IndexError)):
            return "array_param"  # a one-row array prints as a valid nested list, which the constructors do not accept
    return "%s" % tn


def _first_diff(a, b):
    la, lb = a.splitlines(), b.splitlines()
    for x, y in zip(la, lb):
        if x != y:
            return x[:150], y[:150]
    return "%d lines" % len(la), "%d lines" % len(lb)


def compare_engine(want, got):
    """generate_code(prog, eng): the code constructs the same local engine (backend name, cutoff_dim) and runs the program"""
    eng, ran = got
    if want is None:
        return [("io.engine_invented.code", "generate_code(prog) without an engine wrote an engine / a run line")] if eng is not None or ran else []
    if eng is None:
        return [("io.engine_lost.code", "generate_code(prog, eng=Engine(%r)) does not construct an engine" % want["backend"])]
    out = []
    if getattr(eng, "backend_name", None) != want["backend"]:
        out.append(("io.engine_backend_changed.code", "engine backend %r -> %r" % (want["backend"], getattr(eng, "backend_name", None))))
    opts = dict(getattr(eng, "backend_options", {}) or {})
    exp = {} if want.get("cutoff_dim") is None else {"cutoff_dim": int(want["cutoff_dim"])}
    if opts != exp:
        out.append(("io.engine_option_changed.code", "engine backend_options %r -> %r" % (exp, opts)))
    if not ran:
        out.append(("io.engine_run_missing.code", "the code written for an engine does not end with results = eng.run(prog) (documented output)"))
    return out


def _reset_symbols(prog):
    prog.bind_params({k: None for k in prog.free_params})
    for r in prog.reg_refs.values():
        r.val = None


def _map_of(n, specs):
    """refsim affine map of a spec list, or None if refsim does not apply"""
    try:
        with np.errstate(all="ignore"):
            r = spec.ref_run(n, specs, 2.0)
    except (refsim.RefError, ValueError, IndexError, TypeError, KeyError, np.linalg.LinAlgError):
        return None
    if not r.linear:
        X = np.concatenate([r.mu.ravel(), r.V.ravel()])
    else:
        X = np.concatenate([r.X.ravel(), r.Y.ravel(), r.d.ravel()])
    if not np.all(np.isfinite(X)):
        return None
    return X


def _specs(prog, free, meas):
    prog.bind_params({k: v for k, v in free.items() if k in prog.free_params})
    for r in prog.reg_refs.values():
        r.val = meas[r.ind] if r.ind < len(meas) else 0.37
    try:
        return spec.circuit_to_specs(prog.circuit)
    except Exception:  # pylint: disable=broad-except
        return None
    finally:
        _reset_symbols(prog)


def case_labels(case, tags):
    labs = ["w:" + case["ir"], "path:" + case.get("path", "string")]
    for t in sorted(tags):
        if t.startswith("cls:"):
            labs.append("op:" + t[4:])
        elif t in ("dagger", "select", "dark_counts", "array_param", "complex_param", "sym:free", "sym:meas", "sym:bound",
                   "sym:fn", "sym:pow", "str_param", "bool_param", "list_param", "array_not_2d"):
            labs.append(t)
    if any((o[3] if len(o) > 3 else {}).get("kw") for o in case["ops"]):
        labs.append("ctor_option")
    if case.get("compile"):
        labs.append("compiled")
    if case.get("tdm"):
        labs.append("tdm")
        if "dagger" in tags:
            labs.append("tdm_dagger")
        if any(t in tags for t in ("cls:MeasureFock", "cls:MeasureThreshold", "cls:MeasureHeterodyne")) or \
                any((o[3] if len(o) > 3 else {}).get("shorthand") for o in case["ops"]):
            labs.append("tdm_measurement_not_homodyne_phi")
        if any(at[0] == "tdm" and at[1] >= 10 for o in case["ops"] for p_ in o[1] for at in ast_atoms(p_)):
            labs.append("tdm_loop_variable_ge_10")
        if case.get("path") in ("string_decl", "file_decl"):
            labs.append("tdm_add_decl")
    if case.get("name") is not None:
        labs.append("program_name")
    if (case.get("tdm") or {}).get("arrays_as", "list") != "list":
        labs.append("tdm_arrays_as:" + case["tdm"]["arrays_as"])
    if case.get("eng"):
        labs.append("code_with_engine")
        labs.append("code_with_engine:cutoff_dim" if case["eng"].get("cutoff_dim") is not None else "code_with_engine:no_options")
    if case["ir"] == "code" and not case.get("tdm") and case.get("n", 0) > 1 + max([m for o in case["ops"] for m in o[2]] + [0]):
        labs.append("code_unused_top_modes")
    if any(isinstance(p_, dict) and "imat" in p_ for o in case["ops"] for p_ in o[1]):
        labs.append("int_array_param")
    if any(isinstance(p_, dict) and "npf" in p_ for o in case["ops"] for p_ in o[1]):
        labs.append("numpy_scalar_param")
    if case.get("near_pi12"):
        labs.append("near_pi12")
    if case.get("hbar", 2.0) != 2.0:
        labs.append("hbar_not_2")
    if any(m >= 10 for o in case["ops"] for m in o[2]):
        labs.append("mode_index_ge_10")
    if any(at[0] == "meas" and at[1] >= 10 for o in case["ops"] for p_ in o[1] for at in ast_atoms(p_)):
        labs.append("measured_parameter_of_mode_ge_10")
    return labs


def check_rt(ctx, case):
    """the round-trip oracle for all three writers (under the hbar of the case, default 2)"""
    from vf import sfrun

    with sfrun.HbarCtx(float(case.get("hbar", 2.0))):
        return _check_rt(ctx, case)


def _fresh_sympy():
    """sympy caches symbols and expressions by value in independent LRU caches; strawberryfields' MeasuredParameter carries
    its RegRef as hidden state (F7), so an expression cached by an earlier case can bring a stale RegRef into a new program
    ('RegRef state has become inconsistent').  Every case starts from empty caches: cases are independent of each other."""
    from sympy.core.cache import clear_cache

    clear_cache()


def _check_rt(ctx, case):
    from strawberryfields.program_utils import CircuitError

    _fresh_sympy()

    w = case["ir"]
    is_tdm = bool(case.get("tdm"))
    try:
        prog = build_program(case)
    except SourceRejected as exc:
        ctx.note(case, False, ["source_rejected"])
        ctx.info["last_source_rejection"] = str(exc)[:200]
        return None
    comp = case.get("compile")
    if comp:
        kw = {k: comp[k] for k in ("shots", "crop", "cutoff_dim") if comp.get(k) is not None}
        try:
            prog = prog.compile(compiler=comp["compiler"], **kw)
        except (CircuitError, ValueError, NotImplementedError, TypeError) as exc:
            ctx.note(case, False, ["compile_rejected"])
            return None
        except Exception as exc:  # pylint: disable=broad-except
            ctx.note(case, False, ["compile_crashed"])  # decompositions are C02/C17's subject
            return None
    tags = program_tags(prog)
    binds, meas = case["bind"], case["meas"]
    n_cmd = len(prog.circuit)
    if n_cmd == 0:
        ctx.note(case, False, ["empty_program"])  # both readers document ValueError for a program without operations
        return None
    rich = tags & {"dagger", "select", "dark_counts", "array_param", "sym:free", "sym:meas"} or comp or is_tdm \
        or any((o[3] if len(o) > 3 else {}).get("kw") for o in case["ops"])
    ctx.note(case, nontrivial=bool(n_cmd >= 2 and rich), labels=case_labels(case, tags))

    # ---- everything about the source is read BEFORE anything is loaded (symbols are shared by name, F7)
    src = snapshot(prog, binds, meas)
    src_specs = None if is_tdm else _specs(prog, binds[0], meas[0])
    info = {"tdm": is_tdm, "prebound": bool(case.get("prebind")), "hbar": float(case.get("hbar", 2.0)),
            "kw": {} if comp else {k: sorted((o[3] if len(o) > 3 else {}).get("kw", {})) for k, o in enumerate(case["ops"])}}
    if case.get("prebind"):
        prog.bind_params({k: v for k, v in binds[0].items() if k in prog.free_params})
        tags = program_tags(prog)

    with tempfile.TemporaryDirectory(prefix="vfc14-") as tmp:
        # ---- (1) write
        try:
            text, fn = write_text(prog, w, case.get("path", "string"), tmp, case.get("eng"))
        except _deliberate() as exc:
            ctx.label("outcome:writer_rejected_or_crashed", "writer_rejected:%s:%s" % (w, type(exc).__name__))
            return None
        except Exception as exc:  # pylint: disable=broad-except
            ctx.label("outcome:writer_rejected_or_crashed")
            return ctx.fail("io.writer_crash.%s.%s" % (w, writer_crash_cause(w, exc, tags, is_tdm)),
                            "writer died with %s: %s" % (type(exc).__name__, str(exc)[:200]))
        finally:
            _reset_symbols(prog)
        # ---- (1b) writing is a read-only operation: the source program is what it was, a second write gives the same text
        # finding F69 (fixed; the exclusion below is switched off): to_blackbird aliased op["args"] = cmd.op.p for measurements and then
        # replaces the loop variable by its name IN that list: the source MeasureHomodyne({p0}) becomes MeasureHomodyne('p0')
        aliasing = False and not case.get("audit_include_excluded") and w == "blackbird" and is_tdm and any(o[0].startswith("Measure") and any(is_ast(p_) and p_[0] == "tdm" for p_ in o[1])
                                                       for o in case["ops"])
        if not aliasing:
            after = snapshot(prog, binds, meas)
            moved = compare_programs(w, src, after, dict(info, prebound=False))
            if moved or after["n"] != src["n"] or after["type"] != src["type"]:
                ctx.fail("io.source_modified_by_writer.%s" % w, "the source program is different after it was written: %s" % (
                    "; ".join(d for _, d in moved[:3]) or "register %d -> %d" % (src["n"], after["n"])))
            if case.get("prebind"):
                prog.bind_params({k: v for k, v in binds[0].items() if k in prog.free_params})
            try:
                text2 = write_text(prog, w, case.get("path", "string"), tmp, case.get("eng"))[0]
            except Exception as exc:  # pylint: disable=broad-except
                text2 = "<%s: %s>" % (type(exc).__name__, str(exc)[:120])
            finally:
                _reset_symbols(prog)
            if text2 != text:
                ctx.fail("io.second_write_differs.%s" % w, "writing the same program twice gave different texts: %r  /  %r" % (
                    _first_diff(text, text2)))
        # ---- (2) read
        loaded = None
        with_np = False
        pending = None
        for _ in range(2):
            try:
                loaded = read_back(text, fn, w, with_np)
                break
            except Exception as exc:  # pylint: disable=broad-except
                cause = unloadable_cause(w, exc, tags)
                ctx.label("outcome:unloadable")
                excerpt = " ; ".join(l.strip() for l in text.splitlines() if l.strip())[-300:]
                failure = ("io.unloadable.%s.%s" % (w, cause), "the written %s text cannot be loaded: %s: %s   <<< %s" % (
                    w, type(exc).__name__, str(exc)[:200].replace("\n", " "), excerpt))
                if cause == "numpy_not_imported" and not with_np:
                    # retry with numpy in the namespace so that the rest is still compared; reported at the end
                    with_np, pending = True, failure
                    continue
                ctx.fail(*failure)
                if pending:
                    ctx.fail(*pending)
                return None
    if loaded is None:
        return None
    # ---- (3) compare
    ctx.label("outcome:compared")
    got = snapshot(loaded, binds, meas)
    diffs = compare_programs(w, src, got, info)
    if w == "code":
        diffs += compare_engine(case.get("eng"), getattr(loaded, "_vf_engine", (None, False)))
    seen = set()
    for sig, detail in diffs:
        if sig not in seen:
            seen.add(sig)
            ctx.fail(sig, detail)
    # ---- semantic back-stop
    if src_specs is not None and not is_tdm:
        got_specs = _specs(loaded, binds[0], meas[0])
        if got_specs is not None:
            a = _map_of(src["n"], src_specs)
            b = _map_of(src["n"], got_specs) if got["n"] == src["n"] else None
            if a is not None and b is not None:
                ctx.label("backstop_refsim")
                d = float(np.max(np.abs(a - b)))
                if d > 1e-9 * (1 + float(np.max(np.abs(a))) ** 2) and not diffs:
                    ctx.fail("io.semantics_changed.%s" % w, "structurally equal programs are different phase-space maps (diff %.3g)" % d)
                if d > 1e-9 * (1 + float(np.max(np.abs(a))) ** 2):
                    ctx.label("backstop_confirms_difference")
    if pending:
        return ctx.fail(*pending)
    return None


# ---------------------------------------------------------------------------------------------
# enumeration: one small program per operation class variant x writer (the per-writer rejection table)
# ---------------------------------------------------------------------------------------------
_U2 = (np.array([[1, 1j], [1j, 1]]) / np.sqrt(2))
_S2 = np.diag([np.exp(-0.3), 1.0, np.exp(0.3), 1.0])
_A2 = np.array([[0.0, 0.7], [0.7, 0.3]])
_V2 = np.diag([0.5, 1.0, 2.0, 1.0])
M = spec.enc_matrix
BIND0 = [{"a": 0.7, "b": 1.3}, {"a": 0.31, "b": 0.9}, {"a": 1.9, "b": 0.45}]
MEAS0 = [[0.4, 1.1, 0.8, 0.25, 0.6], [1.7, 0.3, 0.55, 1.2, 0.9], [0.2, 0.95, 1.6, 0.7, 1.4]]

CLASS_TABLE = [
    # tag, ops (the first command keeps the top mode in use)
    ("Dgate", [["Dgate", [0.3, 0.2], [0]]]), ("Xgate", [["Xgate", [0.3], [0]]]), ("Zgate", [["Zgate", [-0.3], [0]]]),
    ("Sgate", [["Sgate", [0.3, 0.2], [0]]]), ("Sgate_default_phi", [["Sgate", [0.3], [0]]]), ("Pgate", [["Pgate", [0.3], [0]]]),
    ("Vgate", [["Vgate", [0.03], [0]]]), ("Kgate", [["Kgate", [0.3], [0]]]), ("Rgate", [["Rgate", [0.3], [0]]]),
    ("Fouriergate", [["Fouriergate", [], [0]]]), ("Fourier_shorthand", [["Fouriergate", [], [0], {"shorthand": "Fourier"}]]),
    ("BSgate", [["BSgate", [0.3, 0.2], [1, 0]]]), ("BSgate_defaults", [["BSgate", [], [0, 1]]]), ("MZgate", [["MZgate", [0.3, 0.2], [1, 0]]]),
    ("sMZgate", [["sMZgate", [0.3, 0.2], [1, 0]]]), ("S2gate", [["S2gate", [0.3, 0.2], [1, 0]]]), ("CXgate", [["CXgate", [0.3], [1, 0]]]),
    ("CZgate", [["CZgate", [0.3], [0, 1]]]), ("CKgate", [["CKgate", [0.3], [1, 0]]]),
    ("Sgate.H", [["Sgate", [0.3, 0.2], [0], {"H": True}]]), ("BSgate.H", [["BSgate", [0.3, 0.2], [1, 0], {"H": True}]]),
    ("Kgate.H", [["Kgate", [0.3], [0], {"H": True}]]), ("MZgate.H", [["MZgate", [0.3, 0.2], [1, 0], {"H": True}]]),
    ("Fouriergate.H", [["Fouriergate", [], [0], {"H": True}]]),
    ("LossChannel", [["LossChannel", [0.3], [0]]]), ("ThermalLossChannel", [["ThermalLossChannel", [0.3, 0.2], [0]]]),
    ("MSgate", [["MSgate", [0.3, 0.2, 1.5, 0.9, {"bool": False}], [0]]]), ("PassiveChannel", [["PassiveChannel", [M(0.5 * _U2)], [0, 1]]]),
    ("Vacuum", [["Vacuum", [], [0]]]), ("Vac_shorthand", [["Vacuum", [], [0], {"shorthand": "Vac"}]]), ("Coherent", [["Coherent", [0.3, 0.2], [0]]]),
    ("Squeezed", [["Squeezed", [0.3, 0.2], [0]]]), ("DisplacedSqueezed", [["DisplacedSqueezed", [0.3, 0.2, 0.1, 0.4], [0]]]),
    ("Fock", [["Fock", [2], [0]]]), ("Catstate", [["Catstate", [0.3, 0.2, 1], [0]]]), ("Thermal", [["Thermal", [0.3], [0]]]),
    ("Ket_1mode_vector", [["Ket1", [{"vec": [0.0, 1.0, 0.0]}], [0]]]), ("Ket_1mode_complex_vector", [["Ket1", [{"cvec": [[0, 0], [0, 1], [0, 0]]}], [0]]]),
    ("Ket_2mode", [["Ket2", [M(np.eye(3) / np.sqrt(3))], [0, 1]]]), ("DensityMatrix", [["DensityMatrix", [M(np.diag([0.5, 0.5, 0]))], [0]]]),
    ("Bosonic", [["Bosonic", [{"vec": [1.0]}, M(np.zeros((1, 2))), {"arr3": [[[1.0, 0.0], [0.0, 1.0]]]}], [0]]]),
    ("GKP", [["GKP", [{"list": [0.1, 0.2]}, 0.3], [0]]]),
    ("MeasureFock", [["MeasureFock", [], [0]]]), ("MeasureFock_2modes", [["MeasureFock", [], [1, 0]]]),
    ("MeasureFock_select", [["MeasureFock", [], [1, 0], {"select": {"list": [1, 2]}}]]),
    ("MeasureFock_dark_counts", [["MeasureFock", [], [1, 0], {"dark_counts": {"list": [0.1, 0.2]}}]]),
    ("MeasureThreshold", [["MeasureThreshold", [], [0]]]), ("MeasureThreshold_select", [["MeasureThreshold", [], [0], {"select": {"list": [1]}}]]),
    ("MeasureHomodyne", [["MeasureHomodyne", [0.3], [0]]]), ("MeasureHomodyne_select", [["MeasureHomodyne", [0.3], [0], {"select": 0.5}]]),
    ("MeasureX_shorthand", [["MeasureHomodyne", [0], [0], {"shorthand": "MeasureX"}]]), ("MeasureP_shorthand", [["MeasureHomodyne", [PI / 2], [0], {"shorthand": "MeasureP"}]]),
    ("MeasureHeterodyne", [["MeasureHeterodyne", [], [0]]]), ("MeasureHD_shorthand", [["MeasureHeterodyne", [], [0], {"shorthand": "MeasureHD"}]]),
    ("MeasureHeterodyne_select_complex", [["MeasureHeterodyne", [], [0], {"select": {"re": 0.5, "im": -0.1}}]]),
    ("Interferometer", [["Interferometer", [M(_U2)], [1, 0]]]), ("Interferometer_real", [["Interferometer", [M(np.eye(2)[::-1])], [1, 0]]]),
    ("Interferometer_mesh", [["Interferometer", [M(_U2)], [1, 0], {"kw": {"mesh": {"str": "triangular"}}}]]),
    ("Interferometer_drop_identity", [["Interferometer", [M(_U2)], [1, 0], {"kw": {"drop_identity": {"bool": False}}}]]),
    ("GraphEmbed", [["GraphEmbed", [M(_A2)], [1, 0]]]), ("GraphEmbed_mean_photon", [["GraphEmbed", [M(_A2)], [1, 0], {"kw": {"mean_photon_per_mode": 0.5}}]]),
    ("GraphEmbed_make_traceless", [["GraphEmbed", [M(_A2)], [1, 0], {"kw": {"make_traceless": {"bool": True}}}]]),
    ("BipartiteGraphEmbed", [["BipartiteGraphEmbed", [M(np.array([[0, 0.7], [0.7, 0]]))], [1, 0]]]),
    ("BipartiteGraphEmbed_edges", [["BipartiteGraphEmbed", [M(np.array([[0.7]]))], [1, 0], {"kw": {"edges": {"bool": True}}}]]),
    ("GaussianTransform", [["GaussianTransform", [M(_S2)], [1, 0]]]), ("GaussianTransform_vacuum", [["GaussianTransform", [M(_S2)], [1, 0], {"kw": {"vacuum": {"bool": True}}}]]),
    ("Gaussian", [["Gaussian", [M(_V2)], [1, 0]]]), ("Gaussian_r", [["Gaussian", [M(_V2), {"vec": [0.1, 0.2, 0.3, 0.4]}], [1, 0]]]),
    ("Gaussian_decomp_false", [["Gaussian", [M(_V2)], [1, 0], {"kw": {"decomp": {"bool": False}}}]]),
    ("New", [["Sgate", [0.1], [0]], ["New", [1], []]]), ("Del", [["Sgate", [0.1], [1]], ["Del", [], [0]]]),
    ("free_symbol", [["Sgate", [["free", "a"], 0.2], [0]]]), ("free_neg", [["Rgate", [["neg", ["free", "a"]]], [0]]]),
    ("free_affine", [["Zgate", [["add", ["mul", 2.5, ["free", "a"]], 1]], [0]]]), ("free_two_symbols", [["Zgate", [["sub", ["free", "a"], ["mul", 0.5, ["free", "b"]]]], [0]]]),
    ("free_pow", [["Dgate", [["pow", ["free", "a"], 2], 0.5], [0]]]), ("free_fn", [["Zgate", [["fn", "sin", ["free", "a"]]], [0]]]),
    ("free_bound", [["Sgate", [["free", "a"], 0.2], [0]], ["Zgate", [["mul", 2, ["free", "a"]]], [0]]]),
    ("meas_symbol", [["MeasureHomodyne", [0], [0]], ["Zgate", [["meas", 0]], [1]]]),
    ("meas_affine", [["MeasureHomodyne", [0], [0]], ["Zgate", [["add", ["mul", 2.5, ["meas", 0]], 1]], [1]]]),
    ("meas_two_symbols", [["MeasureHomodyne", [0], [0]], ["MeasureHomodyne", [PI / 2], [2]], ["Xgate", [["sub", ["meas", 0], ["mul", 0.5, ["meas", 2]]]], [1]]]),
    ("meas_div", [["MeasureHomodyne", [0], [0]], ["Zgate", [["div", ["meas", 0], 3]], [1]]]),
    ("meas_pow", [["MeasureHomodyne", [0], [0]], ["Zgate", [["pow", ["meas", 0], 2]], [1]]]),
    ("meas_fn", [["MeasureHomodyne", [0], [0]], ["Zgate", [["mul", 2, ["fn", "sin", ["meas", 0]]]], [1]]]),
    ("meas_sqrt", [["MeasureHomodyne", [0], [0]], ["Thermal", [["fn", "sqrt", ["meas", 0]]], [1]]]),
    ("meas_negated_pow", [["MeasureHomodyne", [0], [0]], ["Zgate", [["neg", ["pow", ["meas", 0], 2]]], [1]]]),
    ("meas_pow.H", [["MeasureHomodyne", [0], [0]], ["Zgate", [["pow", ["meas", 0], 2]], [1], {"H": True}]]),
    ("free.H", [["Sgate", [["free", "a"], 0.2], [0], {"H": True}]]),
    ("complex_array_negative_imag", [["Interferometer", [M(_U2.conj())], [0, 1]]]),
    ("float_formats", [["Xgate", [1e-7], [0]], ["Zgate", [-2.5e-10], [0]], ["Xgate", [1e16], [0]], ["Rgate", [123456789.125], [0]], ["Zgate", [1e22], [0]], ["Xgate", [3], [0]]]),
]


def class_cases(ctx):
    for tag, ops_ in CLASS_TABLE:
        n = 1 + max([m for o in ops_ for m in o[2]] + [0])
        for w in ("blackbird", "xir", "code"):
            case = {"n": n, "ops": ops_, "ir": w, "path": "string", "bind": BIND0, "meas": MEAS0, "tag": tag}
            if tag == "free_bound":
                case["prebind"] = True
            yield case
    for w in ("blackbird", "xir"):
        yield {"n": 2, "ops": [["Gaussian", [M(_V2 / 2), {"vec": [0.1, 0.2, 0.3, 0.4]}], [1, 0]], ["Xgate", [0.3], [0]]], "ir": w, "path": "string",
               "bind": BIND0, "meas": MEAS0, "hbar": 1.0, "tag": "Gaussian_hbar_1"}
        yield {"n": 2, "ops": [["Xgate", [0.3], [0]], ["Zgate", [0.1], [1]], ["Coherent", [0.3, 0.1], [1]], ["MeasureHomodyne", [0.2], [1], {"select": 0.1}]], "ir": w,
               "path": "string", "bind": BIND0, "meas": MEAS0, "hbar": 0.5, "tag": "hbar_sensitive_ops_hbar_0.5"}
    # compiled programs: target, run options, backend options
    for w in ("blackbird", "xir"):
        for comp in ({"compiler": "fock", "shots": 5, "cutoff_dim": 7}, {"compiler": "gaussian", "shots": 3}, {"compiler": "gaussian"},
                     {"compiler": "gaussian", "shots": 2, "crop": True}):
            yield {"n": 2, "ops": [["Sgate", [0.3], [0]], ["BSgate", [], [0, 1]], ["MeasureFock", [], [0, 1]]], "ir": w, "path": "file",
                   "bind": BIND0, "meas": MEAS0, "compile": comp, "tag": "compiled"}


def pi_grid_cases(ctx):
    """generate_code: every multiple k*pi/12, |k| <= 30, with every offset of OFFS, as gate parameter and as per-bin value"""
    for k in range(-30, 31):
        vals = sorted({k * PI / 12 + off for off in OFFS})
        ops_ = [[["Rgate", "Zgate", "Xgate"][i % 3], [v], [0]] for i, v in enumerate(vals)] + [["BSgate", [vals[0], vals[-1]], [1, 0]]]
        yield {"n": 2, "ops": ops_, "ir": "code", "path": "string", "bind": BIND0, "meas": MEAS0, "near_pi12": True, "tag": "pi_grid"}
        yield {"n": 2, "tdm": {"N": [2], "arrays": [vals, vals[::-1]], "shift": "default", "N_as_list": False},
               "ops": [["Sgate", [0.5, ["tdm", 0]], [1]], ["BSgate", [["tdm", 1], vals[len(vals) // 2]], [0, 1]], ["MeasureHomodyne", [["tdm", 0]], [0]]],
               "ir": "code", "path": "string", "bind": [{"p0": 0.5, "p1": 0.7}, {"p0": 1.1, "p1": 0.2}, {"p0": 0.3, "p1": 1.9}], "meas": MEAS0,
               "near_pi12": True, "tag": "pi_grid_tdm"}


# ---------------------------------------------------------------------------------------------
# generators
# ---------------------------------------------------------------------------------------------
STRESS = [1e-7, -2.5e-10, 1e16, 123456789.125, 0.30000000000000004, 1.0 / 3.0, -1e-5, 2.0 ** -40, 1e22, 1e-22, -0.0, 5e-324 * 0 + 2.2250738585072014e-308]
OFFS = [0.0, 0.0, 1e-7, -1e-7, 1e-6, -1e-6, 2.5e-6, -2.5e-6, 9e-6, -9e-6, 1e-9, -1e-9, 1e-12, -1e-12]


def near_pi12():
    return st.tuples(st.integers(-30, 30), st.sampled_from(OFFS)).map(lambda t: t[0] * PI / 12 + t[1])


def v_any():
    return st.one_of(st.sampled_from(STRESS), gen.fl(-10, 10), near_pi12(), st.integers(-5, 5))


def v_ang():
    return st.one_of(gen.angle(), near_pi12(), near_pi12(), st.integers(-3, 3))


KIND = {
    "any": v_any, "ang": v_ang,
    "r": lambda: st.one_of(gen.real(0.0, 1.5), st.sampled_from([0, 1, 1e-7, 0.30000000000000004, PI / 12, PI / 4 - 1e-7])),
    "sq": lambda: st.one_of(gen.real(-1.0, 1.0, (0.0, 1e-9)), st.sampled_from([1, -1, PI / 12 - 1e-7, -PI / 6 + 1e-6])),
    "unit": lambda: st.one_of(st.sampled_from([1.0, 0.5, 1, 1e-4, PI / 12, PI / 6 - 1e-7]), gen.fl(1e-4, 1.0)),
    "nbar": lambda: st.one_of(gen.real(0.0, 2.0), st.sampled_from([0, 2, PI / 12 + 1e-7])),
    "int": lambda: st.integers(0, 3),
}
PARAMS = {"Dgate": ["r", "ang"], "Xgate": ["any"], "Zgate": ["any"], "Sgate": ["sq", "ang"], "Pgate": ["sq"], "Vgate": ["sq"], "Kgate": ["ang"],
          "Rgate": ["any"], "BSgate": ["ang", "ang"], "MZgate": ["ang", "ang"], "sMZgate": ["ang", "ang"], "S2gate": ["sq", "ang"], "CXgate": ["sq"],
          "CZgate": ["sq"], "CKgate": ["ang"], "LossChannel": ["unit"], "ThermalLossChannel": ["unit", "nbar"], "Coherent": ["r", "ang"],
          "Squeezed": ["sq", "ang"], "DisplacedSqueezed": ["r", "ang", "sq", "ang"], "Thermal": ["nbar"], "Fock": ["int"], "Vacuum": [], "Fouriergate": []}
G1 = ["Dgate", "Xgate", "Zgate", "Sgate", "Pgate", "Vgate", "Kgate", "Rgate"]
G2 = ["BSgate", "MZgate", "S2gate", "CXgate", "CZgate", "CKgate"]
CH_PREP = ["LossChannel", "ThermalLossChannel", "Coherent", "Squeezed", "DisplacedSqueezed", "Thermal", "Fock", "Vacuum"]
MESHES = ["rectangular", "rectangular_phase_end", "rectangular_symmetric", "triangular", "rectangular_compact", "triangular_compact", "sun_compact"]
# AUDIT-FINDING ggate-not-exported: "Ggate" (implemented in hazard_ops) is not offered: ops.Ggate is not in ops.__all__, to_xir writes
#   it and from_xir answers NameError (same root as N13 sMZgate); to_blackbird dies on its 1-d parameter (N14)
# AUDIT-FINDING symbolic-measurement-angle: "meas_angle" (implemented in hazard_ops) is not offered: MeasureHomodyne(q[0].par) | q[1] is
#   written by to_blackbird as MeasureHomodyne({q0}) (the measurement branch does not build a RegRefTransform; the text cannot be
#   parsed: KeyError 'parentCtx') and by to_xir as phi: q0, which from_xir loads as the str 'q0'
# AUDIT-FINDING name-with-space: program names are only generated as identifiers: sf.Program(2, name="my prog") is written as
#   'name my prog' / '_name_: my prog;' and neither text can be parsed
# AUDIT-FINDING numpy-int-repr: {"npi": v} (np.int64) is not generated: MeasureFock(select=np.int64(1)) is written as
#   select=[np.int64(1)] by both writers under numpy >= 2 (repr of numpy scalars) and cannot be parsed
HAZARDS = ["Fouriergate", "sMZgate", "MSgate", "Catstate", "Ket1", "Bosonic", "GKP", "BipartiteGraphEmbed", "Gaussian", "New", "Del",
           "free", "free", "free", "meas", "meas", "meas", "meas_fn", "pow", "negpow"]


NAMES = ["prog_1", "GBS", "test", "a1_b2", "x"]


def _is_near(v):
    return isinstance(v, float) and v != 0 and abs(v - round(v / F12) * F12) <= 1e-5 and abs(v) > 1e-300


@st.composite
def scalar_op(draw, n, name, dagger_ok=True, np_ok=False):
    k = 2 if name in G2 or name == "sMZgate" else 1
    modes = list(draw(st.permutations(list(range(n))))[:k])
    params = [draw(KIND[kd]()) for kd in PARAMS[name]]
    if name in ("Sgate", "Dgate", "S2gate", "BSgate", "Coherent", "Squeezed") and draw(st.integers(0, 5)) == 0:
        params = params[:1]  # default second argument
    if np_ok and params and draw(st.integers(0, 7)) == 0:
        j = draw(st.integers(0, len(params) - 1))
        if isinstance(params[j], float):
            params[j] = {"npf": params[j]}  # np.float64 instead of a python float
    flags = {}
    if dagger_ok and (name in G1 or name in G2 or name in ("sMZgate", "Fouriergate")) and draw(st.integers(0, 3)) == 0:
        flags["H"] = True
    if name in ("Vacuum", "Fouriergate") and draw(st.booleans()):
        flags["shorthand"] = {"Vacuum": "Vac", "Fouriergate": "Fourier"}[name]
    return [name, params, modes, flags]


@st.composite
def meas_op(draw, n):
    name = draw(st.sampled_from(["MeasureFock", "MeasureThreshold", "MeasureHomodyne", "MeasureHomodyne", "MeasureHeterodyne"]))
    flags = {}
    if name in ("MeasureFock", "MeasureThreshold"):
        k = draw(st.integers(1, n))
        modes = list(draw(st.permutations(list(range(n))))[:k])
        what = draw(st.sampled_from(["none", "select", "select", "dark"]))
        if what == "select":
            flags["select"] = {"list": draw(st.lists(st.integers(0, 1 if name == "MeasureThreshold" else 3), min_size=k, max_size=k))}
        elif what == "dark" and name == "MeasureFock":
            flags["dark_counts"] = {"list": draw(st.lists(st.one_of(st.sampled_from([0, 0.5, 1e-7]), gen.fl(0.0, 1.0)), min_size=k, max_size=k))}
        return [name, [], modes, flags]
    modes = [draw(st.integers(0, n - 1))]
    if name == "MeasureHomodyne":
        params = [draw(v_ang())]
        if draw(st.integers(0, 3)) == 0:
            flags["shorthand"], params = draw(st.sampled_from([("MeasureX", [0]), ("MeasureP", [PI / 2])]))
        elif draw(st.booleans()):
            flags["select"] = draw(st.one_of(v_any(), st.integers(-2, 2)))
        return [name, params, modes, flags]
    if draw(st.booleans()):
        flags["select"] = draw(st.one_of(v_any(), st.tuples(gen.fl(-2, 2), st.one_of(gen.fl(-2, 2), st.sampled_from([1e-9, -1e-7, -0.5]))).map(lambda t: {"re": t[0], "im": t[1]})))
    elif draw(st.integers(0, 2)) == 0:
        flags["shorthand"] = "MeasureHD"
    return [name, [], modes, flags]


def _herm_state(v):
    v = np.asarray(v, complex)
    v = v / np.linalg.norm(v)
    return np.outer(v, v.conj())


@st.composite
def array_op(draw, n, names=("Interferometer", "Interferometer", "GraphEmbed", "GaussianTransform", "PassiveChannel", "DensityMatrix", "Ket2")):
    name = draw(st.sampled_from([x for x in names if not (x == "Ket2" and n < 2)]))
    kmax = min(n, 3 if name in ("Interferometer", "PassiveChannel") else 2)
    k = 1 if name == "DensityMatrix" else 2 if name == "Ket2" else draw(st.integers(1, kmax))
    modes = list(draw(st.permutations(list(range(n))))[:k])
    flags = {}
    if name in ("Interferometer", "GraphEmbed") and draw(st.integers(0, 3)) == 0:
        # integer dtype: a permutation matrix / the 0-1 adjacency matrix of a graph (np.eye(k, dtype=int)[perm], nx.to_numpy_array(..).astype(int))
        if name == "Interferometer":
            A = np.eye(k, dtype=int)[list(draw(st.permutations(list(range(k)))))]
        else:
            bits = draw(st.lists(st.integers(0, 1), min_size=k * k, max_size=k * k))
            A = np.array(bits, dtype=int).reshape(k, k)
            A = np.triu(A) + np.triu(A, 1).T
            A[0, k - 1] = A[k - 1, 0] = 1  # not the empty graph
        return [name, [{"imat": [[int(x) for x in row] for row in A]}], modes, flags]
    if name in ("Interferometer", "PassiveChannel"):
        kind, U = draw(gen.unitary(k))
        if name == "PassiveChannel":
            U = U * draw(gen.fl(0.2, 1.0))
        elif kind in ("identity", "perm", "orth") and draw(st.booleans()):
            U = U.real.copy()
        p = [M(U)]
        if name == "Interferometer":
            what = draw(st.integers(0, 5))
            if what == 0:
                flags["kw"] = {"mesh": {"str": draw(st.sampled_from(MESHES[1:]))}}
            elif what == 1:
                flags["kw"] = {"drop_identity": {"bool": False}}
    elif name == "GraphEmbed":
        G = draw(gen.ginibre(k, complex_=False))
        A = (G + G.T) / 2
        if float(np.max(np.abs(A))) < 0.1:
            A = A + np.eye(k)
        p = [M(A)]
        what = draw(st.integers(0, 5))
        if what == 0:
            flags["kw"] = {"mean_photon_per_mode": draw(st.sampled_from([0.5, 2, 0.25]))}
        elif what == 1:
            flags["kw"] = {"make_traceless": {"bool": True}}
    elif name == "GaussianTransform":
        _, _, S = draw(gen.symplectic(k, 0.8, ["generic", "passive", "diag"] if k == 1 else ["passive", "diag", "O1Z"]))
        p = [M(S)]
        if draw(st.integers(0, 4)) == 0:
            flags["kw"] = {"vacuum": {"bool": True}}
    elif name == "DensityMatrix":
        v = draw(st.lists(gen.fl(-1, 1), min_size=6, max_size=6))
        v = np.array(v[:3]) + 1j * np.array(v[3:]) + np.array([1.0, 0, 0])
        rho = _herm_state(v)
        p = [M(rho.real if draw(st.booleans()) else rho)]
    else:  # Ket2: a 2-mode ket is a 2-d array
        v = np.array(draw(st.lists(gen.fl(-1, 1), min_size=9, max_size=9))) + np.eye(3).ravel()
        z = np.array(draw(st.lists(gen.fl(-1, 1), min_size=9, max_size=9))) if draw(st.booleans()) else np.zeros(9)
        psi = (v + 1j * z) if np.any(z) else v
        p = [M((psi / np.linalg.norm(psi)).reshape(3, 3))]
    return [name, p, modes, flags]


@st.composite
def sym_ast(draw, atoms, form=None):
    x = draw(st.sampled_from(atoms))
    form = form or draw(st.sampled_from(["plain", "plain", "neg", "scale", "affine", "two", "div"]))
    c = draw(st.one_of(st.sampled_from([2, 0.5, -3, 2.5, 1e-7, PI]), gen.fl(-3, 3).filter(lambda t: abs(t) > 1e-3)))
    d = draw(st.one_of(st.sampled_from([1, -1, 0.25]), gen.fl(-2, 2)))
    if form == "plain":
        return x
    if form == "neg":
        return ["neg", x]
    if form == "scale":
        return ["mul", c, x]
    if form == "affine":
        return ["add", ["mul", c, x], d]
    if form == "two":
        return ["sub", x, ["mul", c, draw(st.sampled_from(atoms))]]
    if form == "div":
        return ["div", x, draw(st.sampled_from([3, 2.5, 7]))]
    if form == "pow":
        return ["pow", x, 2]
    if form == "negpow":
        return draw(st.sampled_from([["neg", ["pow", x, 2]], ["neg", ["pow", ["add", x, d], 2]]]))
    fn = draw(st.sampled_from(["sin", "cos", "exp", "sqrt"]))
    inner = ["fn", fn, x]
    return inner if draw(st.booleans()) else ["add", ["mul", c, inner], d]


@st.composite
def hazard_ops(draw, n, hz):
    """ops carrying one hazard feature; returns (list of ops, position hint: 'any' | 'end')"""
    m = draw(st.integers(0, n - 1))
    if hz in ("Fouriergate", "sMZgate"):
        if hz == "sMZgate" and n < 2:
            hz = "Fouriergate"
        return [draw(scalar_op(n, hz))], "any"
    if hz == "MSgate":
        return [["MSgate", [draw(KIND["sq"]()), draw(v_ang()), draw(gen.fl(0.5, 10.0)), draw(gen.fl(0.5, 1.0)), {"bool": draw(st.booleans())}], [m]]], "any"
    if hz == "Catstate":
        p = [draw(KIND["r"]()), draw(v_ang()), draw(st.sampled_from([0, 1, 0.5]))]
        if draw(st.booleans()):
            return [["Catstate", p, [m], {"kw": {}}]], "any"
        return [["Catstate", p + [{"str": draw(st.sampled_from(["real", "complex"]))}, 1e-12, draw(st.integers(2, 4))], [m]]], "any"
    if hz == "Ket1":
        v = np.array(draw(st.lists(gen.fl(-1, 1), min_size=3, max_size=3))) + np.array([1.0, 0, 0])
        if draw(st.booleans()):
            z = np.array(draw(st.lists(gen.fl(-1, 1), min_size=3, max_size=3)))
            w = (v + 1j * z) / np.linalg.norm(v + 1j * z)
            return [["Ket1", [{"cvec": [[float(t.real), float(t.imag)] for t in w]}], [m]]], "any"
        return [["Ket1", [spec.enc_vec(v / np.linalg.norm(v))], [m]]], "any"
    if hz == "Bosonic":
        return [["Bosonic", [{"vec": [0.5, 0.5]}, M(np.array([[0.0, 0.0], [draw(gen.fl(-1, 1)), 0.3]])), {"arr3": [np.eye(2).tolist(), (np.eye(2) * draw(gen.fl(1.0, 2.0))).tolist()]}], [m]]], "any"
    if hz == "GKP":
        return [["GKP", [{"list": [draw(v_ang()), draw(v_ang())]}, draw(gen.fl(0.1, 0.5))], [m]]], "any"
    if hz == "BipartiteGraphEmbed" and n >= 2:
        b = draw(gen.fl(0.2, 1.0))
        modes = list(draw(st.permutations(list(range(n))))[:2])
        if draw(st.booleans()):
            return [["BipartiteGraphEmbed", [M(np.array([[0, b], [b, 0]]))], modes]], "any"
        return [["BipartiteGraphEmbed", [M(np.array([[b]]))], modes, {"kw": {"edges": {"bool": True}}}]], "any"
    if hz == "Gaussian":
        k = draw(st.integers(1, min(n, 2)))
        modes = list(draw(st.permutations(list(range(n))))[:k])
        _, V = draw(gen.covariance(k, 2.0, ["pure_generic", "mixed_generic", "thermal", "pure_diag", "vacuum", "mixed_diag"] if k == 1 else ["thermal", "pure_diag", "vacuum", "mixed_diag", "pure_blockdiag"]))
        p = [M(V)]
        flags = {}
        what = draw(st.integers(0, 3))
        if what == 0:
            p.append(spec.enc_vec(draw(st.lists(gen.fl(-1, 1), min_size=2 * k, max_size=2 * k))))
        elif what == 1:
            flags["kw"] = {"decomp": {"bool": False}}
        return [["Gaussian", p, modes, flags]], "any"
    if hz == "Ggate":  # not offered, see HAZARDS
        k = draw(st.integers(1, min(n, 2)))
        modes = list(draw(st.permutations(list(range(n))))[:k])
        _, _, S = draw(gen.symplectic(k, 0.8, ["generic", "passive", "diag"] if k == 1 else ["passive", "diag", "O1Z"]))
        return [["Ggate", [M(S), spec.enc_vec(draw(st.lists(gen.fl(-1, 1), min_size=2 * k, max_size=2 * k)))], modes]], "any"
    if hz == "meas_angle" and n >= 2:  # not offered, see HAZARDS: feed-forward of a measurement result into a later measurement basis
        a, b = list(draw(st.permutations(list(range(n)))))[:2]
        return [["MeasureHomodyne", [draw(v_ang())], [a]], ["MeasureHomodyne", [draw(sym_ast([["meas", a]]))], [b]]], "ordered"
    if hz == "New":
        return [["New", [draw(st.integers(1, 2))], []]], "end"
    if hz == "Del" and n >= 2:
        return [["Del", [], [m]]], "end"
    # symbolic parameters
    name = draw(st.sampled_from(G1 + G2 + ["LossChannel", "Coherent", "Thermal"])) if n >= 2 else draw(st.sampled_from(G1 + ["Coherent"]))
    out = []
    if hz in ("meas", "meas_fn", "negpow") or (hz == "pow" and draw(st.booleans())):
        if n < 2:
            hz, atoms = "free", [["free", "a"], ["free", "b"]]
        else:
            mm = list(draw(st.permutations(list(range(n)))))
            if n > 10 and draw(st.integers(0, 3)) > 0:
                mm = sorted(mm, key=lambda x: x < 10)  # measured modes with two-digit indices first
            srcs = mm[:draw(st.integers(1, min(2, n - 1)))]
            out += [["MeasureHomodyne", [draw(v_ang())], [s]] for s in srcs]
            atoms = [["meas", s] for s in srcs]
            op = draw(scalar_op(n, name))
            free_modes = [x for x in range(n) if x not in srcs]
            if len(op[2]) > len(free_modes):
                op = draw(scalar_op(n, draw(st.sampled_from(G1))))
            op[2] = list(draw(st.permutations(free_modes)))[:len(op[2])]
    else:
        atoms = [["free", "a"], ["free", "a"], ["free", "b"]]
    if not out:
        op = draw(scalar_op(n, name))
    slot = draw(st.integers(0, len(op[1]) - 1))
    op[1][slot] = draw(sym_ast(atoms, {"meas_fn": "fn", "pow": "pow", "negpow": "negpow"}.get(hz)))
    out.append(op)
    if draw(st.integers(0, 2)) == 0:  # a second command with a symbolic parameter
        op2 = draw(scalar_op(n, draw(st.sampled_from(G1))))
        if atoms[0][0] == "meas":
            op2[2] = [draw(st.sampled_from([x for x in range(n) if x not in [a[1] for a in atoms]]))]
        op2[1][0] = draw(sym_ast(atoms))
        out.append(op2)
    return out, "ordered"


def _finish(draw, n, ops_, writers):
    used = [m for o in ops_ for m in o[2]]
    n_eff = 1 + max(used + [0])
    w = draw(st.sampled_from(writers))
    # the index is drawn, not the element (sampled_from favours early elements)
    paths = ["string"] if w == "code" else ["string", "file", "file_ext", "pathlib", "fileobj"] + (["file_decl", "string_decl"] if w == "xir" else [])
    path = paths[draw(st.integers(0, len(paths) - 1))]
    vals = st.one_of(st.sampled_from([0.5, 1.25, 0.75]), gen.fl(0.1, 2.0))
    case = {"n": n_eff, "ops": ops_, "ir": w, "path": path,
            "bind": [{"a": draw(vals), "b": draw(vals)} for _ in range(3)],
            "meas": [[draw(vals) for _ in range(n_eff + 2)] for _ in range(3)]}
    if any(_is_near(p) for o in ops_ for p in o[1]):
        case["near_pi12"] = True
    return case


@st.composite
def rt_case(draw, writers=("blackbird", "xir")):
    n = draw(st.sampled_from([1, 2, 3, 4, 12, 1, 2, 3, 4]))  # 12: two-digit mode indices (q[10], measured parameter q10)
    L = draw(st.integers(1, 5))
    ops_ = []
    for _ in range(L):
        grp = draw(st.sampled_from(["g1", "g1", "g2", "chp", "meas", "array"]))
        if grp == "g2" and n < 2:
            grp = "g1"
        if grp == "g1":
            ops_.append(draw(scalar_op(n, draw(st.sampled_from(G1)), np_ok=True)))
        elif grp == "g2":
            ops_.append(draw(scalar_op(n, draw(st.sampled_from(G2)), np_ok=True)))
        elif grp == "chp":
            ops_.append(draw(scalar_op(n, draw(st.sampled_from(CH_PREP)), np_ok=True)))
        elif grp == "meas":
            ops_.append(draw(meas_op(n)))
        else:
            ops_.append(draw(array_op(n)))
    hz = None
    if draw(st.integers(0, 2)) == 0:
        hz = draw(st.sampled_from(HAZARDS))
        hops, where = draw(hazard_ops(n, hz))
        pos = len(ops_) if where == "end" else draw(st.integers(0, len(ops_)))
        if where == "end" and hops[0][0] == "Del":
            # the deleted mode must not be the top mode of the rest (register size is compared through the top mode)
            pass
        ops_ = ops_[:pos] + hops + ops_[pos:]
    case = _finish(draw, n, ops_, list(writers))
    if hz:
        case["hazard"] = hz
    if draw(st.integers(0, 5)) == 0:
        case["name"] = draw(st.sampled_from(NAMES))
    if draw(st.integers(0, 7)) == 0 or (hz == "Gaussian" and draw(st.booleans())):
        case["hbar"] = draw(st.sampled_from([1.0, 0.5, 3.0]))
    free_used = any(("free", nm) in ast_atoms(p) for o in ops_ for p in o[1] for nm in ("a", "b"))
    if free_used and draw(st.integers(0, 2)) == 0:
        case["prebind"] = True
    if case["ir"] != "code" and hz not in ("New", "Del") and draw(st.integers(0, 2)) == 0:
        gaussian_only = all(o[0] in refsim.GAUSSIAN_UNITARIES or o[0] in ("LossChannel", "ThermalLossChannel", "Coherent", "Squeezed", "DisplacedSqueezed",
                                                                         "Thermal", "Vacuum", "MeasureFock", "MeasureThreshold", "MeasureHomodyne", "MeasureHeterodyne",
                                                                         "GraphEmbed", "Gaussian", "PassiveChannel") for o in ops_)
        comp = {"compiler": draw(st.sampled_from(["gaussian", "fock", "bosonic"])) if gaussian_only else "fock"}
        if draw(st.booleans()):
            comp["shots"] = draw(st.sampled_from([1, 5, 100]))
        if draw(st.integers(0, 3)) == 0:
            comp["crop"] = draw(st.booleans())
        if comp["compiler"] == "fock" or draw(st.integers(0, 3)) == 0:
            comp["cutoff_dim"] = draw(st.integers(3, 12))
        case["compile"] = comp
    return case


@st.composite
def code_case(draw):
    """generate_code: scalar-parameter programs (what it can express), parameters biased to the neighbourhood of k*pi/12"""
    n = draw(st.integers(1, 3))
    ops_ = []
    for _ in range(draw(st.integers(1, 5))):
        grp = draw(st.sampled_from(["g1", "g1", "g2", "chp", "meas"]))
        if grp == "g2" and n < 2:
            grp = "g1"
        if grp == "meas":
            ops_.append(draw(meas_op(n)))
        else:
            ops_.append(draw(scalar_op(n, draw(st.sampled_from({"g1": G1, "g2": G2 + ["sMZgate"], "chp": CH_PREP}[grp])), np_ok=True)))
    hz = None
    if draw(st.integers(0, 5)) == 0:
        hz = draw(st.sampled_from(["Fouriergate", "MSgate", "Catstate", "Ket1", "GKP", "free", "meas", "New", "Del", "array"]))
        hops = [draw(array_op(n))] if hz == "array" else draw(hazard_ops(n, hz))[0]
        ops_ = ops_ + hops
    case = _finish(draw, n, ops_, ["code"])
    what = draw(st.integers(0, 5))
    if what <= 1:  # generate_code(prog, eng=<local engine>): backend name and cutoff_dim are written
        case["eng"] = {"backend": draw(st.sampled_from(["fock", "gaussian", "bosonic"])), "cutoff_dim": None}
        if case["eng"]["backend"] == "fock" or draw(st.integers(0, 2)) == 0:
            case["eng"]["cutoff_dim"] = draw(st.integers(2, 15))
    if what in (1, 2) and hz not in ("New", "Del"):  # a register that is larger than the highest mode used (written as sf.Program(n))
        case["n"] += draw(st.integers(1, 9))
    return case


@st.composite
def tdm_case(draw):
    """TDMPrograms in the style of the documentation: one or two spatial modes, per-bin arrays used through p[i]"""
    N = draw(st.sampled_from([[1], [2], [2], [3], [1, 2], [2, 3]]))
    n = sum(N)
    bins = draw(st.integers(1, 5))
    na = draw(st.sampled_from([1, 2, 12, 3, 1, 2, 12, 3]))  # 12: two-digit loop variables p10, p11 (p[10] in code)

    def arr_index():
        return draw(st.integers(10, na - 1)) if na > 10 and draw(st.integers(0, 2)) else draw(st.integers(0, na - 1))

    el = st.one_of(v_ang(), gen.fl(-3, 3), st.integers(-2, 3))
    arrays = [[draw(el) for _ in range(bins)] for _ in range(na)]
    ops_ = []
    used = set()
    for _ in range(draw(st.integers(1, 5))):
        name = draw(st.sampled_from(["Sgate", "Rgate", "BSgate", "Dgate", "LossChannel", "MZgate"] if n >= 2 else ["Sgate", "Rgate", "Dgate", "LossChannel"]))
        op = draw(scalar_op(n, name, dagger_ok=True))  # .H: 1 in 4 gates
        if name != "LossChannel" and draw(st.integers(0, 3)) != 0:
            i = arr_index()
            slot = draw(st.integers(0, len(op[1]) - 1))
            op[1][slot] = ["tdm", i] if draw(st.integers(0, 5)) != 0 else draw(sym_ast([["tdm", i]], draw(st.sampled_from(["scale", "neg", "affine"]))))
            used.add(i)
        ops_.append(op)
    i = arr_index()
    mk = draw(st.integers(0, 5))
    if mk == 0:  # the other measurement classes (Borealis programs end in MeasureFock)
        mname = draw(st.sampled_from(["MeasureFock", "MeasureThreshold", "MeasureHeterodyne"]))
        ops_.append([mname, [], [0], {"shorthand": "MeasureHD"} if mname == "MeasureHeterodyne" and draw(st.booleans()) else {}])
    elif mk == 1:
        ops_.append(draw(st.sampled_from([["MeasureHomodyne", [0], [0], {"shorthand": "MeasureX"}], ["MeasureHomodyne", [PI / 2], [0], {"shorthand": "MeasureP"}]])))
    else:
        ops_.append(["MeasureHomodyne", [["tdm", i] if draw(st.booleans()) else draw(v_ang())], [0]])
    if n >= 2 and draw(st.booleans()):
        ops_.append(["MeasureHomodyne", [draw(v_ang())], [n - 1]])
    else:
        ops_.insert(0, ["Sgate", [draw(KIND["sq"]()), 0], [n - 1]])
    w = draw(st.sampled_from(["blackbird", "xir", "xir", "code"]))
    tpaths = ["string"] if w == "code" else ["string", "file", "fileobj", "pathlib"] + (["string_decl", "file_decl"] if w == "xir" else [])
    vals = st.one_of(st.sampled_from([0.5, 1.25]), gen.fl(0.1, 2.0))
    case = {"n": n, "tdm": {"N": N, "arrays": arrays, "shift": "default" if draw(st.integers(0, 4)) else draw(st.integers(1, 2)),
                            "N_as_list": draw(st.booleans()), "arrays_as": ["list", "numpy", "tuple", "list"][draw(st.integers(0, 3))]},
            "ops": ops_, "ir": w, "path": tpaths[draw(st.integers(0, len(tpaths) - 1))],
            "bind": [{"p%d" % j: draw(vals) for j in range(na)} for _ in range(3)], "meas": [[0.5] * (n + 1)] * 3}
    if draw(st.integers(0, 3)) == 0 and w == "xir":  # blackbird has no place for run options without a target
        case["tdm_shots"] = draw(st.sampled_from([1, 7]))
    if draw(st.integers(0, 5)) == 0:
        case["name"] = draw(st.sampled_from(NAMES))
    if any(_is_near(x) for a in arrays for x in a) or any(_is_near(p) for o in ops_ for p in o[1]):
        case["near_pi12"] = True
    return case


# ---------------------------------------------------------------------------------------------
# oracle self-test
# ---------------------------------------------------------------------------------------------
def selftest():
    refsim.selftest()
    import strawberryfields as sf

    _fresh_sympy()

    # AST -> front-end expression evaluates to the independent python value
    ast = ["add", ["mul", 2.5, ["fn", "sin", ["free", "a"]]], ["div", ["meas", 1], 3]]
    case = {"n": 2, "ops": [["MeasureHomodyne", [0], [1]], ["Zgate", [ast], [0]], ["Sgate", [0.3, 0.2], [0], {"H": True}]], "ir": "xir"}
    prog = build_program(case)
    snap = snapshot(prog, BIND0, MEAS0)
    for k in range(3):
        want = ast_eval(ast, BIND0[k], MEAS0[k])
        assert abs(complex(snap["cmds"][1]["p"][0]["vals"][k]) - want) < 1e-14, (snap["cmds"][1]["p"][0]["vals"], want)
    assert snap["cmds"][1]["deps"] == [1] and snap["cmds"][2]["dagger"] and snap["top"] == 1
    # the dagger convention: Sgate(0.3, 0.2).H == Sgate(-0.3, 0.2), != Sgate(0.3, 0.2)
    inv = snapshot(build_program({"n": 2, "ops": case["ops"][:2] + [["Sgate", [-0.3, 0.2], [0]]]}), BIND0, MEAS0)
    drop = snapshot(build_program({"n": 2, "ops": case["ops"][:2] + [["Sgate", [0.3, 0.2], [0]]]}), BIND0, MEAS0)
    assert compare_programs("xir", snap, inv, {}) == []
    assert [s for s, _ in compare_programs("xir", snap, drop, {})] == ["io.dagger_dropped.xir"]
    # tolerance and type rules
    assert same_val(_norm(1), _norm(1.0)) and same_val(_norm([1, 2]), _norm(np.array([1.0, 2.0]))) and not same_val(_norm(1.0), _norm(1.0 + 1e-11))
    assert not same_val(_norm("a"), _norm(1.0)) and not same_val(_norm([1, 2]), _norm([[1, 2]])) and same_val(_norm(0.5 + 0j), _norm(0.5))
    # compatible / incompatible reorderings
    a = snapshot(build_program({"n": 2, "ops": [["Sgate", [0.1], [0]], ["Rgate", [0.2], [1]], ["BSgate", [0.3, 0.1], [0, 1]]]}), BIND0, MEAS0)
    b = snapshot(build_program({"n": 2, "ops": [["Rgate", [0.2], [1]], ["Sgate", [0.1], [0]], ["BSgate", [0.3, 0.1], [0, 1]]]}), BIND0, MEAS0)
    c = snapshot(build_program({"n": 2, "ops": [["Rgate", [0.2], [1]], ["BSgate", [0.3, 0.1], [0, 1]], ["Sgate", [0.1], [0]]]}), BIND0, MEAS0)
    assert compare_programs("xir", a, b, {}) == [] and compare_programs("xir", a, c, {}) != []
    # generate_code classification: pi/2 - 1e-7 printed as 5 pi/12 is a truncation, pi/2 + 1e-7 printed as pi/2 a snap
    assert pi_classify(_norm(PI / 2 - 1e-7), _norm(5 * PI / 12)) == "trunc" and pi_classify(_norm(PI / 2 + 1e-7), _norm(PI / 2)) == "snap"
    assert pi_classify(_norm(-PI / 2 + 1e-7), _norm(-5 * PI / 12)) == "trunc" and pi_classify(_norm(0.3), _norm(PI / 12)) is None
    assert sf.hbar == 2


SUBS = [
    Sub("ir_roundtrip", check=check_rt, strategy=lambda ctx: rt_case(), examples={"quick": 1000, "thorough": 6000},
        shards={"quick": 4, "thorough": 16}, budget={"quick": 80, "thorough": 1500},
        rule="random programs through blackbird / xir, string and file paths, optionally compiled; full comparison + refsim back-stop"),
    Sub("codegen", check=check_rt, strategy=lambda ctx: code_case(), examples={"quick": 1000, "thorough": 6000},
        shards={"quick": 1, "thorough": 6}, budget={"quick": 80, "thorough": 1500},
        rule="generate_code + exec in a fresh namespace; scalar parameters biased to within 1e-5 of multiples of pi/12"),
    Sub("tdm", check=check_rt, strategy=lambda ctx: tdm_case(), examples={"quick": 600, "thorough": 4000},
        shards={"quick": 1, "thorough": 6}, budget={"quick": 80, "thorough": 1500},
        rule="TDMPrograms with per-bin arrays (N, arrays, shift, loop-variable expressions) through all three writers"),
    Sub("op_classes", check=check_rt, enumerate=class_cases, exhaustive=True, shards={"quick": 1, "thorough": 1},
        rule="one small program per operation class variant of ops.__all__ (and shorthand) x writer; compiled option sets"),
    Sub("codegen_pi_grid", check=check_rt, enumerate=pi_grid_cases, exhaustive=True, shards={"quick": 1, "thorough": 1},
        rule="generate_code on every k*pi/12 (|k| <= 30) x 14 offsets within 1e-5, as gate parameters and as TDM per-bin values"),
]

MANIFEST = {
    "technique": "Hypothesis round-trip (metamorphic) testing of three writers against their readers, command-by-command comparison of numeric "
                 "snapshots under drawn bindings, refsim as semantic back-stop; exhaustive enumeration of operation classes",
    "text": ("Programs over every exported operation class, parameter type (int, float, complex, array, string, symbolic free / measured "
             "expressions), dagger forms, post-selection, dark counts, constructor options, compile targets and run options, and TDM programs "
             "are written to Blackbird, XIR and Python code and loaded back; the loaded program must have the same commands on the same modes in "
             "a compatible order with numerically equal parameters (1e-12) under three bindings, the same flags and options; a file that was "
             "written but cannot be loaded, or a writer that dies with an internal error, is a violation."),
    "note": "trusted: sympy evaluation of symbolic parameters, vf.refsim (self-tested); blackbird / xir parsers are part of the system under test",
}
